# -*- coding: utf-8 -*-
"""
C18 — extraction of the traversal table from `src/py_gql/lang/visitor.py` (Python `ast`) and of
`__slots__` from `src/py_gql/lang/ast.py`; emission of `Generated/VisitTable.lean`.

Understood shapes of a `@_visit_method` body (parameter P, anything else raises `Shape`):

    P.a = map_and_filter(self.T, P.a)            list,   rebuilt (assign)          [also list(map_and_filter(..))]
    map_and_filter(self.T, P.a)                  list,   result discarded
    for x in P.a: self.T(x)                      list,   result discarded
    P.a = self.T(P.a)                            single, assigned back
    self.T(P.a)                                  single, result discarded
    if P.a: / if P.a is not None:  <single step on P.a>      guarded single step
    if isinstance(P, _ast.K): <steps> elif isinstance(P, _ast.L): <steps>   kind-guarded steps
    return P                                     (last statement, mandatory)

Dispatchers (undecorated `_visit_*`): `return classdispatch(P, {_ast.K: self.m, ...})` or
`if isinstance(P, _ast.K): return self.m1(P)` + `return self.m2(P)`.
"""
import ast
import re

from common import REPO

VISITOR = REPO / "src/py_gql/lang/visitor.py"
ASTPY = REPO / "src/py_gql/lang/ast.py"


class Shape(Exception):
    pass


def _attr_of(node, param):
    """`P.attr` -> attr"""
    if isinstance(node, ast.Attribute) and isinstance(node.value, ast.Name) and node.value.id == param:
        return node.attr
    return None


def _self_method(node):
    if isinstance(node, ast.Attribute) and isinstance(node.value, ast.Name) and node.value.id == "self":
        return node.attr
    return None


def _ast_class(node):
    if isinstance(node, ast.Attribute) and isinstance(node.value, ast.Name) and node.value.id == "_ast":
        return node.attr
    return None


def _registry(dict_node, what):
    if not isinstance(dict_node, ast.Dict):
        raise Shape("%s: registry is not a dict literal" % what)
    out = []
    for k, v in zip(dict_node.keys, dict_node.values):
        kk, vv = _ast_class(k), _self_method(v)
        if kk is None or vv is None:
            raise Shape("%s: registry entry is not `_ast.K: self.m`" % what)
        out.append((kk, vv))
    if len({k for k, _ in out}) != len(out):
        raise Shape("%s: duplicate registry key" % what)
    return out


def _classdispatch_call(expr, param, what):
    if (isinstance(expr, ast.Call) and isinstance(expr.func, ast.Name) and expr.func.id == "classdispatch"
            and len(expr.args) == 2 and not expr.keywords and isinstance(expr.args[0], ast.Name) and expr.args[0].id == param):
        return _registry(expr.args[1], what)
    return None


def _strip_doc(body):
    if body and isinstance(body[0], ast.Expr) and isinstance(body[0].value, ast.Constant) and isinstance(body[0].value.value, str):
        return body[1:]
    return body


def _map_and_filter(expr, param):
    """map_and_filter(self.T, P.a) or list(map_and_filter(...)) -> (T, a)"""
    if isinstance(expr, ast.Call) and isinstance(expr.func, ast.Name) and expr.func.id == "list" and len(expr.args) == 1 and not expr.keywords:
        expr = expr.args[0]
    if (isinstance(expr, ast.Call) and isinstance(expr.func, ast.Name) and expr.func.id == "map_and_filter"
            and len(expr.args) == 2 and not expr.keywords):
        t, a = _self_method(expr.args[0]), _attr_of(expr.args[1], param)
        if t and a:
            return t, a
    return None


def _single_call(expr, param):
    """self.T(P.a) -> (T, a)"""
    if isinstance(expr, ast.Call) and len(expr.args) == 1 and not expr.keywords:
        t, a = _self_method(expr.func), _attr_of(expr.args[0], param)
        if t and a:
            return t, a
    return None


def _kinds_of_test(test, param, subclasses):
    """The set of CONCRETE kinds for which a test on the node's class holds, or None if it is not such a test.
    Understood: isinstance(P, _ast.K) / isinstance(P, (_ast.K, _ast.L)), `not t`, `t and u`, `t or u`,
    type(P) is / == _ast.K, P.__class__ is / == _ast.K (and their `is not` / `!=`)."""
    every = set().union(*subclasses.values()) if subclasses else set()
    if isinstance(test, ast.UnaryOp) and isinstance(test.op, ast.Not):
        ks = _kinds_of_test(test.operand, param, subclasses)
        return None if ks is None else every - ks
    if isinstance(test, ast.BoolOp):
        parts = [_kinds_of_test(v, param, subclasses) for v in test.values]
        if any(x is None for x in parts):
            return None
        out = parts[0]
        for x in parts[1:]:
            out = (out & x) if isinstance(test.op, ast.And) else (out | x)
        return out
    if (isinstance(test, ast.Call) and isinstance(test.func, ast.Name) and test.func.id == "isinstance" and len(test.args) == 2
            and isinstance(test.args[0], ast.Name) and test.args[0].id == param):
        arg = test.args[1]
        classes = arg.elts if isinstance(arg, ast.Tuple) else [arg]
        out = set()
        for c in classes:
            k = _ast_class(c)
            if k is None or k not in subclasses:
                raise Shape("isinstance against an unknown class")
            out |= subclasses[k]
        return out
    if isinstance(test, ast.Compare) and len(test.ops) == 1 and isinstance(test.ops[0], (ast.Is, ast.Eq, ast.IsNot, ast.NotEq)):
        left, right = test.left, test.comparators[0]
        is_cls = ((isinstance(left, ast.Call) and isinstance(left.func, ast.Name) and left.func.id == "type" and len(left.args) == 1
                   and isinstance(left.args[0], ast.Name) and left.args[0].id == param)
                  or (isinstance(left, ast.Attribute) and left.attr == "__class__" and isinstance(left.value, ast.Name) and left.value.id == param))
        k = _ast_class(right)
        if is_cls and k is not None:
            if k not in subclasses:
                raise Shape("class comparison against an unknown class")
            exact = {k} & every
            return exact if isinstance(test.ops[0], (ast.Is, ast.Eq)) else every - exact
    return None


def _isinstance_test(test, param, subclasses):
    ks = _kinds_of_test(test, param, subclasses)
    return None if ks is None else sorted(ks)


def _tail_call(expr, param):
    """self.m(P) -> m"""
    if (isinstance(expr, ast.Call) and _self_method(expr.func) and len(expr.args) == 1 and not expr.keywords
            and isinstance(expr.args[0], ast.Name) and expr.args[0].id == param):
        return _self_method(expr.func)
    return None


def _eval_dispatch(stmts, param, subclasses, kind, what):
    """Which method an isinstance-cascade dispatcher calls for a node of concrete kind `kind`
    (`kind=None`: a class none of the tests knows). Returns the method name, or None when control falls through."""
    for st in stmts:
        if isinstance(st, ast.Return):
            m = _tail_call(st.value, param)
            if m is None:
                raise Shape("%s: unsupported dispatcher return at line %d" % (what, st.lineno))
            return m
        if isinstance(st, ast.If):
            ks = _kinds_of_test(st.test, param, subclasses)
            if ks is None:
                raise Shape("%s: unsupported dispatcher test at line %d" % (what, st.lineno))
            # for the unknown class every positive test is false
            branch = st.body if (kind is not None and kind in ks) or (kind is None and _negative(st.test)) else st.orelse
            r = _eval_dispatch(branch, param, subclasses, kind, what)
            if r is not None:
                return r
            continue
        if isinstance(st, ast.Pass):
            continue
        raise Shape("%s: unsupported dispatcher statement %s at line %d" % (what, type(st).__name__, st.lineno))
    return None


def _negative(test):
    """does the test hold for a class that none of the named classes matches?"""
    if isinstance(test, ast.UnaryOp) and isinstance(test.op, ast.Not):
        return not _negative(test.operand)
    if isinstance(test, ast.BoolOp):
        vals = [_negative(v) for v in test.values]
        return all(vals) if isinstance(test.op, ast.And) else any(vals)
    if isinstance(test, ast.Compare):
        return isinstance(test.ops[0], (ast.IsNot, ast.NotEq))
    return False


def _steps(stmts, param, subclasses, kinds, what):
    """-> list of step dicts {kinds, attr, shape, guard, assign, target}"""
    out = []
    for st in stmts:
        if isinstance(st, ast.Assign) and len(st.targets) == 1:
            tgt = _attr_of(st.targets[0], param)
            mf = _map_and_filter(st.value, param)
            sc = _single_call(st.value, param)
            if tgt and mf and mf[1] == tgt:
                out.append(dict(kinds=kinds, attr=tgt, shape="list", guard="always", assign=True, target=mf[0]))
                continue
            if tgt and sc and sc[1] == tgt:
                out.append(dict(kinds=kinds, attr=tgt, shape="single", guard="always", assign=True, target=sc[0]))
                continue
            raise Shape("%s: unsupported assignment at line %d" % (what, st.lineno))
        if isinstance(st, ast.Expr):
            mf = _map_and_filter(st.value, param)
            sc = _single_call(st.value, param)
            if mf:
                out.append(dict(kinds=kinds, attr=mf[1], shape="list", guard="always", assign=False, target=mf[0]))
                continue
            if sc:
                out.append(dict(kinds=kinds, attr=sc[1], shape="single", guard="always", assign=False, target=sc[0]))
                continue
            raise Shape("%s: unsupported expression statement at line %d" % (what, st.lineno))
        if isinstance(st, ast.For) and not st.orelse and isinstance(st.target, ast.Name) and len(st.body) == 1:
            a = _attr_of(st.iter, param)
            b = st.body[0]
            if (a and isinstance(b, ast.Expr) and isinstance(b.value, ast.Call) and len(b.value.args) == 1
                    and isinstance(b.value.args[0], ast.Name) and b.value.args[0].id == st.target.id and _self_method(b.value.func)):
                out.append(dict(kinds=kinds, attr=a, shape="list", guard="always", assign=False, target=_self_method(b.value.func)))
                continue
            raise Shape("%s: unsupported for loop at line %d" % (what, st.lineno))
        if isinstance(st, ast.If):
            # (a) guard on an attribute
            t = st.test
            gattr = _attr_of(t, param)
            guard = "truthy" if gattr else None
            if (guard is None and isinstance(t, ast.UnaryOp) and isinstance(t.op, ast.Not) and isinstance(t.operand, ast.Compare)
                    and len(t.operand.ops) == 1 and isinstance(t.operand.ops[0], (ast.Is, ast.Eq))
                    and isinstance(t.operand.comparators[0], ast.Constant) and t.operand.comparators[0].value is None):
                t = ast.Compare(left=t.operand.left, ops=[ast.IsNot()], comparators=t.operand.comparators)
            if (guard is None and isinstance(t, ast.Compare) and len(t.ops) == 1 and isinstance(t.ops[0], (ast.IsNot, ast.NotEq))
                    and isinstance(t.comparators[0], ast.Constant) and t.comparators[0].value is None):
                gattr = _attr_of(t.left, param)
                guard = "notNone" if gattr else None
            if guard:
                if st.orelse:
                    raise Shape("%s: guarded step with else at line %d" % (what, st.lineno))
                inner = _steps(st.body, param, subclasses, kinds, what)
                if len(inner) != 1 or inner[0]["shape"] != "single" or inner[0]["attr"] != gattr or inner[0]["guard"] != "always":
                    raise Shape("%s: guard on %s does not wrap a single step on it (line %d)" % (what, gattr, st.lineno))
                inner[0]["guard"] = guard
                out.append(inner[0])
                continue
            # (b) a test on the node's class: body for the kinds where it holds, orelse (elif / else) for the others
            ks = _kinds_of_test(st.test, param, subclasses)
            if ks is None:
                raise Shape("%s: unsupported if at line %d" % (what, st.lineno))
            every = set().union(*subclasses.values())
            universe = sorted(every) if kinds is None else list(kinds)
            out.extend(_steps(st.body, param, subclasses, [k for k in universe if k in ks], what))
            if st.orelse:
                out.extend(_steps(st.orelse, param, subclasses, [k for k in universe if k not in ks], what))
            continue
        if isinstance(st, ast.Pass):
            continue
        raise Shape("%s: unsupported statement %s at line %d" % (what, type(st).__name__, st.lineno))
    return out


def node_classes():
    """live classes of lang/ast.py: {name: class} for every Node subclass defined there"""
    import inspect
    import py_gql.lang.ast as A
    return {n: c for n, c in inspect.getmembers(A, inspect.isclass) if issubclass(c, A.Node) and c.__module__ == A.__name__}


def slots_table():
    """[(kind, [attr...])] for every concrete node class, `source` dropped, cross-checked against the source text."""
    classes = node_classes()
    tree = ast.parse(ASTPY.read_text())
    textual = {}
    for n in tree.body:
        if isinstance(n, ast.ClassDef):
            for s in n.body:
                if isinstance(s, ast.Assign) and getattr(s.targets[0], "id", None) == "__slots__":
                    textual[n.name] = list(ast.literal_eval(s.value))
    out = []
    for name, c in sorted(classes.items()):
        sl = list(c.__slots__)
        if name in textual and textual[name] != sl:
            raise Shape("__slots__ of %s: live class and source text differ" % name)
        for special in ("__bool__", "__len__"):
            if special in c.__dict__:
                raise Shape("%s defines %s: truthiness guards are no longer `is not None`" % (name, special))
        if not sl or name.startswith("_"):
            continue  # abstract bases
        out.append((name, [a for a in sl if a != "source"]))
    _check_scalar_or_name_slots(classes, out)
    return out


def scalar_or_name_slot(kind, attr):
    """replica of `Props.C18.scalarOrNameSlot` (Props/C18_cover.lean): untraversed slots that hold a scalar or `Name` nodes"""
    return (attr in ("name", "alias", "operation", "block") or (kind, attr) == ("DirectiveDefinition", "locations")
            or (attr == "value" and kind in ("BooleanValue", "EnumValue", "FloatValue", "IntValue", "StringValue", "Name")))


def _check_scalar_or_name_slots(classes, table):
    """ties `uncovered_partition` / `missed_children_today` to ast.py: a slot the Lean side classifies as scalar-or-Name must
       not be annotated (in the class's `__init__`) with a node class other than `Name`."""
    import inspect
    import typing
    import py_gql.lang.ast as A

    def mentions(t, acc):
        if inspect.isclass(t) and issubclass(t, A.Node):
            acc.add(t.__name__)
        for a in typing.get_args(t):
            mentions(a, acc)
        return acc

    for kind, attrs in table:
        try:
            hints = typing.get_type_hints(classes[kind].__init__)
        except Exception:  # noqa
            continue
        for a in attrs:
            if a != "loc" and a in hints and scalar_or_name_slot(kind, a):
                m = mentions(hints[a], set())
                if m - {"Name"}:
                    raise Shape("%s.%s is annotated with node class(es) %s but Props.C18.scalarOrNameSlot classifies it as "
                                "scalar / Name (missed_children_today would hide an unvisited child)" % (kind, a, sorted(m)))


def subclass_table():
    classes = node_classes()
    concrete = {n for n, c in classes.items() if c.__slots__ and not n.startswith("_")}
    return {n: {m for m in concrete if issubclass(classes[m], c)} for n, c in classes.items()}


def extract_table():
    src = VISITOR.read_text()
    tree = ast.parse(src)
    cls = {n.name: n for n in tree.body if isinstance(n, ast.ClassDef)}
    for need in ("ASTVisitor", "DispatchingVisitor", "ChainedVisitor", "SkipNode"):
        if need not in cls:
            raise Shape("class %s not found" % need)
    subclasses = subclass_table()
    methods, dispatchers, visit_dispatch = [], [], None
    registry_helpers = set()
    for fn in cls["ASTVisitor"].body:
        if not isinstance(fn, ast.FunctionDef):
            continue
        params = [a.arg for a in fn.args.args]
        body = _strip_doc(fn.body)
        if fn.name == "visit":
            if len(body) != 1 or not isinstance(body[0], ast.Return):
                raise Shape("visit: body is not a single return")
            try:
                visit_dispatch = _classdispatch_call(body[0].value, params[1], "visit")
            except Shape:
                visit_dispatch = None
            if visit_dispatch is None:
                # classdispatch(node, self.<helper>()) with `def <helper>(self): return {…}`
                v = body[0].value
                helper = None
                if (isinstance(v, ast.Call) and isinstance(v.func, ast.Name) and v.func.id == "classdispatch" and len(v.args) == 2
                        and isinstance(v.args[1], ast.Call) and not v.args[1].args and _self_method(v.args[1].func)):
                    helper = _self_method(v.args[1].func)
                for g in cls["ASTVisitor"].body:
                    if helper and isinstance(g, ast.FunctionDef) and g.name == helper:
                        gb = _strip_doc(g.body)
                        if len(gb) == 1 and isinstance(gb[0], ast.Return):
                            visit_dispatch = _registry(gb[0].value, "visit")
                            registry_helpers.add(helper)
            if visit_dispatch is None:
                raise Shape("visit: not a classdispatch call")
            continue
        if fn.name == "_visit_replacement":
            continue        # the body selection for a replacement of another class: observed by `probe_cross_kind`
        if not fn.name.startswith("_visit_"):
            if fn.name in ("enter", "leave") or fn.name in registry_helpers or fn.name == "_methods":
                continue
            raise Shape("unexpected method ASTVisitor.%s" % fn.name)
        if len(params) != 2:
            raise Shape("%s: expected (self, node)" % fn.name)
        p = params[1]
        decos = [d.id for d in fn.decorator_list if isinstance(d, ast.Name)]
        if decos == ["_visit_method"] and len(fn.decorator_list) == 1:
            if not body or not (isinstance(body[-1], ast.Return) and isinstance(body[-1].value, ast.Name) and body[-1].value.id == p):
                raise Shape("%s: does not end with `return %s`" % (fn.name, p))
            methods.append((fn.name, _steps(body[:-1], p, subclasses, None, fn.name)))
        elif not fn.decorator_list:
            if len(body) == 1 and isinstance(body[0], ast.Return):
                reg = _classdispatch_call(body[0].value, p, fn.name)
                if reg is None:
                    raise Shape("%s: dispatcher is not a classdispatch call" % fn.name)
                dispatchers.append((fn.name, reg, None))
            else:
                every = sorted(set().union(*subclasses.values()))
                dflt = _eval_dispatch(body, p, subclasses, None, fn.name)
                reg = []
                for k in every:
                    m = _eval_dispatch(body, p, subclasses, k, fn.name)
                    if m is None:
                        raise Shape("%s: no method for %s" % (fn.name, k))
                    if m != dflt:
                        reg.append((k, m))
                dispatchers.append((fn.name, reg, dflt))
        else:
            raise Shape("%s: unexpected decorators" % fn.name)
    if visit_dispatch is None:
        raise Shape("ASTVisitor.visit not found")
    known = {m for m, _ in methods} | {d for d, _, _ in dispatchers}
    for m, steps in methods:
        for s in steps:
            if s["target"] not in known:
                raise Shape("%s calls unknown %s" % (m, s["target"]))
    for d, reg, dflt in dispatchers:
        for _, m in reg:
            if m not in dict(methods):
                raise Shape("%s dispatches to unknown %s" % (d, m))
        if dflt and dflt not in dict(methods):
            raise Shape("%s defaults to unknown %s" % (d, dflt))
    for _, m in visit_dispatch:
        if m not in dict(methods):
            raise Shape("visit dispatches to unknown %s" % m)

    # DispatchingVisitor registries
    regs = {}
    defaults_ok = True
    dv = cls["DispatchingVisitor"]
    for fn in dv.body:
        if not isinstance(fn, ast.FunctionDef):
            continue
        body = _strip_doc(fn.body)
        params = [a.arg for a in fn.args.args]
        if fn.name in ("enter", "leave"):
            if len(body) != 1 or not isinstance(body[0], ast.Return):
                raise Shape("DispatchingVisitor.%s: body is not a single return" % fn.name)
            r = _classdispatch_call(body[0].value, params[1], "DispatchingVisitor." + fn.name)
            if r is None:
                raise Shape("DispatchingVisitor.%s: not a classdispatch call" % fn.name)
            regs[fn.name] = r
        elif fn.name.startswith("enter_"):
            ok = (len(body) == 1 and isinstance(body[0], ast.Return) and isinstance(body[0].value, ast.Name) and body[0].value.id == params[1])
            defaults_ok = defaults_ok and ok
        elif fn.name.startswith("leave_"):
            ok = (len(body) == 1 and (isinstance(body[0], ast.Pass) or (isinstance(body[0], ast.Return) and body[0].value is None)))
            defaults_ok = defaults_ok and ok
        else:
            raise Shape("unexpected method DispatchingVisitor.%s" % fn.name)
    if set(regs) != {"enter", "leave"}:
        raise Shape("DispatchingVisitor.enter/leave not found")
    if not defaults_ok:
        raise Shape("a default DispatchingVisitor.enter_*/leave_* handler is no longer a no-op")
    return dict(methods=methods, dispatchers=dispatchers, visit=visit_dispatch, slots=slots_table(),
                enter_registry=regs["enter"], leave_registry=regs["leave"])


def probe_cross_kind():
    """Does the wrapper traverse a replacement of ANOTHER class with the method of the replacement's class (True), or
    go on with the body of the original node's method (False)? Observed on the real code: a Field replaced by an
    InlineFragment whose own selection set holds a field."""
    from py_gql.lang import parse
    import py_gql.lang.ast as A
    from py_gql.lang.visitor import ASTVisitor
    seen = []
    repl = A.InlineFragment(selection_set=A.SelectionSet(selections=[A.Field(name=A.Name(value="inner"))]))

    class V(ASTVisitor):
        def enter(self, node):
            seen.append(node)
            if isinstance(node, A.Field) and node.name.value == "a":
                return repl
            return node
    try:
        V().visit(parse("{ a }"))
    except Exception:  # noqa
        return False
    return any(isinstance(n, A.Field) and n.name.value == "inner" for n in seen)


def probe_chain_skip():
    """Is a SkipNode raised by a chain member the raiser's own (the other members enter in order and are left in reverse,
    True) or does it abort the loop (later members not run, nobody left, False)? Observed on the real code."""
    from py_gql.lang import parse
    import py_gql.lang.ast as A
    from py_gql.lang.visitor import ASTVisitor, ChainedVisitor, SkipNode
    log = []

    class R(ASTVisitor):
        def __init__(self, t, skip):
            self.t, self.skip = t, skip

        def enter(self, node):
            if isinstance(node, A.Field):
                log.append((self.t, "enter"))
                if self.skip:
                    raise SkipNode()
            return node

        def leave(self, node):
            if isinstance(node, A.Field):
                log.append((self.t, "leave"))
    try:
        ChainedVisitor(R(0, False), R(1, True), R(2, False)).visit(parse("{ a }"))
    except Exception:  # noqa
        return False
    return log == [(0, "enter"), (1, "enter"), (2, "enter"), (2, "leave"), (0, "leave")]


def get_table():
    t = _get_table()
    t["cross_kind"] = probe_cross_kind()
    t["chain_personal_skip"] = probe_chain_skip()
    t["child_kinds"] = child_kinds_table(t["slots"])
    return t


# ---------------------------------------------------------------------------------------------------
# which node classes occur under which attribute (`WellKinded` of Props/C18_reach.lean) and: slot order = source order

CHILD_KIND_PROBES = [
    ('query Q($a: Int = 1 @d, $b: [Int!]! = [1, 2.5, "s", """b""", true, null, E, {k: 1, l: [2], m: {n: E}}], $c: Float = 1.5, $c2: String = "s", '
     '$c3: Boolean = true, $c4: Int = null, $c5: N = {k: 1}, $c6: E = A) @d(x: $a, y: [$a, 1], z: {k: $a, l: [$a]}) '
     '{ al: f(a: $a, b: [$a, [1]], c: {k: $a, l: [$a], m: {n: 1}}, d: 1.5, e: "s", g: true, h: null, i: E) @d { g } ...F @d ... on T @d { a } ... @d { a } ... { a } } '
     'mutation M { a } subscription S { a } { a } '
     'fragment F($w: [Int] = [1] @d) on T @d { a ...G } fragment G on T { a }', {"experimental_fragment_variables": True}),
    ('schema @d(x: 1) { query: Q mutation: M subscription: S } extend schema @d { mutation: M } extend schema @d '
     '"sd" scalar S @d extend scalar S @d '
     '"td" type T implements I & J @d(x: [1, {k: 2}]) { "fd" f("ad" x: [Int!]! = [1] @d, y: N = {x: 1}): [Int!]! @d g: Int } '
     'extend type T implements K @d { h: Int } extend type T @d '
     '"id" interface I @d { f(x: Int): Int } extend interface I @d { g: Int } extend interface I @d '
     '"ud" union U @d = T | V extend union U @d = W extend union U @d '
     '"ed" enum E @d { "vd" A @d B } extend enum E @d { C } extend enum E @d '
     '"nd" input N @d { "xd" x: Int = 1 @d y: [N!] = [{x: 1}] z: Boolean = true w: E = A u: Float = 1.5 t: String = "s" r: Int = null } '
     'extend input N @d { v: Int } extend input N @d '
     '"dd" directive @d("ad" x: Int = 1 @e, y: [N]) on FIELD | QUERY', {"allow_type_system": True}),
]


def _probe_documents():
    from py_gql.lang import parse
    out = []
    for _, text, kw in WITNESSES:
        out.append((text, {k: v for k, v in kw.items() if k != "no_location"}))
    out += CHILD_KIND_PROBES
    fx = VISITOR.parents[3] / "tests" / "fixtures"
    for name, kw in (("kitchen-sink.graphql", {}), ("schema-kitchen-sink.graphql", {"allow_type_system": True})):
        f = fx / name
        if f.exists():
            out.append((f.read_text(), kw))
    return [parse(text, **kw) for text, kw in out]


def _node_children(n):
    """(attr, [child nodes]) of every attribute holding nodes, in `__slots__` order"""
    import py_gql.lang.ast as A
    for a in type(n).__slots__:
        if a in ("source", "loc"):
            continue
        v = getattr(n, a, None)
        if isinstance(v, A.Node):
            yield a, [v]
        elif isinstance(v, list) and v and all(isinstance(x, A.Node) for x in v):
            yield a, v


def child_kinds_table(slots):
    """[((kind, attr), [concrete child classes])]: the classes the annotations of ast.py admit at that attribute (abstract
       bases expanded) UNION the classes the real parser produces there on the probe documents. Side check: in every probe
       document the non-Name children of a node, read in `__slots__` order, are in SOURCE order (`loc`), which is what the
       specification `Spec.events` and the sibling-order theorems mean by `attribute order`."""
    import inspect
    import typing
    import py_gql.lang.ast as A
    classes = node_classes()
    sub = subclass_table()
    ck = {}

    def mentions(t, acc):
        if inspect.isclass(t) and issubclass(t, A.Node):
            acc.add(t.__name__)
        for a in typing.get_args(t):
            mentions(a, acc)
        return acc

    for kind, attrs in slots:
        try:
            hints = typing.get_type_hints(classes[kind].__init__)
        except Exception:  # noqa
            hints = {}
        for a in attrs:
            if a != "loc" and a in hints:
                conc = set()
                for c in mentions(hints[a], set()):
                    conc |= sub.get(c, set())
                if conc:
                    ck.setdefault((kind, a), set()).update(conc)

    def go(n):
        last = -1
        for a, cs in _node_children(n):
            for c in cs:
                ck.setdefault((type(n).__name__, a), set()).add(type(c).__name__)
                if type(c).__name__ != "Name":
                    start = c.loc[0] if c.loc else None
                    if start is not None:
                        if start < last:
                            raise Shape("%s.%s: a child starts at %d before a child of an earlier slot (%d): `__slots__` order "
                                        "is not the source order" % (type(n).__name__, a, start, last))
                        last = start
                go(c)
    for doc in _probe_documents():
        go(doc)
    return sorted((k, sorted(v)) for k, v in ck.items())


def ill_kinded(node, child_kinds):
    """the (kind, attr, child kind) triples of `node` outside the child-kind table (hypothesis `WellKinded`)"""
    ck = child_kinds if isinstance(child_kinds, dict) else {tuple(k): set(v) for k, v in child_kinds}
    bad = []
    stack = [node]
    while stack:
        n = stack.pop()
        for a, cs in _node_children(n):
            for c in cs:
                if type(c).__name__ not in ck.get((type(n).__name__, a), ()):
                    bad.append((type(n).__name__, a, type(c).__name__))
                stack.append(c)
    return bad


def _get_table():
    """static extraction; DYNAMIC fallback (observed by running the real visitor) when a shape is not recognised"""
    import os
    try:
        if os.environ.get("C18_FORCE_DYNAMIC"):
            raise Shape("forced by C18_FORCE_DYNAMIC (self-test of the fallback)")
        t = extract_table()
        t["mode"], t["reason"] = "static", ""
        return t
    except Shape as e:
        from corr import C18_dynamic
        return C18_dynamic.dynamic_table(slots_table(), reason="Shape: %s" % e)


def snake(kind):
    return re.sub(r"(?<!^)(?=[A-Z])", "_", kind).lower()


# ---------------------------------------------------------------------------------------------------
# Lean emission

WITNESSES = [
    ("witnessExec", "query Q($v: [Int!] = 1 @d, $u: Int!) { ... on T { a } } fragment F($w: Int) on T { a }",
     {"experimental_fragment_variables": True}),
    ("witnessSdl", 'schema @d { query: Q }\n"sd" scalar S\n"td" type T { "fd" f("ad" x: Int = 1): Int }\n"id" interface I { f: Int }\n'
                   '"ud" union U = T\n"ed" enum E { "vd" A }\n"nd" input N { "xd" x: Int }\n"dd" directive @d on FIELD',
     {"allow_type_system": True}),
    ("witnessSmall", "{ a(x: 1) @d b { c } }", {}),
    ("witnessDup", "{ id name id friends { id } id }", {"no_location": True}),
]


def witness_term(text, kw):
    import json
    from py_gql.lang import parse
    import py_gql.lang.ast as A
    counter = [0]

    def go(n):
        i = counter[0]
        counter[0] += 1
        attrs = []
        for a in type(n).__slots__:
            if a in ("source", "loc"):
                continue
            v = getattr(n, a, None)
            if isinstance(v, A.Node):
                attrs.append('("%s", .one (some (%s)))' % (a, go(v)))
            elif v is None:
                attrs.append('("%s", .one none)' % a)
            elif isinstance(v, list) and all(isinstance(x, A.Node) for x in v):
                attrs.append('("%s", .many [%s])' % (a, ", ".join(go(x) for x in v)))
            else:
                attrs.append('("%s", .scalar %s)' % (a, json.dumps(json.dumps(v))))
        return '.mk "%s" %d [%s]' % (type(n).__name__, i, ", ".join(attrs))
    return go(parse(text, **kw))

def _s(x):
    return '"%s"' % x


def _lst(xs):
    return "[" + ", ".join(xs) + "]"


def to_lean(t):
    disp_names = {d for d, _, _ in t["dispatchers"]}

    def target(x):
        return ("(.disp %s)" if x in disp_names else "(.method %s)") % _s(x)

    mode = t.get("mode", "static")
    L = ["/- GENERATED on every run by harness/corr/C18_table.py from src/py_gql/lang/visitor.py and src/py_gql/lang/ast.py",
         "   (+ witness documents parsed by src/py_gql/lang/parser.py).",
         "   Do not edit: the check rewrites this file from /repo's working tree."] + ([
         "   EXTRACTION MODE: dynamic (the static extractor did not recognise a shape; table observed by running the real visitor on one maximal instance per node class)."] if mode == "dynamic" else []) + [
         "-/", "",
         "import PyGqlModel.Visit", "namespace PyGql.Generated.VisitTable", "open PyGql.Visit", ""]
    L.append("/-- `__slots__` (field order, `source` dropped) of every concrete node class of `lang/ast.py` -/")
    L.append("def slots : List (String × List String) := [")
    L.append(",\n".join("  (%s, %s)" % (_s(k), _lst(_s(a) for a in attrs)) for k, attrs in t["slots"]))
    L.append("]\n")
    L.append("/-- registry of `ASTVisitor.visit`: node kind ↦ `_visit_*` method -/")
    L.append("def visitDispatch : List (String × String) := [")
    L.append(",\n".join("  (%s, %s)" % (_s(k), _s(m)) for k, m in t["visit"]))
    L.append("]\n")
    L.append("/-- undecorated `_visit_*` dispatchers: (name, registry kind ↦ method, default method) -/")
    L.append("def dispatchers : List (String × Dispatcher) := [")
    L.append(",\n".join("  (%s, { registry := %s, dflt := %s })" % (
        _s(d), _lst("(%s, %s)" % (_s(k), _s(m)) for k, m in reg), ("some " + _s(dflt)) if dflt else "none")
        for d, reg, dflt in t["dispatchers"]))
    L.append("]\n")
    L.append("/-- body of every `@_visit_method`: the ORDERED child traversal steps -/")
    L.append("def methods : List (String × List Step) := [")
    rows = []
    for m, steps in t["methods"]:
        ss = []
        for s in steps:
            ss.append("{ kinds := %s, attr := %s, shape := .%s, guard := .%s, assign := %s, target := %s }" % (
                ("some " + _lst(_s(k) for k in s["kinds"])) if s["kinds"] is not None else "none", _s(s["attr"]),
                "many" if s["shape"] == "list" else "one", s["guard"], "true" if s["assign"] else "false", target(s["target"])))
        rows.append("  (%s, [%s])" % (_s(m), ("\n    " if ss else "") + ",\n    ".join(ss)))
    L.append(",\n".join(rows))
    L.append("]\n")
    for nm, key in (("enterRegistry", "enter_registry"), ("leaveRegistry", "leave_registry")):
        L.append("/-- registry of `DispatchingVisitor.%s` (every default handler is a no-op: checked by the extractor) -/" % key.split("_")[0])
        L.append("def %s : List (String × String) := [" % nm)
        L.append(",\n".join("  (%s, %s)" % (_s(k), _s(m)) for k, m in t[key]))
        L.append("]\n")
    L.append("/-- the wrapper runs the method of the class of the node RETURNED by `enter` when that class differs from the")
    L.append("    argument's (observed on the real code by `probe_cross_kind`; true with proposed fix C18-W7) -/")
    L.append("def crossKind : Bool := %s" % ("true" if t.get("cross_kind") else "false"))
    L.append("")
    L.append("/-- `ChainedVisitor`: a member's SkipNode is the raiser's own (observed by `probe_chain_skip`; true with proposed fix C18-W8) -/")
    L.append("def chainPersonalSkip : Bool := %s" % ("true" if t.get("chain_personal_skip") else "false"))
    L.append("")
    L.append("def table : Table := { methods := methods, visit := visitDispatch, dispatchers := dispatchers, slots := slots, crossKind := crossKind }")
    L.append("")
    L.append("/-- (kind, attribute) ↦ the concrete node classes that occur there: annotations of `lang/ast.py` (abstract bases expanded)")
    L.append("    ∪ what the real parser produces on the probe documents of C18_table.py (hypothesis `WellKinded` of Props/C18_reach.lean) -/")
    L.append("def childKinds : List ((String × String) × List String) := [")
    L.append(",\n".join("  ((%s, %s), %s)" % (_s(k[0]), _s(k[1]), _lst(_s(x) for x in v)) for k, v in t.get("child_kinds", [])))
    L.append("]\n")
    L.append("/-! witness documents, parsed by the real parser on this run (attribute `loc` dropped, ids = pre-order numbers) -/")
    for name, text, kw in WITNESSES:
        L.append("/-- `%s` -/" % text.replace("\n", " "))
        L.append("def %s : Node :=\n  %s" % (name, witness_term(text, kw)))
        L.append("")
    L.append("")
    L.append("end PyGql.Generated.VisitTable")
    return "\n".join(L) + "\n"

# -*- coding: utf-8 -*-
"""C03 — aggregated from corr/C03_*.py (see each part)."""
from corr import _parts

_parts.install("C03", globals())

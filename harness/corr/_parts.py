# -*- coding: utf-8 -*-
"""
Aggregator for properties whose check is split in parts (`corr/Cxx_<part>.py`).
Each part has the same API as a whole module (extract / run / replay, RULE, TRUSTED, ASSUMPTIONS).
"""
import importlib
import pkgutil
import os


def parts_of(prop):
    here = os.path.dirname(os.path.abspath(__file__))
    names = sorted(m.name for m in pkgutil.iter_modules([here]) if m.name.startswith(prop + "_"))
    return [importlib.import_module("corr." + n) for n in names]


def install(prop, g):
    mods = parts_of(prop)
    g["PROPERTY"] = prop
    g["RULE"] = " || ".join("%s: %s" % (m.__name__.split(".")[-1], getattr(m, "RULE", "")) for m in mods)
    g["TRUSTED"] = [t for m in mods for t in getattr(m, "TRUSTED", [])]
    g["ASSUMPTIONS"] = [t for m in mods for t in getattr(m, "ASSUMPTIONS", [])]

    def extract(ctx):
        out = {}
        for m in mods:
            if hasattr(m, "extract"):
                out.update(m.extract(ctx) or {})
        return out

    def run(ctx):
        if not mods:
            raise RuntimeError("no parts for " + prop)
        share = ctx.deadline - ctx.t0
        import time
        for i, m in enumerate(mods):
            if hasattr(m, "run") and getattr(m, "PART_OF_RUN", True):
                # give each part an equal share of what is left
                saved = ctx.deadline
                ctx.deadline = min(saved, time.time() + max(5.0, (saved - time.time()) / (len(mods) - i)))
                try:
                    m.run(ctx)
                finally:
                    ctx.deadline = saved

    def replay(ctx, data):
        part = (data.get("input") or {}).get("part")
        for m in mods:
            if hasattr(m, "replay") and (part is None or m.__name__.endswith(part)):
                if not m.replay(ctx, data):
                    return False
        return True

    g["extract"], g["run"], g["replay"] = extract, run, replay

# -*- coding: utf-8 -*-
"""
C07 — resolvers only receive arguments that conform to the declared input types.

* extract(): `MIN_INT`, `MAX_INT` and the range test of `coerce_int` (constants AND comparison
  operators) and the literal kinds each specified scalar's `parse_literal` admits are re-read from
  src/py_gql/schema/scalars.py into Generated/Scalars.lean on every run.
* run(): (1) DIRECT ORACLE on real `graphql_blocking` runs with a recording resolver: observed kwargs
  conform (`Conforms` evaluated in Python), stated must-reject classes never reach the resolver, valid
  natural-kind inputs (full Int range, defaults, single values) are accepted, literal route == variable
  route, omitted stays omitted; (2) CORRESPONDENCE of `coerce_value`, `value_from_ast`,
  `coerce_variable_values` + `coerce_argument_values` with the Lean model (driver `drv_C07`).
"""
import ast
import json
import sys
import time

from common import REPO
from corr import C07_universe as U
from corr.C07_universe import N, L, NN, ty_str, ty_json, nullable

PROPERTY = "C07"
RULE = ("cases: every type expression with <=3 wrappers over the 5 specified scalars, a custom scalar, enums with internal "
        "values != names and (mutually) recursive input objects with defaults and python names, in a hand-written and in seeded "
        "random registries, x JSON values of the natural kind and structurally wrong ones x {provided, omitted, explicit null} x "
        "{inline literal, variable, variable with default, nullable variable with default at a non-null position, variable nested "
        "in a list/object literal}; plus HISTORIES: a schema that has been used, then derived (visibility transform hiding input fields / types, "
        "camel-case transform, `fields` setter, clone; one or two steps), checked against the derived schema's own declaration with the source's values "
        "in the stream, then the source again — including NEUTRAL derivations (unrelated extend_schema, clone, identity visibility transform), "
        "extend enum / extend input, with enums whose internal values are falsy (0, False, \"\") and non-identity custom scalars: the same requests "
        "must hand the resolvers the source's internal values; a DETERMINISTIC probe (own fixed PRNG) applies every derivation kind once to the fixed source "
        "WITHOUT declared enum defaults and compares enum internal values and the python names of kept / camel-renamed input fields and arguments; plus TREES: nested selections over an interface with two implementations that give the field "
        "different argument sets/defaults, lists of objects, resolver errors, arguments rejected at depth 2-5; non-trivial = distinct (registry, argument type, default, route, value) whose value is not a "
        "bare scalar-at-scalar success (i.e. involves null, a wrapper, an enum, an input object, a boundary or a rejection)")
ASSUMPTIONS = [
    "histories: the Lean model is stateless (a registry = what a schema DECLARES, by name); that a derived schema's coercion uses exactly what the "
    "derived schema declares is tied by the history stream only (object identity / memoisation belongs to C14's heap model). A derivation that leaves "
    "a declared default stale (a default dict naming a field the derived schema hides) violates the premise RegOK and is skipped, counted under "
    "input_distribution 'history:premise-fails'",
    "the statement presupposes what the theorems take as CHECKED hypotheses (RegOK / ArgsOK): enum internal values are not None and python names "
    "are distinct within one input object / argument list; the model follows the code's behaviour on colliding python names (stream "
    "`collision`, correspondence only) and Props/C07_examples.lean has the witnesses that neither hypothesis can be dropped",
    "non-finite floats (json.loads accepts Infinity/NaN), integers far beyond a double (10**400, 2**1024) and containers nested thousands deep ARE "
    "generated: they must be accepted or rejected, never raise (fixes A6, A7; theorems builtin_scalars_never_raise / coerce_value_never_raises / "
    "variables_never_raise); integers of more than ~4300 digits are outside (Python refuses to convert them to/from text, so json.loads cannot "
    "produce them); values nested deeper than ~200 levels are checked by the direct oracle only, not against the model (Python's recursion limit is "
    "environmental; the model's counterpart is its fuel); IntValue texts are canonical decimal (no `-0`)",
    "'structurally wrong' = array/object where a specified scalar is expected, non-string where an enum is expected, non-object where an input "
    "object is expected, AND a JSON scalar of the wrong kind for a built-in scalar (boolean / string / float for Int, number for String, …): the "
    "library accepts many of the latter through variables (Int from numeric string / integral float / bool, String and ID from numbers, Boolean by "
    "truthiness, Float from numeric string / bool) while rejecting them inline - KNOWN FINDING A8, pinned by tests/test_utilities/"
    "test_coerce_value.py; modelled faithfully (int_accepts_iff / float_accepts_iff), reported as cross-kind-scalar-accepted:* / "
    "inline-vs-variable-differs:*; Python `bool` is an `int`",
    "a variable inside a structured literal at the stand-in scalar stands for its value and for None when absent (fix C06-H7, extracted as "
    "standInLiteralSeesVariables); that is not known finding A9 (no declared field whose default could apply) and, since the variable's number stays "
    "a number while an inline number is kept as text, it falls under A10; "
    "value_from_ast hands a custom scalar that has its OWN parse_literal every kind of literal (guard re-extracted: scalarLiteralGuard_spec); the "
    "stand-in scalar of build_schema (default_scalar) converts literals with _untyped_literal (numbers keep their SOURCE TEXT): inline `1` gives '1', "
    "a variable 1 gives 1 - inline != variable for it whenever a number occurs. This was and is recorded as the hypothesis CustomAgree of "
    "literal_variable_equiv with the machine-checked witness `not CustomAgree (Reg.ofTypes [Any])` (Props/C07_examples.lean), not as a finding: the "
    "oracle claims equivalence for identity custom scalars on strings and booleans only; "
    "custom scalars are PARAMETERS of the model (`Reg.customParse` / `Reg.customParseLiteral`: arbitrary partial functions, nothing assumed): a value "
    "conforms iff the scalar's own parser produced it (`CustomOK`); `RegOK.customNotNone` (a parser never answers None to a non-null input) and, for "
    "literal/variable equivalence only, `CustomAgree` (the scalar's two parsers agree) are hypotheses about that user code, with witnesses that they "
    "cannot be dropped; default_scalar and two sample scalars (`Even`, `Tag`) are exercised by the correspondence",
    "nested variables inside list/object literals: validation (VariablesInAllowedPosition) has accepted the document",
]
TRUSTED = [
    "`CustomNeverRaises` (a custom scalar's parser raises only ValueError/TypeError) is a hypothesis of the never-raises theorems; "
    "the behaviour of a custom scalar's own parse/parse_literal is a parameter of the theorems; the sample scalars used by the correspondence are written "
    "twice (harness/corr/C07.py custom_scalar, lean/Driver/C07.lean sampleParse) and compared through the real ScalarType machinery",
    "extraction of the coerce_int range test and the _typed_coerce tables (Python ast -> Lean) in corr/C07.py; the finiteness guard of "
    "coerce_float is extracted as a 3-row table by evaluating the source's test expression on representatives of finite / inf / nan",
    "Python builtins int(str, 10), float(str) with correct rounding, float.is_integer, int(float) are MODELLED in Lean on ASCII lexemes "
    "(PyGqlModel/PyNum.lean) and compared with the real builtins by the `pynum` stream; strings at numeric positions are ASCII in the generators "
    "(Python also accepts non-ASCII digits and spaces: outside the lexeme model). Still taken from Python, never from Lean: repr(float) as the "
    "wire spelling of a JSON float, and float(int) / float(text) -> repr when RESULT floats are compared (floats never cross the wire as numbers)",
]

EXPLANATION_A7 = ("Until proposed_fixes/C07-A7.patch is committed the check FAILS on /repo: a variable value nested ~500+ levels through a recursive "
                  "input object (and the json.dumps of a deeply nested rejected value inside the error handler) raises RecursionError out of "
                  "graphql_blocking; signature non-coercion-exception:RecursionError:*. ")
EXPLANATION_HUNT = ("Hunt round: until proposed_fixes/C07-E1-enum-reverse-map.patch, C07-B1-int-bool.patch and the C06 owner's enter_list_value patch are "
                    "committed the check FAILS on /repo (enum-echo-differs:equal-internal-values; nonconforming-argument:Int-is-bool:* + "
                    "coerceInt_branches_spec; nonconforming-argument:not-a-list:variable-in-list-literal / inline-vs-variable-differs:"
                    "variable-in-list-literal). Known findings: A8 (cross-kind scalars), A9 (missing-variable-in-literal:*). ")
EXPLANATION = EXPLANATION_HUNT + ("Theorems (Props/C07*.lean) are about the model of the code WITH proposed_fixes/C07-A1-A5.patch; the unchanged tree falsifies "
               "int_full_range (A1), variable_sound/literal_variable_equiv (A2), arguments_sound (A3), rejects_structurally_wrong_json (A4) and "
               "rejects_unknown_field on the literal route (A5) and the direct oracle reports a replay for each. Observed, not C07: an object literal at a "
               "custom-scalar argument makes graphql_blocking raise AttributeError (ScalarType.parse_literal reads node.value) - counted under "
               "input_distribution 'pipeline-internal:*'.")

SCALARS_PY = REPO / "src/py_gql/schema/scalars.py"
FUEL = 400


# =========================================================================== extraction

class Untranslatable(Exception):
    pass


_CMP = {ast.Lt: "<", ast.LtE: "≤", ast.Gt: ">", ast.GtE: "≥", ast.Eq: "==", ast.NotEq: "!="}


def _tr_term(e, consts, var):
    if isinstance(e, ast.Name):
        if e.id == var:
            return "numeric"
        if e.id in consts:
            return e.id
        raise Untranslatable("unknown name %s in the range test" % e.id)
    if isinstance(e, ast.Constant) and isinstance(e.value, int) and not isinstance(e.value, bool):
        return "(%d : Int)" % e.value
    if isinstance(e, ast.UnaryOp) and isinstance(e.op, ast.USub):
        return "(-%s)" % _tr_term(e.operand, consts, var)
    if isinstance(e, ast.BinOp) and isinstance(e.op, (ast.Add, ast.Sub)):
        return "(%s %s %s)" % (_tr_term(e.left, consts, var), "+" if isinstance(e.op, ast.Add) else "-", _tr_term(e.right, consts, var))
    raise Untranslatable("term " + ast.dump(e))


def _tr_bool(e, consts, var):
    if isinstance(e, ast.BoolOp):
        op = " && " if isinstance(e.op, ast.And) else " || "
        return "(" + op.join(_tr_bool(v, consts, var) for v in e.values) + ")"
    if isinstance(e, ast.UnaryOp) and isinstance(e.op, ast.Not):
        return "(!" + _tr_bool(e.operand, consts, var) + ")"
    if isinstance(e, ast.Compare):
        parts = []
        left = e.left
        for op, right in zip(e.ops, e.comparators):
            if type(op) not in _CMP:
                raise Untranslatable("comparison " + type(op).__name__)
            a, b = _tr_term(left, consts, var), _tr_term(right, consts, var)
            sym = _CMP[type(op)]
            parts.append("(%s %s %s)" % (a, sym, b) if sym in ("==", "!=") else "decide (%s %s %s)" % (a, sym, b))
            left = right
        return "(" + " && ".join(parts) + ")"
    if isinstance(e, ast.Constant) and isinstance(e.value, bool):
        return "true" if e.value else "false"
    raise Untranslatable("expression " + ast.dump(e))


def int_range_test():
    """(consts, lean expression of `numeric is accepted`, python source of the test)"""
    src = SCALARS_PY.read_text()
    tree = ast.parse(src)
    consts = {}
    fn = None
    for n in tree.body:
        if isinstance(n, ast.Assign) and len(n.targets) == 1 and isinstance(n.targets[0], ast.Name) and n.targets[0].id in ("MAX_INT", "MIN_INT"):
            try:
                consts[n.targets[0].id] = int(ast.literal_eval(n.value))
            except Exception:
                v = eval(compile(ast.Expression(n.value), "<const>", "eval"), {"__builtins__": {}}, dict(consts))  # noqa: S307 (arithmetic on literals)
                consts[n.targets[0].id] = int(v)
        if isinstance(n, ast.FunctionDef) and n.name == "coerce_int":
            fn = n
    if fn is None or set(consts) != {"MAX_INT", "MIN_INT"}:
        raise Untranslatable("coerce_int / MAX_INT / MIN_INT not found in scalars.py")
    # the range test: the last `if <test>: raise ...` before `return numeric`
    if not (isinstance(fn.body[-1], ast.Return) and isinstance(fn.body[-1].value, ast.Name)):
        raise Untranslatable("coerce_int does not end in `return <name>`")
    var = fn.body[-1].value.id
    guard = fn.body[-2]
    if not (isinstance(guard, ast.If) and len(guard.body) == 1 and isinstance(guard.body[0], ast.Raise) and not guard.orelse):
        raise Untranslatable("statement before the return of coerce_int is not `if <test>: raise`")
    accepted = "(!%s)" % _tr_bool(guard.test, consts, var)
    return consts, accepted, ast.get_source_segment(src, guard.test)


_NODE_KINDS = {"IntValue": "int", "FloatValue": "float", "StringValue": "str", "BooleanValue": "bool"}


def literal_kind_table():
    """{scalar name: [literal kinds admitted by its parse_literal]} from the `_typed_coerce(...)` assignments."""
    tree = ast.parse(SCALARS_PY.read_text())
    typed = {}
    for n in tree.body:
        if (isinstance(n, ast.Assign) and isinstance(n.value, ast.Call) and isinstance(n.value.func, ast.Name)
                and n.value.func.id == "_typed_coerce"):
            kinds = []
            for a in n.value.args[1:]:
                if not (isinstance(a, ast.Attribute) and a.attr in _NODE_KINDS):
                    raise Untranslatable("_typed_coerce node class " + ast.dump(a))
                kinds.append(_NODE_KINDS[a.attr])
            typed[n.targets[0].id] = kinds
    table = {}
    for n in tree.body:
        if isinstance(n, ast.Assign) and isinstance(n.value, ast.Call) and isinstance(n.value.func, ast.Name) and n.value.func.id == "ScalarType":
            call = n.value
            if not (call.args and isinstance(call.args[0], ast.Constant)):
                continue
            name = call.args[0].value
            for kw in call.keywords:
                if kw.arg == "parse_literal":
                    if not (isinstance(kw.value, ast.Name) and kw.value.id in typed):
                        raise Untranslatable("parse_literal of %s is not a _typed_coerce(...) helper" % name)
                    table[name] = typed[kw.value.id]
    for s in ("Int", "Float", "String", "Boolean", "ID"):
        if s not in table:
            raise Untranslatable("no parse_literal table for " + s)
    return table


def float_guard():
    """Which classes of `numeric = float(maybe_float)` make `coerce_float` raise: the `if <test>: raise` statements
    of coerce_float whose test only mentions the converted value are evaluated on representatives of each class.
    -> ({"finite": bool, "inf": bool, "nan": bool}, [source of the tests])"""
    src = SCALARS_PY.read_text()
    tree = ast.parse(src)
    fn = next((n for n in tree.body if isinstance(n, ast.FunctionDef) and n.name == "coerce_float"), None)
    if fn is None:
        raise Untranslatable("coerce_float not found in scalars.py")
    param = fn.args.args[0].arg
    var = None
    for n in ast.walk(fn):
        if (isinstance(n, ast.Assign) and len(n.targets) == 1 and isinstance(n.targets[0], ast.Name) and isinstance(n.value, ast.Call)
                and isinstance(n.value.func, ast.Name) and n.value.func.id == "float"):
            var = n.targets[0].id
    guards = []
    if var is not None:
        for st in fn.body:
            if isinstance(st, ast.If) and st.body and isinstance(st.body[0], ast.Raise) and not st.orelse:
                names = {x.id for x in ast.walk(st.test) if isinstance(x, ast.Name)}
                if var in names and param not in names:
                    if not names <= {var, "float", "math", "abs"}:
                        raise Untranslatable("finiteness guard of coerce_float mentions %s" % sorted(names))
                    guards.append(st.test)
    import math as _math
    reps = {"finite": [0.0, -0.0, 1.5, -2.25, 1e308, -1e308, 5e-324], "inf": [float("inf"), float("-inf")], "nan": [float("nan")]}
    out = {}
    for cls, vals in reps.items():
        verdicts = set()
        for v in vals:
            env = {"__builtins__": {}, "float": float, "math": _math, "abs": abs, var or "_": v}
            verdicts.add(any(bool(eval(compile(ast.Expression(g), "<guard>", "eval"), env)) for g in guards))  # noqa: S307
        if len(verdicts) != 1:
            raise Untranslatable("finiteness guard of coerce_float does not treat the class %s uniformly" % cls)
        out[cls] = verdicts.pop()
    return out, [ast.get_source_segment(src, g) for g in guards]


def dispatch_table(fn_name):
    """the top-level `if/elif` chain of coerce_int: [(test, what the branch does)] in source order"""
    tree = ast.parse(SCALARS_PY.read_text())
    fn = next((n for n in tree.body if isinstance(n, ast.FunctionDef) and n.name == fn_name), None)
    if fn is None:
        raise Untranslatable(fn_name + " not found")
    param = fn.args.args[0].arg
    chain = next((st for st in fn.body if isinstance(st, ast.If) and isinstance(st.test, ast.Call)), None)
    if chain is None:
        raise Untranslatable("no isinstance chain in " + fn_name)
    rows = []

    def test_name(t):
        if isinstance(t, ast.Call) and getattr(t.func, "id", None) == "isinstance" and isinstance(t.args[1], ast.Name):
            return t.args[1].id
        if isinstance(t, ast.Compare) and isinstance(t.ops[0], ast.Is) and isinstance(t.comparators[0], ast.Constant) and t.comparators[0].value is None:
            return "None"
        raise Untranslatable("test " + ast.dump(t))

    def action(body):
        if len(body) == 1 and isinstance(body[0], ast.Raise):
            return "raise"
        first = body[0]
        if isinstance(first, ast.Assign) and isinstance(first.value, ast.Name) and first.value.id == param:
            return "identity"
        if (len(body) == 1 and isinstance(first, ast.Assign) and isinstance(first.value, ast.Call) and getattr(first.value.func, "id", None) == "int"
                and len(first.value.args) == 1 and isinstance(first.value.args[0], ast.Name) and first.value.args[0].id == param):
            return "int()"                       # numeric = int(x): a bool becomes the integer 1 / 0
        if (isinstance(first, ast.Try) and len(first.body) == 1 and isinstance(first.body[0], ast.Assign)
                and isinstance(first.body[0].value, ast.Call) and getattr(first.body[0].value.func, "id", None) == "int"
                and len(first.body[0].value.args) == 1
                and len(body) == 2 and isinstance(body[1], ast.If) and isinstance(body[1].body[0], ast.Raise)):
            # `try: numeric = int(x)  except (OverflowError, ValueError): raise ValueError(...)` then `if numeric != x: raise`
            caught = set()
            for h in first.handlers:
                if not (len(h.body) == 1 and isinstance(h.body[0], ast.Raise) and isinstance(h.body[0].exc, ast.Call)
                        and getattr(h.body[0].exc.func, "id", None) == "ValueError"):
                    raise Untranslatable("handler of the float branch of %s does not re-raise ValueError" % fn_name)
                ts = h.type.elts if isinstance(h.type, ast.Tuple) else [h.type]
                caught |= {getattr(t_, "id", "?") for t_ in ts}
            cmp_ = body[1].test
            if isinstance(cmp_, ast.Compare) and isinstance(cmp_.ops[0], ast.NotEq):
                return "int-if-equal" + ("-guarded" if {"OverflowError", "ValueError"} <= caught else "-partly-guarded(%s)" % ",".join(sorted(caught)))
        if (isinstance(first, ast.Assign) and isinstance(first.value, ast.Call) and getattr(first.value.func, "id", None) == "int"
                and len(body) == 2 and isinstance(body[1], ast.If) and isinstance(body[1].body[0], ast.Raise)):
            cmp_ = body[1].test
            if isinstance(cmp_, ast.Compare) and isinstance(cmp_.ops[0], ast.NotEq):
                return "int-if-equal"
        if any(isinstance(x, ast.Call) and getattr(x.func, "id", None) == "int" and len(x.args) == 2 for st in body for x in ast.walk(st)) \
                and any(isinstance(x, ast.Attribute) and x.attr == "is_integer" for st in body for x in ast.walk(st)):
            return "int10-else-integral-float"
        raise Untranslatable("branch body of %s: %s" % (fn_name, ast.dump(first)[:80]))
    node = chain
    while True:
        rows.append((test_name(node.test), action(node.body)))
        if len(node.orelse) == 1 and isinstance(node.orelse[0], ast.If):
            node = node.orelse[0]
        else:
            rows.append(("else", action(node.orelse) if node.orelse else "pass"))
            break
    return rows


def float_catches_overflow():
    """does the `try:` around `float(maybe_float)` in coerce_float turn OverflowError into ValueError?"""
    tree = ast.parse(SCALARS_PY.read_text())
    fn = next((n for n in tree.body if isinstance(n, ast.FunctionDef) and n.name == "coerce_float"), None)
    if fn is None:
        raise Untranslatable("coerce_float not found")
    for st in fn.body:
        if isinstance(st, ast.Try) and any(isinstance(x, ast.Call) and getattr(x.func, "id", None) == "float" for b in st.body for x in ast.walk(b)):
            for h in st.handlers:
                ts = h.type.elts if isinstance(h.type, ast.Tuple) else [h.type]
                if any(getattr(t_, "id", None) == "OverflowError" for t_ in ts) and len(h.body) == 1 and isinstance(h.body[0], ast.Raise) \
                        and isinstance(h.body[0].exc, ast.Call) and getattr(h.body[0].exc.func, "id", None) == "ValueError":
                    return True
            return False
    return False


VFA_PY = REPO / "src/py_gql/utilities/value_from_ast.py"


def scalar_literal_guard():
    """The test in front of `type_.parse_literal(node, variables)` in value_from_ast: which scalars are restricted to the four scalar
    literal kinds. -> True when a custom scalar with its OWN parse_literal is handed every literal kind
    (`not isinstance(node, (Int, Float, String, Boolean)) and (type_ in SPECIFIED_SCALAR_TYPES or type_._parse_literal is None)`),
    False when every scalar is restricted (`not isinstance(node, (...))` alone)."""
    src = VFA_PY.read_text()
    tree = ast.parse(src)
    fn = next((n for n in tree.body if isinstance(n, ast.FunctionDef) and n.name == "value_from_ast"), None)
    if fn is None:
        raise Untranslatable("value_from_ast not found")
    blk = next((st for st in fn.body if isinstance(st, ast.If) and isinstance(st.test, ast.Call) and getattr(st.test.func, "id", None) == "isinstance"
                and getattr(st.test.args[1], "id", None) == "ScalarType"), None)
    if blk is None or not isinstance(blk.body[0], ast.If) or not isinstance(blk.body[0].body[0], ast.Raise):
        raise Untranslatable("value_from_ast: no `if <guard>: raise InvalidValue` at the head of the ScalarType branch")
    test = blk.body[0].test

    def is_kind_test(t):
        if not (isinstance(t, ast.UnaryOp) and isinstance(t.op, ast.Not) and isinstance(t.operand, ast.Call)
                and getattr(t.operand.func, "id", None) == "isinstance" and isinstance(t.operand.args[1], ast.Tuple)):
            return False
        names = sorted(getattr(e, "attr", "?") for e in t.operand.args[1].elts)
        if names != ["BooleanValue", "FloatValue", "IntValue", "StringValue"]:
            raise Untranslatable("scalar literal kinds in value_from_ast are %s" % names)
        return True
    if is_kind_test(test):
        return False, ast.get_source_segment(src, test)
    if isinstance(test, ast.BoolOp) and isinstance(test.op, ast.And) and len(test.values) == 2 and is_kind_test(test.values[0]):
        alt = test.values[1]
        if isinstance(alt, ast.BoolOp) and isinstance(alt.op, ast.Or) and len(alt.values) == 2:
            a, b = alt.values
            ok_a = (isinstance(a, ast.Compare) and isinstance(a.ops[0], ast.In) and getattr(a.comparators[0], "id", None) == "SPECIFIED_SCALAR_TYPES")
            ok_b = (isinstance(b, ast.Compare) and isinstance(b.ops[0], ast.Is) and isinstance(b.left, ast.Attribute) and b.left.attr == "_parse_literal"
                    and isinstance(b.comparators[0], ast.Constant) and b.comparators[0].value is None)
            if ok_a and ok_b:
                return True, ast.get_source_segment(src, test)
    raise Untranslatable("value_from_ast: unrecognised guard before parse_literal: " + ast.get_source_segment(src, test)[:120])


def default_scalar_parse_guard():
    """What `default_scalar(...).parse` does with non-finite floats: the `parse=` keyword is read from the source (`_identity` /
    `_transparent` / ...) and the behaviour OBSERVED on the live function for representatives (top level, nested in lists and
    dicts, finite values). -> (rejects_non_finite: bool, name of the parse function)"""
    tree = ast.parse(SCALARS_PY.read_text())
    fn = next((n for n in tree.body if isinstance(n, ast.FunctionDef) and n.name == "default_scalar"), None)
    if fn is None:
        raise Untranslatable("default_scalar not found")
    call = next((x for x in ast.walk(fn) if isinstance(x, ast.Call) and getattr(x.func, "id", None) == "ScalarType"), None)
    kw = {k.arg: k.value for k in (call.keywords if call else [])}
    if "parse" not in kw or not isinstance(kw["parse"], ast.Name):
        raise Untranslatable("default_scalar: parse= is not a plain function name")
    from py_gql.schema.scalars import default_scalar
    parse = default_scalar("X")._parse

    def refused(v):
        try:
            parse(v)
            return False
        except (ValueError, TypeError):
            return True
    inf, nan = float("inf"), float("nan")
    non_finite = [inf, -inf, nan, [inf], [[nan]], {"a": -inf}, {"a": [1, {"b": nan}]}, [1.5, "x", inf]]
    finite = [1.5, 0.0, -1e308, [1.5], {"a": [2.5, None, "inf"]}, "nan", 5, None, True, []]
    verdicts = {refused(v) for v in non_finite}
    if len(verdicts) != 1 or any(refused(v) for v in finite):
        raise Untranslatable("default_scalar.parse does not treat non-finite floats uniformly / refuses a finite value")
    return verdicts.pop(), kw["parse"].id


def stand_in_literal_sees_variables():
    """Shape of `default_scalar`'s `parse_literal=`: `lambda node, _: _untyped_literal(node)` (the conversion does not see the variables:
    False) or `_untyped_literal` itself / a lambda passing both arguments on, with a `Variable` branch in `_untyped_literal` (True)."""
    tree = ast.parse(SCALARS_PY.read_text())
    fn = next((n for n in tree.body if isinstance(n, ast.FunctionDef) and n.name == "default_scalar"), None)
    ul = next((n for n in tree.body if isinstance(n, ast.FunctionDef) and n.name == "_untyped_literal"), None)
    if fn is None or ul is None:
        raise Untranslatable("default_scalar / _untyped_literal not found")
    call = next((x for x in ast.walk(fn) if isinstance(x, ast.Call) and getattr(x.func, "id", None) == "ScalarType"), None)
    kw = {k.arg: k.value for k in (call.keywords if call else [])}
    pl = kw.get("parse_literal")
    has_var_branch = any(isinstance(x, ast.Attribute) and x.attr == "Variable" for x in ast.walk(ul)) and len(ul.args.args) >= 2
    if isinstance(pl, ast.Name) and pl.id == "_untyped_literal":
        passes = len(ul.args.args) >= 2
    elif isinstance(pl, ast.Lambda) and isinstance(pl.body, ast.Call) and getattr(pl.body.func, "id", None) == "_untyped_literal":
        passes = len(pl.body.args) >= 2
    else:
        raise Untranslatable("default_scalar: parse_literal= is neither _untyped_literal nor a lambda around it")
    if passes != has_var_branch:
        raise Untranslatable("default_scalar: parse_literal passes the variables on (%s) but _untyped_literal %s a Variable branch" %
                             (passes, "has" if has_var_branch else "lacks"))
    return passes


def extract(ctx):
    consts, accepted, pysrc = int_range_test()
    ds_rejects, ds_fn = default_scalar_parse_guard()
    any_literal, guard_text = scalar_literal_guard()
    int_rows = dispatch_table("coerce_int")
    guard, guard_src = float_guard()
    table = literal_kind_table()
    lines = [
        "/- GENERATED on every run by harness/corr/C07.py from src/py_gql/schema/scalars.py.",
        "   Do not edit: the check rewrites this file from /repo's working tree. -/",
        "",
        "namespace PyGql.Generated.Scalars",
        "",
        "def MAX_INT : Int := %d" % consts["MAX_INT"],
        "def MIN_INT : Int := %d" % consts["MIN_INT"],
        "",
        "/-- `coerce_int` raises when `%s` holds; this is its negation: `numeric` is accepted. -/" % pysrc.replace("-/", "- /"),
        "def intInRange (numeric : Int) : Bool := %s" % accepted,
        "",
        "/-- `coerce_float` raises on `numeric = float(x)` when %s (evaluated on representatives" % (" or ".join("`%s`" % g.replace("-/", "- /") for g in guard_src) or "<no finiteness test in the source>"),
        "    of each class): finite values / the infinities / NaN. -/",
        "def floatRejectsFinite : Bool := %s" % ("true" if guard["finite"] else "false"),
        "def floatRejectsInf : Bool := %s" % ("true" if guard["inf"] else "false"),
        "def floatRejectsNaN : Bool := %s" % ("true" if guard["nan"] else "false"),
        "",
        "/-- the `if / elif` chain of `coerce_int`, in source order: (what is tested, what the branch does). `bool` is a subclass of",
        "    `int`, so a JSON boolean takes the first branch. -/",
        "def coerceIntBranches : List (String × String) := [%s]" % ", ".join('("%s", "%s")' % r for r in int_rows),
        "",
        "/-- `coerce_float`: the `try` around `float(x)` turns OverflowError (an int too large for a double) into ValueError -/",
        "def floatCatchesOverflow : Bool := %s" % ("true" if float_catches_overflow() else "false"),
        "",
        "/-- value_from_ast raises InvalidValue before `parse_literal` when `%s`:" % " ".join(guard_text.split()).replace("-/", "- /"),
        "    a custom scalar that brought its OWN parse_literal is handed every kind of literal (list / object / enum / null inside). -/",
        "def customOwnParseLiteralTakesAnyLiteral : Bool := %s" % ("true" if any_literal else "false"),
        "",
        "/-- `default_scalar(...)`: `parse=%s`; observed on the live function: NaN / +-Infinity, at the top level and nested in lists / dicts," % ds_fn,
        "    are refused (ValueError), finite values pass. -/",
        "def defaultScalarParseRejectsNonFinite : Bool := %s" % ("true" if ds_rejects else "false"),
        "",
        "/-- `default_scalar`'s `parse_literal` hands the variables on to `_untyped_literal`, which has a `Variable` branch (fix C06-H7) -/",
        "def standInLiteralSeesVariables : Bool := %s" % ("true" if stand_in_literal_sees_variables() else "false"),
        "",
        "/-- literal kinds admitted by each specified scalar's `parse_literal` (`_typed_coerce(f, *node classes)`) -/",
        "def literalKinds : List (String × List String) := [",
        ",\n".join('  ("%s", [%s])' % (s, ", ".join('"%s"' % k for k in table[s])) for s in ("Int", "Float", "String", "Boolean", "ID")),
        "]",
        "",
        "end PyGql.Generated.Scalars",
    ]
    return {"PyGqlModel/Generated/Scalars.lean": "\n".join(lines) + "\n"}


# =========================================================================== the real code

class World:
    """A py_gql schema built from a registry + one query field per argument spec, with a recording resolver."""

    def __init__(self, reg, specs, abstract=None):
        from py_gql.schema import (Argument, EnumType, Field, InputField, InputObjectType, ObjectType, Schema,
                                   String, Int, Float, Boolean, ID)
        from py_gql.schema.scalars import default_scalar
        self.reg = reg
        self.specs = specs
        self.seen = []
        self.types = {"Int": Int, "Float": Float, "String": String, "Boolean": Boolean, "ID": ID}
        for t in reg["types"]:
            if t["kind"] == "custom":
                self.types[t["name"]] = custom_scalar(t["name"], t.get("impl", "identity"))
            elif t["kind"] == "enum":
                self.types[t["name"]] = EnumType(t["name"], [(n, v) for n, v in t["values"]])
        for t in reg["types"]:
            if t["kind"] == "input":
                def mk(t=t):
                    out = []
                    for f in t["fields"]:
                        kw = {}
                        if f["default"] is not None:
                            kw["default_value"] = f["default"][0]
                        out.append(InputField(f["name"], self.ty_py(f["type"]), python_name=f["py"], **kw))
                    return out
                self.types[t["name"]] = InputObjectType(t["name"], mk)

        self.seen_calls = []

        def resolver(root, ctx, info, **kw):
            self.seen.append(kw)
            self.seen_calls.append((info.path[-1], kw))
            return "ok"

        def mkargs(spec):
            args = []
            for a in spec:
                kw = {}
                if a["default"] is not None:
                    kw["default_value"] = a["default"][0]
                args.append(Argument(a["name"], self.ty_py(a["type"]), python_name=a["py"], **kw))
            return args

        fields = []
        for i, spec in enumerate(specs):
            fields.append(Field("f%d" % i, String, args=mkargs(spec), resolver=resolver))

        # interface fields implemented by two object types with DIFFERENT argument sets / defaults
        from py_gql.schema import InterfaceType, ListType
        self.abstract = abstract or []
        self.seen_typed = []
        extra_types = []
        for k, (ispec, aspec, bspec) in enumerate(self.abstract):
            def typed(name):
                def r(root, ctx, info, **kw):
                    self.seen_typed.append((name, kw))
                    return name
                return r
            iface = InterfaceType("Node%d" % k, [Field("g", String, args=mkargs(ispec))])
            ta = ObjectType("ImplA%d" % k, [Field("g", String, args=mkargs(aspec), resolver=typed("A"))], interfaces=[iface])
            tb = ObjectType("ImplB%d" % k, [Field("g", String, args=mkargs(bspec), resolver=typed("B"))], interfaces=[iface])
            extra_types += [ta, tb]
            fields.append(Field("nodes%d" % k, ListType(iface),
                                resolver=lambda *_a, k=k, **_k: [{"__typename__": "ImplA%d" % k}, {"__typename__": "ImplB%d" % k},
                                                                  {"__typename__": "ImplA%d" % k}, {"__typename__": "ImplB%d" % k}]))
        self.schema = Schema(query_type=ObjectType("Query", fields), types=extra_types)
        self.schema.validate()

    def ty_py(self, t):
        from py_gql.schema import ListType, NonNullType
        if t[0] == "named":
            return self.types[t[1]]
        return (ListType if t[0] == "list" else NonNullType)(self.ty_py(t[1]))

    # ---- one request --------------------------------------------------------------------
    @staticmethod
    def doc_text(case):
        head = ""
        if case["vardefs"]:
            head = "query(" + ", ".join(
                "$%s: %s%s" % (n, ty_str(t), "" if d is None else " = " + U.render_lit(d)) for n, t, d in case["vardefs"]) + ") "
        args = ""
        if case["args"]:
            args = "(" + ", ".join("%s: %s" % (n, U.render_lit(l)) for n, l in case["args"]) + ")"
        return "%s{ f%d%s }" % (head, case["field"], args)

    def pipeline(self, case):
        """('called', kwargs wire) | ('rejected',) | ('internal', class) | ('nothing',)"""
        from py_gql import graphql_blocking
        self.seen[:] = []
        try:
            r = graphql_blocking(self.schema, self.doc_text(case), variables=dict(case["variables"]))
        except Exception as e:  # noqa
            return ("internal", type(e).__name__)
        if len(self.seen) == 1:
            return ("called", U.pv_canon(U.pv_wire(self.seen[0])))
        if self.seen:
            return ("internal", "resolver-called-%d-times" % len(self.seen))
        if r.errors:
            return ("rejected",)
        return ("nothing",)

    def direct(self, case):
        """coerce_variable_values + coerce_argument_values on the parsed document, without validation."""
        from py_gql.lang import parse
        from py_gql.exc import CoercionError, VariablesCoercionError
        from py_gql.utilities import coerce_argument_values, coerce_variable_values
        try:
            doc = parse(self.doc_text(case))
            op = doc.definitions[0]
            node = op.selection_set.selections[0]
            fdef = self.schema.query_type.field_map["f%d" % case["field"]]
            try:
                coerced = coerce_variable_values(self.schema, op, dict(case["variables"]))
            except VariablesCoercionError:
                return ("err", "variables")
            try:
                kw = coerce_argument_values(fdef, node, coerced)
            except CoercionError:
                return ("err", "arguments")
            return ("ok", U.pv_canon(U.pv_wire(kw)))
        except Exception as e:  # noqa
            return ("internal", type(e).__name__)

    @staticmethod
    def abstract_doc(case):
        head = ""
        if case["vardefs"]:
            head = "query(" + ", ".join(
                "$%s: %s%s" % (n, ty_str(t), "" if d is None else " = " + U.render_lit(d)) for n, t, d in case["vardefs"]) + ") "
        args = ""
        if case["args"]:
            args = "(" + ", ".join("%s: %s" % (n, U.render_lit(l)) for n, l in case["args"]) + ")"
        k = case["k"]
        if case["via"] == "fragment":
            return "%s{ nodes%d { ...F } } fragment F on Node%d { g%s }" % (head, k, k, args)
        if case["via"] == "inline":
            return "%s{ nodes%d { ... on Node%d { g%s } } }" % (head, k, k, args)
        return "%s{ nodes%d { g%s } }" % (head, k, args)

    def abstract_pipeline(self, case):
        """('called', [(typename, kwargs wire), ...]) | ('rejected',) | ('internal', cls)"""
        from py_gql import graphql_blocking
        self.seen_typed[:] = []
        try:
            r = graphql_blocking(self.schema, self.abstract_doc(case), variables=dict(case["variables"]))
        except Exception as e:  # noqa
            return ("internal", type(e).__name__)
        calls = [(n, U.pv_canon(U.pv_wire(kw))) for n, kw in self.seen_typed]
        if calls:
            return ("called", calls, len(r.errors or []))
        if r.errors:
            return ("rejected",)
        return ("nothing",)

    def coerce_value(self, t, j):
        from py_gql.exc import CoercionError, InvalidValue
        from py_gql.utilities import coerce_value
        try:
            return ("ok", U.pv_canon(U.pv_wire(coerce_value(j, self.ty_py(t)))))
        except (CoercionError, InvalidValue):
            return ("err",)
        except Exception as e:  # noqa
            return ("internal", type(e).__name__)

    def value_from_ast(self, t, lit, variables):
        from py_gql.exc import InvalidValue
        from py_gql.lang.parser import parse_value
        from py_gql.utilities import value_from_ast
        try:
            node = parse_value(U.render_lit(lit))
            return ("ok", U.pv_canon(U.pv_wire(value_from_ast(node, self.ty_py(t), variables))))
        except InvalidValue:
            return ("err",)
        except Exception as e:  # noqa
            return ("internal", type(e).__name__)


class SampleScalarBoom(KeyError):
    """what the sample scalar `Tag` deliberately raises (user code raising something else than ValueError / TypeError)"""


VAR_ROUTES = ("var", "vardef", "vardef-nullable", "var-nullable-locdefault", "var-looser-type", "nested-list", "nested-obj")


def custom_scalar(name, impl):
    """the sample custom scalars: user code with its own `parse` / `parse_literal` (mirrored in lean/Driver/C07.lean)"""
    from py_gql.lang import ast as _ast
    from py_gql.schema import ScalarType
    from py_gql.schema.scalars import default_scalar
    if impl == "identity":
        return default_scalar(name)

    def parse(v):
        out = U.custom_parse(impl, v)
        if out[0] == "value":
            return out[1]
        if out[0] == "refused":
            raise ValueError("%s refuses %r" % (name, v))
        raise SampleScalarBoom(name)             # not ValueError/TypeError: ScalarType.parse lets it through

    if impl == "pos":
        return ScalarType(name, serialize=lambda v: v, parse=parse)          # NO parse_literal: literals go through parse(node.value)

    def parse_literal(node, _variables):
        if impl == "even":
            if not isinstance(node, _ast.IntValue):
                raise TypeError("Invalid literal")
            return parse(int(node.value))
        if not isinstance(node, _ast.StringValue):
            raise TypeError("Invalid literal")
        return parse(node.value)
    return ScalarType(name, serialize=lambda v: v, parse=parse, parse_literal=parse_literal)


def arg(name, t, default=None, py=None):
    return {"name": name, "py": py or name, "type": t, "default": default}


def spec_wire(spec):
    return [{"name": a["name"], "py": a["py"], "type": ty_json(a["type"]),
             "default": None if a["default"] is None else {"v": U.pv_wire(a["default"][0])}} for a in spec]


def case_wire(case, spec):
    return {"op": "exec", "argdefs": spec_wire(spec),
            "vardefs": [{"name": n, "type": ty_json(t), "default": None if d is None else U.lit_wire(d)} for n, t, d in case["vardefs"]],
            "args": [[n, U.lit_wire(l)] for n, l in case["args"]],
            "variables": [[k, U.jv_wire(v)] for k, v in case["variables"]]}


def model_outcome(ans):
    if "ok" in ans:
        return ("ok", U.pv_from_model(ans["ok"]))
    e = ans.get("err")
    if e in ("variables", "arguments"):
        return ("err", e)
    if e == "coercion":
        return ("err",)
    return ("internal", str(e))


def same_outcome(a, b):
    """model vs implementation: an undocumented exception is compared by class `internal` only"""
    return a == b or (a[0] == "internal" and b[0] == "internal")


def ask_model(ctx, reg, items):
    if not items:
        return []
    out = []
    step = 4000
    for i in range(0, len(items), step):
        r = ctx.driver.ask([{"op": "batch", "fuel": FUEL, "reg": U.reg_wire(reg), "items": items[i:i + step]}])[0]
        if "r" not in r or len(r["r"]) != len(items[i:i + step]):
            raise RuntimeError("driver answered %r" % (str(r)[:300],))
        out += r["r"]
    return out


# =========================================================================== cases

def build_cases(reg, types, rng, per_type, depth, leaf_defaults_only=False):
    """-> (specs, groups). A group = one (spec, JSON value | OMIT) with its routes:
       {"spec": i, "ty", "j", "presence", "cases": {route: case}}"""
    specs = []
    groups = []
    for t in types:
        variants = [arg("x", t)]
        dv = U.default_for(reg, t, rng, 2)
        if dv is not U._NO and U.conforms(reg, t, dv) is None and not (leaf_defaults_only and U.reg_get(reg, U.ty_base(t))["kind"] == "input"):
            variants.append(arg("x", t, [dv], "x_py"))
        for a in variants:
            spec = [a]
            if rng.random() < 0.3:
                spec = [a, arg("y", N("Int"), [9], "y_py")] if rng.random() < 0.5 else [arg("y", L(N("E" if U.reg_get(reg, "E") else "Int")), None, "y_py"), a]
            specs.append(spec)
            groups += groups_for_arg(reg, len(specs) - 1, a, rng, per_type, depth)
    return specs, groups


def groups_for_arg(reg, si, a, rng, per_type, depth, value_regs=()):
    """the groups of one argument `a` of field `si`; `value_regs`: OTHER registries whose values are sent too
    (a schema's history: values that were fine for the schema this one was derived from)"""
    t = a["type"]
    nat = U.values_for(reg, t, rng, depth, wrong=False, cap=per_type)
    bad = U.values_for(reg, t, rng, depth, wrong=True, cap=per_type)
    for other in value_regs:
        if all(U.reg_get(other, n) is not None for n in [U.ty_base(t)]):
            try:
                extra = U.values_for(other, t, rng, depth, wrong=False, cap=per_type)
            except Exception:  # noqa
                extra = []
            bad = bad + [j for j in extra if well_typed_for(reg, j)]
    good = [j for j in nat if j is not None and U.must_accept(reg, t, j) and not U.has_boundary(j)]
    j0 = rng.choice(good) if good else None
    lit0 = U.ast_of_json(reg, t, j0) if j0 is not None else None
    out = [make_group(reg, si, a, t, j, lit0, j0) for j in nat + bad]
    out.append(make_group(reg, si, a, t, OMIT, lit0, j0))
    return out


def well_typed_for(reg, j):
    return True


OMIT = ("<omitted>",)


def loosen(t):
    """the same type expression with every non-null below the top dropped"""
    def strip_all(u):
        if u[0] == "nonNull":
            return strip_all(u[1])
        if u[0] == "list":
            return L(strip_all(u[1]))
        return u
    if t[0] == "nonNull":
        return NN(strip_all(t[1]))
    return strip_all(t)


def make_group(reg, si, a, t, j, lit0, j0):
    xn = a["name"]
    g = {"spec": si, "ty": t, "j": j, "j0": j0, "arg": a, "cases": {}}
    base = {"field": si}
    if j is OMIT:
        g["cases"]["lit"] = dict(base, vardefs=[], args=[], variables=[])
        g["cases"]["var"] = dict(base, vardefs=[("v", t, None)], args=[(xn, ("var", "v"))], variables=[])
        if lit0 is not None:
            g["cases"]["vardef"] = dict(base, vardefs=[("v", t, lit0)], args=[(xn, ("var", "v"))], variables=[])
            g["cases"]["lit0"] = dict(base, vardefs=[], args=[(xn, lit0)], variables=[])
            if t[0] == "nonNull":
                g["cases"]["vardef-nullable"] = dict(base, vardefs=[("v", nullable(t), lit0)], args=[(xn, ("var", "v"))], variables=[])
        return g
    lit = U.ast_of_json(reg, t, j)
    g["cases"]["lit"] = dict(base, vardefs=[], args=[(xn, lit)], variables=[])
    g["cases"]["var"] = dict(base, vardefs=[("v", t, None)], args=[(xn, ("var", "v"))], variables=[("v", j)])
    if lit0 is not None:
        g["cases"]["vardef"] = dict(base, vardefs=[("v", t, lit0)], args=[(xn, ("var", "v"))], variables=[("v", j)])
        if t[0] == "nonNull":
            g["cases"]["vardef-nullable"] = dict(base, vardefs=[("v", nullable(t), lit0)], args=[(xn, ("var", "v"))], variables=[("v", j)])
    if t[0] == "nonNull" and a["default"] is not None:
        # `$v: T` at a `T! = default` position is allowed by validation (location default)
        g["cases"]["var-nullable-locdefault"] = dict(base, vardefs=[("v", nullable(t), None)], args=[(xn, ("var", "v"))], variables=[("v", j)])
    # a variable of a LOOSER type (inner non-nulls dropped): the validator must refuse the usage; if it does not, the
    # resolver can receive None inside a list of non-null items (caught by the Conforms oracle)
    lo = loosen(t)
    if lo != t:
        g["cases"]["var-looser-type"] = dict(base, vardefs=[("v", lo, None)], args=[(xn, ("var", "v"))], variables=[("v", j)])
    # a variable nested inside a list / object literal
    u = nullable(t)
    if u[0] == "list":
        g["cases"]["nested-list"] = dict(base, vardefs=[("v", u[1], None)], args=[(xn, ("list", [("var", "v")]))], variables=[("v", j)])
        g["nested_ty"] = u[1]
    else:
        d = U.reg_get(reg, u[1])
        if d["kind"] == "input" and isinstance(j, dict) and j:
            k0 = next(iter(j))
            ft = {f["name"]: f["type"] for f in d["fields"]}
            if k0 in ft:
                rest = [(k, U.ast_of_json(reg, ft.get(k, N("String")), v)) for k, v in j.items() if k != k0]
                g["cases"]["nested-obj"] = dict(base, vardefs=[("v", ft[k0], None)], args=[(xn, ("obj", [(k0, ("var", "v"))] + rest))],
                                                variables=[("v", j[k0])])
    return g


# =========================================================================== oracle

def check_kwargs(reg, spec, kwargs):
    """`Conforms` on the kwargs a resolver saw (wire form -> python), for the whole argument list."""
    kw = dict_from_wire(kwargs)
    allowed = set()
    for a in spec:
        allowed.add(a["py"])
        if a["py"] in kw:
            r = U.conforms(reg, a["type"], kw[a["py"]])
            if r:
                return r
        elif a["default"] is not None:
            return "argument-default-not-filled"
        elif a["type"][0] == "nonNull":
            return "required-argument-absent"
    for k in kw:
        if k not in allowed:
            return "kwarg-not-a-python-name"
    return None


def dict_from_wire(w):
    def conv(x):
        if isinstance(x, list):
            return [conv(y) for y in x]
        if isinstance(x, dict):
            if "f" in x:
                return float(x["f"])
            if "d" in x:
                return {k: conv(v) for k, v in x["d"]}
            return x
        return x
    return conv(w)


def feature(reg, t, j):
    """minimal structural feature of a (type, value) used in signatures"""
    if j is OMIT:
        return "omitted"
    if j is None:
        return "null@" + shape(reg, t)
    return jkind(j) + "@" + shape(reg, t)


def shape(reg, t):
    if t[0] == "named":
        d = U.reg_get(reg, t[1])
        return d["kind"] if d["kind"] in ("enum", "input", "custom") else d["name"]
    return ("[%s]" % shape(reg, t[1])) if t[0] == "list" else shape(reg, t[1]) + "!"


def jkind(j):
    if j is None:
        return "null"
    if isinstance(j, bool):
        return "bool"
    if isinstance(j, int):
        return "int-boundary" if j in (U.MIN32, U.MAX32) else "int"
    if isinstance(j, float):
        return "float"
    if isinstance(j, str):
        return "str"
    if isinstance(j, list):
        return "list"
    return "object"


def shrink(reg, t, j, still_fails):
    """Greedy descent into (type, value) while `still_fails(t', j')` holds."""
    changed = True
    while changed:
        changed = False
        u = nullable(t)
        cands = []
        if t[0] == "nonNull" and j is not None:
            cands.append((t[1], j))
        if u[0] == "list":
            if isinstance(j, list):
                cands += [(u[1], x) for x in j]
                if len(j) > 1:
                    cands += [(t, [x]) for x in j]
            elif j is not None:
                cands.append((u[1], j))
        elif isinstance(j, dict):
            d = U.reg_get(reg, u[1])
            if d and d["kind"] == "input":
                ft = {f["name"]: f["type"] for f in d["fields"]}
                cands += [(ft[k], v) for k, v in j.items() if k in ft]
                for k in j:
                    cands.append((t, {kk: vv for kk, vv in j.items() if kk != k}))
        for (t2, j2) in cands:
            try:
                if still_fails(t2, j2):
                    t, j, changed = t2, j2, True
                    break
            except Exception:  # noqa
                pass
    return t, j


def obj_feature(reg, t, j):
    """for an accepted-must-be case on an input object: which stated feature is involved"""
    u = nullable(t)
    if u[0] == "named" and isinstance(j, dict):
        d = U.reg_get(reg, u[1])
        if d and d["kind"] == "input":
            for f in d["fields"]:
                if f["name"] not in j and f["default"] is not None:
                    return "defaulted-field-omitted" + ("-nonnull" if f["type"][0] == "nonNull" else "")
    return feature(reg, t, j)


class Checker:
    def __init__(self, ctx, reg, reg_id):
        self.ctx = ctx
        self.reg = reg
        self.reg_id = reg_id

    def detail(self, world, spec, g, route, extra=None):
        d = {"reg": U.reg_to_jsonable(self.reg), "spec": spec_wire(spec), "route": route, "field_index": g["spec"],
             "type": ty_str(g["ty"]), "value": "<omitted>" if g["j"] is OMIT else json.dumps(g["j"]),
             "document": world.doc_text(g["cases"][route]), "variables": json.dumps(dict(g["cases"][route]["variables"])),
             "group": group_jsonable(g)}
        if extra:
            d.update(extra)
        return d

    def check_group(self, world, spec, g, outcomes):
        """the statement, on the observed outcomes of one group"""
        ctx, reg = self.ctx, self.reg
        t, j, a = g["ty"], g["j"], g["arg"]
        provided = j is not OMIT
        for route, out in outcomes.items():
            if out[0] == "called":
                # (O1) what the resolver received conforms
                r = check_kwargs(reg, spec, out[1])
                if r:
                    ctx.fail("nonconforming-argument:%s:%s" % (r, route_class(route)),
                             "resolver received a non-conforming argument (%s)" % r,
                             self.detail(world, spec, g, route, {"check": "conforms", "kwargs": out[1]}))
                # (O8) explicit null (inline or through a variable) at a nullable argument WITH a default: the resolver sees None;
                #      omitted (or bound to an absent variable): the declared default
                if a["default"] is not None and route in ("lit", "var") and t[0] != "nonNull":
                    got = dict(out[1]["d"]) if isinstance(out[1], dict) else {}
                    if provided and j is None and got.get(a["py"], "<absent>") is not None:
                        ctx.fail("explicit-null-not-none:%s" % route_class(route), "explicit null for a nullable argument with a default did not reach the resolver as None",
                                 self.detail(world, spec, g, route, {"check": "null-vs-omitted", "kwargs": out[1]}))
                    if (not provided) and got.get(a["py"], "<absent>") != U.pv_canon(U.pv_wire(a["default"][0])):
                        ctx.fail("omitted-not-default:%s" % route_class(route), "an omitted argument did not reach the resolver as its declared default",
                                 self.detail(world, spec, g, route, {"check": "null-vs-omitted", "kwargs": out[1]}))
                # (O5) omitted stays omitted
                if (not provided) and route in ("lit", "var") and a["default"] is None:
                    if a["py"] in dict_from_wire(out[1]):
                        ctx.fail("omitted-argument-present:%s" % route, "an omitted optional argument without default reached the resolver",
                                 self.detail(world, spec, g, route, {"check": "omitted", "kwargs": out[1]}))
            if out[0] == "nothing":
                ctx.fail("pipeline-nothing:%s:%s" % (route_class(route), feature(reg, t, j)),
                         "graphql_blocking neither called the resolver nor reported an error",
                         self.detail(world, spec, g, route, {"check": "outcome", "outcome": list(out)}))
            if out[0] == "internal":
                ctx.stat("pipeline-internal:%s:%s" % (out[1], feature(reg, t, j)))
                # (O9) coercion of a JSON VALUE never raises anything but a coercion error: an exception escaping the entry point
                #      on a route that delivers the value through `variables` (literal routes crash in the validator: C05's subject)
                if route in VAR_ROUTES and out[1] != "SampleScalarBoom":
                    ctx.fail("non-coercion-exception:%s:graphql_blocking:%s" % (out[1], feature(reg, t, j)),
                             "an exception other than a coercion error escaped graphql_blocking for a JSON variable value",
                             self.detail(world, spec, g, route, {"check": "no-raise", "exception": out[1]}))
        if provided:
            # (A8) a JSON scalar of the WRONG KIND for a built-in scalar is structurally wrong too: it must be rejected, and the
            #      same spelling inline and through a variable must agree (known finding A8: the lenient scalar coercions are pinned)
            ck = cross_kind(reg, t, j)
            if ck and outcomes.get("var", ("",))[0] == "called":
                ctx.fail("cross-kind-scalar-accepted:%s:%s" % ck,
                         "a JSON %s sent through a variable of type %s reached the resolver" % (ck[1], ck[0]),
                         self.detail(world, spec, g, "var", {"check": "cross-kind", "kwargs": outcomes["var"][1]}))
                if outcomes.get("lit", ("",))[0] == "rejected":
                    ctx.fail("inline-vs-variable-differs:%s:%s" % ck,
                             "the same value is rejected inline and accepted through a variable of the same type",
                             self.detail(world, spec, g, "var", {"check": "cross-kind", "lit": list(outcomes["lit"]), "var": list(outcomes["var"])}))
            # (O2) stated must-reject classes never reach the resolver (every route that delivers j to position t)
            ds = U.defects(reg, t, j)
            for route in ("lit", "var", "vardef", "vardef-nullable", "var-nullable-locdefault"):
                out = outcomes.get(route)
                if out is None:
                    continue
                if ds and out[0] == "called":
                    t2, j2 = shrink(reg, t, j, lambda tt, jj: bool(U.defects(reg, tt, jj)) and self.accepts(world, route, tt, jj))
                    ds2 = U.defects(reg, t2, j2) or ds
                    ctx.fail("accepted-must-reject:%s:%s" % (sorted(ds2)[0], route_class(route)),
                             "input that the statement says must be rejected reached the resolver (%s)" % ", ".join(sorted(ds)),
                             self.detail(world, spec, g, route, {"check": "must-reject", "kwargs": out[1]}))
                # (O3) valid inputs of the natural kind are accepted (full Int range, defaults filled, single values wrapped)
                if U.must_accept(reg, t, j) and out[0] == "rejected":
                    t2, j2 = shrink(reg, t, j, lambda tt, jj: U.must_accept(reg, tt, jj) and not self.accepts(world, route, tt, jj))
                    ctx.fail("rejected-valid-input:%s:%s" % (obj_feature(reg, t2, j2), route_class(route)),
                             "a valid input of the natural kind was rejected",
                             self.detail(world, spec, g, route, {"check": "must-accept"}))
            # (O4) literal route == variable route(s)
            if U.natural(reg, t, j) and "lit" in outcomes:
                for route in ("var", "vardef"):
                    if route in outcomes and outcomes[route] != outcomes["lit"] and outcomes[route][0] != "internal" and outcomes["lit"][0] != "internal":
                        t2, j2 = shrink(reg, t, j, lambda tt, jj: U.natural(reg, tt, jj) and self.accepts(world, "lit", tt, jj, True) != self.accepts(world, "var", tt, jj, True))
                        ctx.fail("routes-differ:%s:%s-vs-%s" % (obj_feature(reg, t2, j2), outcomes["lit"][0], outcomes[route][0]),
                                 "the same value inline and through a variable of the same type gives different results",
                                 self.detail(world, spec, g, route, {"check": "routes", "lit": list(outcomes["lit"]), "var": list(outcomes[route])}))
        else:
            lit, var = outcomes.get("lit"), outcomes.get("var")
            if var and t[0] == "nonNull" and var[0] == "called":
                ctx.fail("accepted-must-reject:missing-required-variable", "a variable of non-null type was not provided, yet the resolver ran",
                         self.detail(world, spec, g, "var", {"check": "must-reject", "kwargs": var[1]}))
            if lit and var and lit != var and t[0] != "nonNull":
                ctx.fail("routes-differ:omitted:%s-vs-%s" % (lit[0], var[0]), "omitting the argument and passing an absent variable differ",
                         self.detail(world, spec, g, "var", {"check": "routes", "lit": list(lit), "var": list(var)}))
            # omitted optional / defaulted argument: the field still resolves
            if lit and lit[0] == "rejected" and (a["default"] is not None or t[0] != "nonNull"):
                ctx.fail("rejected-valid-input:omitted:lit", "omitting an optional or defaulted argument is rejected",
                         self.detail(world, spec, g, "lit", {"check": "must-accept"}))
            # variable default used when the variable is absent == the default written inline
            l0 = outcomes.get("lit0")
            for route in ("vardef", "vardef-nullable"):
                if l0 and route in outcomes and outcomes[route] != l0:
                    ctx.fail("routes-differ:variable-default:%s:%s-vs-%s" % (obj_feature(reg, t, g["j0"]), l0[0], outcomes[route][0]),
                             "an absent variable's default and the same literal inline differ",
                             self.detail(world, spec, g, route, {"check": "routes", "lit": list(l0), "var": list(outcomes[route])}))
        # nested variable routes: only (O1) above and must-reject of null at a non-null position
        for route in ("nested-list", "nested-obj"):
            out = outcomes.get(route)
            if out and out[0] == "called":
                pass

    def accepts(self, world, route, t, j, tri=False):
        """probe used while shrinking: does the real code accept (t, j) on this route (direct functions)"""
        if route == "lit":
            r = world.value_from_ast(t, U.ast_of_json(self.reg, t, j), None)
        else:
            r = world.coerce_value(t, j)
        if tri:
            return r
        return r[0] == "ok"


BUILTIN = ("Int", "Float", "String", "Boolean", "ID")


def cross_kind(reg, t, j):
    """(scalar name, json kind) when `j` is a JSON SCALAR of the wrong JSON kind for a built-in scalar position `t`
    (a boolean or a string for Int, a number for String, …; containers are the `list-at-X` / `object-at-X` classes); else None"""
    u = nullable(t)
    if u[0] != "named" or u[1] not in BUILTIN or j is None or j is OMIT or isinstance(j, (list, dict)):
        return None
    if U.natural(reg, u, j):
        return None
    k = "bool" if isinstance(j, bool) else ("int" if isinstance(j, int) else ("float" if isinstance(j, float) else "str"))
    return u[1], k


def route_class(route):
    return {"lit": "literal", "var": "variable", "vardef": "variable", "vardef-nullable": "nullable-variable-with-default",
            "var-nullable-locdefault": "nullable-variable-at-defaulted-position"}.get(route, route)


def group_jsonable(g):
    return {"spec": g["spec"], "ty": ty_json(g["ty"]), "j": None if g["j"] is OMIT else [g["j"]], "j0": g["j0"],
            "arg": dict(g["arg"], type=ty_json(g["arg"]["type"])),
            "cases": {r: {"field": 0, "vardefs": [[n, ty_json(t), None if d is None else U.lit_wire(d)] for n, t, d in c["vardefs"]],
                          "args": [[n, U.lit_wire(l)] for n, l in c["args"]], "variables": [list(x) for x in c["variables"]]}
                      for r, c in g["cases"].items()}}


def group_from_jsonable(d):
    a = dict(d["arg"], type=U.ty_from_json(d["arg"]["type"]))
    return {"spec": 0, "ty": U.ty_from_json(d["ty"]), "j": OMIT if d["j"] is None else d["j"][0], "j0": d["j0"], "arg": a,
            "cases": {r: {"field": 0, "vardefs": [(n, U.ty_from_json(t), None if dl is None else U.lit_from_wire(dl)) for n, t, dl in c["vardefs"]],
                          "args": [(n, U.lit_from_wire(l)) for n, l in c["args"]], "variables": [tuple(x) for x in c["variables"]]}
                      for r, c in d["cases"].items()}}


# =========================================================================== run

RAW_LITS = [("null",), ("int", 1), ("int", 0), ("int", U.MAX32), ("int", U.MIN32), ("int", U.MAX32 + 1), ("int", U.MIN32 - 1), ("int", 2 ** 70),
            ("float", "1.5"), ("float", "1e3"), ("float", "1.0"), ("float", "1e400"), ("float", "-0.0"), ("float", "1e999"), ("float", "-1e999"), ("list", [("float", "1e999")]),
            ("str", "abc"), ("str", "A"), ("str", ""), ("str", "12"), ("bool", True), ("bool", False),
            ("enum", "A"), ("enum", "B"), ("enum", "ZZ"), ("enum", "V0"),
            ("list", []), ("list", [("int", 1)]), ("list", [("null",)]), ("list", [("int", 1), ("str", "x")]), ("list", [("list", [("int", 2)])]),
            ("obj", []), ("obj", [("a", ("int", 1))]), ("obj", [("zzz", ("int", 1))]), ("obj", [("req", ("int", 3))]),
            ("obj", [("req", ("null",))]), ("obj", [("a", ("int", 1)), ("a", ("int", 2))]), ("obj", [("m", ("obj", []))]),
            ("var", "v"), ("list", [("var", "v")]), ("list", [("var", "w"), ("int", 1)]), ("obj", [("a", ("var", "v"))]), ("obj", [("req", ("var", "v"))])]
VAR_ENVS = [None, {}, {"v": None}, {"v": 3}, {"v": "A"}, {"v": [1, 2]}, {"v": {"a_py": 1}}, {"v": 3, "w": None}]


def run_registry(ctx, reg, reg_id, types, per_type, depth, max_cases=2000, n_abstract=6, n_trace=60, leaf_defaults_only=False):
    rng = ctx.rng
    specs, groups = build_cases(reg, types, rng, per_type, depth, leaf_defaults_only)
    # pipeline runs cost ~6 ms each (26 validation rules): keep every group of the small types, sample the rest
    groups = select_groups(groups, rng, max_cases)
    abstract = build_abstract(reg, types, rng, n_abstract)
    try:
        world = World(reg, specs, abstract)
    except Exception as e:  # noqa
        ctx.fail("schema-build:%s" % type(e).__name__, "registry could not be built as a py_gql schema", {"reg": U.reg_to_jsonable(reg), "error": str(e)[:300]},
                 kind="correspondence")
        return
    run_world(ctx, world, reg, reg_id, types, specs, groups, per_type, depth, n_trace)
    return world, specs


def run_world(ctx, world, reg, reg_id, types, specs, groups, per_type, depth, n_trace, value_regs=(), extras=True):
    """correspondence + direct oracle for an EXISTING schema (`world`) described by `reg` / `specs`"""
    rng = ctx.rng
    chk = Checker(ctx, reg, reg_id)

    # ---------- (K1) coerce_value and (K2) value_from_ast, directly, against the model ----------
    items, impl, meta = [], [], []
    for t in types:
        vals = U.values_for(reg, t, rng, depth, False, per_type) + U.values_for(reg, t, rng, depth, True, per_type)
        for other in value_regs:
            if U.reg_get(other, U.ty_base(t)) is not None:
                try:
                    vals = vals + U.values_for(other, t, rng, depth, False, per_type)
                except Exception:  # noqa
                    pass
        for j in vals:
            items.append({"op": "coerce_value", "ty": ty_json(t), "v": U.jv_wire(j)})
            impl.append(world.coerce_value(t, j))
            meta.append(("coerce_value", t, j, None))
            lit = U.ast_of_json(reg, t, j)
            items.append({"op": "value_from_ast", "ty": ty_json(t), "lit": U.lit_wire(lit), "vars": None})
            impl.append(world.value_from_ast(t, lit, None))
            meta.append(("value_from_ast", t, lit, None))
            # direct oracle on the functions themselves: Conforms / must-reject / must-accept / equivalence
            cv, va = impl[-2], impl[-1]
            ctx.count(2)
            direct_function_oracle(ctx, chk, world, t, j, lit, cv, va)
        lits = RAW_LITS if len(types) < 40 else rng.sample(RAW_LITS, 12)
        for lit in lits:
            env = rng.choice(VAR_ENVS) if has_var(lit) else None
            items.append({"op": "value_from_ast", "ty": ty_json(t), "lit": U.lit_wire(lit),
                          "vars": None if env is None else [[k, U.pv_wire(v)] for k, v in env.items()]})
            impl.append(world.value_from_ast(t, lit, env))
            meta.append(("value_from_ast", t, lit, env))
            ctx.count()
    if ctx.model_ok:
        answers = ask_model(ctx, reg, items)
        for it, im, ans, m in zip(items, impl, answers, meta):
            mo = model_outcome(ans)
            ctx.stat("%s:%s" % (m[0], im[0]))
            if not same_outcome(mo, im):
                kind_in = jkind(m[2]) if m[0] == "coerce_value" else m[2][0]
                ctx.fail("corr:%s:%s:%s:impl-%s-model-%s" % (m[0], shape(reg, m[1]), kind_in, im[0], mo[0]),
                         "%s: model and implementation differ" % m[0],
                         {"reg": U.reg_to_jsonable(reg), "request": it, "impl": list(im), "model": list(mo), "type": ty_str(m[1]),
                          "input": repr(m[2]), "vars": repr(m[3])}, kind="correspondence")
    # ---------- pipeline: recording resolver in real graphql_blocking runs ----------
    items, metas = [], []
    for g in groups:
        if ctx.out_of_time():
            ctx.notes.append("out of time in registry %s: %d groups left" % (reg_id, len(groups)))
            break
        spec = specs[g["spec"]]
        outcomes = {}
        for route, case in g["cases"].items():
            out = world.pipeline(case)
            outcomes[route] = out
            d = world.direct(case)
            ctx.count()
            ctx.stat("pipeline:%s" % out[0])
            ctx.stat("route:%s" % route)
            # (O7) pipeline and direct functions agree whenever the resolver ran
            if out[0] == "called" and d != ("ok", out[1]):
                ctx.fail("pipeline-vs-direct:%s:%s" % (route, d[0]), "kwargs seen by the resolver differ from coerce_argument_values called directly",
                         chk.detail(world, spec, g, route, {"check": "pipeline-direct", "direct": list(d), "kwargs": out[1]}))
            if out[0] == "rejected" and d[0] == "ok":
                ctx.stat("rejected-by-validation-only")
            items.append(case_wire(case, spec))
            metas.append((g, route, d, spec))
            key = (reg_id, ty_str(g["ty"]), repr(g["arg"]["default"]), route, repr(g["j"]))
            if g["j"] is OMIT or g["j"] is None or g["ty"][0] != "named" or U.reg_get(reg, g["ty"][1])["kind"] in ("enum", "input") \
                    or out[0] != "called" or jkind(g["j"]) == "int-boundary":
                ctx.nontrivial(key)
        chk.check_group(world, spec, g, outcomes)
        if len(ctx.samples) < 6 and g["j"] is not OMIT and isinstance(g["j"], (dict, list)) and outcomes.get("var", ("",))[0] == "called":
            ctx.sample({"type": ty_str(g["ty"]), "document": world.doc_text(g["cases"]["var"]), "variables": dict(g["cases"]["var"]["variables"]),
                        "resolver_kwargs": outcomes["var"][1], "literal_route_same": outcomes.get("lit") == outcomes["var"]})
    if extras:
        run_abstract(ctx, chk, world, reg, reg_id)
        run_trace(ctx, chk, world, reg, reg_id, specs, n_trace)
        run_allowed(ctx, world, reg, reg_id, specs, n_trace)
    if ctx.model_ok and items:
        answers = ask_model(ctx, reg, items)
        for it, ans, (g, route, d, spec) in zip(items, answers, metas):
            mo = model_outcome(ans)
            if not same_outcome(mo, d):
                ctx.fail("corr:exec:%s:%s:impl-%s-model-%s" % (route, feature(reg, g["ty"], g["j"]), "-".join(d[:1] + (d[1:] if d[0] == "err" else ())),
                                                              "-".join(mo[:1] + (mo[1:] if mo[0] == "err" else ()))),
                         "coerce_variable_values + coerce_argument_values: model and implementation differ",
                         {"reg": U.reg_to_jsonable(reg), "request": it, "impl": list(d), "model": list(mo), "document": world.doc_text(g["cases"][route]),
                          "variables": json.dumps(dict(g["cases"][route]["variables"]))}, kind="correspondence")


def run_trace(ctx, chk, world, reg, reg_id, specs, n):
    """Several aliased fields in ONE operation, some with arguments that fail at execution time (after validation and after
    variable coercion), some fine, some requests whose variables fail: the resolver calls observed, in order and with their
    kwargs, must be exactly the `call` events of the trace model (`executeOp`), a field with rejected arguments never runs
    while its siblings still do, and a request with rejected variables runs nothing."""
    from py_gql import graphql_blocking
    from py_gql.exc import ValidationError
    rng = ctx.rng
    items, metas = [], []
    cand = [i for i, sp in enumerate(specs) if len(sp) == 1]
    if not cand:
        return
    for _ in range(n):
        if ctx.out_of_time():
            break
        vardefs, variables, sels, parts, expect_reject = [], [], [], [], {}
        for k in range(rng.randint(2, 3)):
            si = rng.choice(cand)
            a = specs[si][0]
            t = a["type"]
            key = "k%d" % k
            good = [j for j in U.values_for(reg, t, rng, 2, False, 6) if j is not None and U.must_accept(reg, t, j) and not U.has_boundary(j)]
            mode = rng.choice(["lit", "var", "var-null", "var-absent", "var-bad", "omit"])
            if not good and mode in ("lit", "var", "var-null"):
                mode = "omit"
            vn = "v%d" % k
            if mode == "lit":
                args = [(a["name"], U.ast_of_json(reg, t, rng.choice(good)))]
            elif mode == "var":
                vardefs.append((vn, t, None)); variables.append((vn, rng.choice(good))); args = [(a["name"], ("var", vn))]
            elif mode == "var-null":
                # nullable variable WITH a default, bound to null: allowed by validation even at a non-null position
                vardefs.append((vn, nullable(t), U.ast_of_json(reg, t, rng.choice(good)))); variables.append((vn, None))
                args = [(a["name"], ("var", vn))]
                if t[0] == "nonNull":
                    expect_reject[key] = "null-for-nonnull"
            elif mode == "var-absent":
                vardefs.append((vn, nullable(t), None)); args = [(a["name"], ("var", vn))]
                if t[0] == "nonNull" and a["default"] is None:
                    continue          # validation refuses `$v: T` at `T!` without any default: nothing to observe
            elif mode == "var-bad":
                bad = [j for j in U.values_for(reg, t, rng, 2, True, 6) if j is not None and U.defects(reg, t, j)]
                if not bad:
                    continue
                vardefs.append((vn, t, None)); variables.append((vn, rng.choice(bad))); args = [(a["name"], ("var", vn))]
                expect_reject["*"] = "rejected-variables"
            else:
                args = []
                if t[0] == "nonNull" and a["default"] is None:
                    continue
            sels.append({"key": key, "argdefs": spec_wire(specs[si]), "args": [[n_, U.lit_wire(l)] for n_, l in args]})
            parts.append("%s: f%d%s" % (key, si, ("(" + ", ".join("%s: %s" % (n_, U.render_lit(l)) for n_, l in args) + ")") if args else ""))
        if not parts:
            continue
        head = ("query(" + ", ".join("$%s: %s%s" % (n_, ty_str(t), "" if d is None else " = " + U.render_lit(d)) for n_, t, d in vardefs) + ") ") if vardefs else ""
        doc = head + "{ " + " ".join(parts) + " }"
        world.seen_calls[:] = []
        try:
            r = graphql_blocking(world.schema, doc, variables=dict(variables))
            errs = list(r.errors or [])
            crashed = None
        except Exception as e:  # noqa
            errs, crashed = [], type(e).__name__
        calls = [[k_, U.pv_canon(U.pv_wire(kw))] for k_, kw in world.seen_calls]
        ctx.count()
        ctx.stat("trace:%s" % ("crash" if crashed else ("validation" if any(isinstance(e, ValidationError) for e in errs) else "executed")))
        detail = {"reg": U.reg_to_jsonable(reg), "check": "trace", "document": doc, "variables": json.dumps(dict(variables)),
                  "specs": {s_["key"]: s_["argdefs"] for s_ in sels}, "calls": calls, "errors": [str(e)[:120] for e in errs],
                  "expect_reject": expect_reject}
        # direct oracle: a selection whose arguments must be rejected never runs; rejected variables: nothing runs
        for key, why in expect_reject.items():
            ran = [c for c in calls if key == "*" or c[0] == key]
            if ran:
                ctx.fail("resolver-ran-on-rejected-arguments:%s" % why,
                         "a resolver ran although %s" % ("the request's variables must be rejected" if key == "*" else "its own arguments must be rejected"),
                         detail)
        spec_of = {s_["key"]: s_["argdefs"] for s_ in sels}
        for k_, kw in calls:
            sp = [dict(a_, type=U.ty_from_json(a_["type"]), default=None if a_["default"] is None else [dict_from_wire(a_["default"]["v"])]) for a_ in spec_of[k_]]
            rr = check_kwargs(reg, sp, kw)
            if rr:
                ctx.fail("nonconforming-argument:%s:trace" % rr, "resolver received a non-conforming argument (%s)" % rr, detail)
        if crashed or any(isinstance(e, ValidationError) for e in errs):
            continue
        ctx.nontrivial(("trace", reg_id, doc, repr(variables)))
        items.append({"op": "trace", "vardefs": [{"name": n_, "type": ty_json(t), "default": None if d is None else U.lit_wire(d)} for n_, t, d in vardefs],
                      "variables": [[k_, U.jv_wire(v)] for k_, v in variables], "sels": sels})
        metas.append((calls, errs, detail))
    if ctx.model_ok and items:
        for it, ans, (calls, errs, detail) in zip(items, ask_model(ctx, reg, items), metas):
            evs = ans.get("events", [])
            mcalls = [[e["call"], U.pv_from_model(e["kw"])] for e in evs if isinstance(e, dict) and "call" in e]
            mfield = [e["fieldError"] for e in evs if isinstance(e, dict) and "fieldError" in e]
            ipaths = [list(getattr(e, "path", None) or []) for e in errs]
            ok = mcalls == calls and all([k_] in ipaths for k_ in mfield) and (("requestError" in evs) == (not calls and bool(errs) and not mfield and not any(ipaths)) or calls or mfield)
            if not ok:
                ctx.fail("corr:trace:impl-%dcalls-model-%dcalls" % (len(calls), len(mcalls)), "order of coercion and resolver calls: trace model and implementation differ",
                         dict(detail, request=it, model_events=evs, impl_error_paths=ipaths), kind="correspondence")


def run_allowed(ctx, world, reg, reg_id, specs, n):
    """The validator's side of the bridge theorem: `Schema.is_subtype` and the verdict of VariablesInAllowedPosition on
    `query($v: VT [= default]) { f(x: $v) }` against the model's `isSubtype` / `allowedUsage`."""
    from py_gql.lang import parse
    from py_gql.validation import validate_ast
    rng = ctx.rng
    items, impl, metas = [], [], []
    cand = [i for i, sp in enumerate(specs) if len(sp) == 1]
    for _ in range(n):
        if not cand or ctx.out_of_time():
            break
        si = rng.choice(cand)
        a = specs[si][0]
        lt = a["type"]
        base = U.ty_base(lt)
        vt = rng.choice([lt, nullable(lt), NN(nullable(lt)), L(lt), nullable(lt)[1] if nullable(lt)[0] == "list" else lt,
                         L(NN(N(base))), N(base), NN(N(base)), N(rng.choice(names_of(reg)))])
        if vt[0] == "nonNull" and vt[1][0] == "nonNull":
            continue
        if U.ty_base(vt) not in world.schema.types:
            continue          # a type no field reaches is not part of the schema: the rule skips the usage (UnknownType), KnownTypeNames reports it
        good = [j for j in U.values_for(reg, vt, rng, 1, False, 4) if j is not None and U.must_accept(reg, vt, j)]
        dmode = rng.choice(["none", "null", "value"]) if (good and vt[0] != "nonNull") else "none"
        dlit = None if dmode == "none" else (("null",) if dmode == "null" else U.ast_of_json(reg, vt, good[0]))
        doc = "query($v: %s%s) { f%d(%s: $v) }" % (ty_str(vt), "" if dlit is None else " = " + U.render_lit(dlit), si, a["name"])
        try:
            res = validate_ast(world.schema, parse(doc))
            verdict = not any("used in position expecting type" in str(e) for e in res.errors)
            sub = bool(world.schema.is_subtype(world.ty_py(vt), world.ty_py(lt)))
        except Exception as e:  # noqa
            ctx.stat("allowed:internal:%s" % type(e).__name__)
            continue
        ctx.count()
        ctx.stat("allowed:%s" % verdict)
        items.append({"op": "allowed", "vt": ty_json(vt), "lt": ty_json(lt), "vdef": dmode == "value", "ldef": a["default"] is not None})
        impl.append((sub, verdict))
        metas.append(doc)
    if ctx.model_ok and items:
        for it, ans, im, doc in zip(items, ask_model(ctx, reg, items), impl, metas):
            if (ans.get("sub"), ans.get("allowed")) != im:
                ctx.fail("corr:allowed-usage:impl-%s-model-%s" % (im, (ans.get("sub"), ans.get("allowed"))),
                         "is_subtype / VariablesInAllowedPosition: model and implementation differ",
                         {"reg": U.reg_to_jsonable(reg), "document": doc, "request": it, "impl": list(im), "model": ans}, kind="correspondence")


def run_collisions(ctx):
    """Python names that collide (two input fields / two arguments with the same python_name): outside the statement's
    premises (no dict can hold both), so NO property oracle here — only the correspondence: the model follows what the
    code does (`coerced[python_name] = …`: later value, earlier position)."""
    reg = {"types": [t for t in U.fixed_registry()["types"] if t["kind"] != "input"] + [
        {"name": "C", "kind": "input", "fields": [
            {"name": "a", "py": "k", "type": N("Int"), "default": None},
            {"name": "b", "py": "k", "type": N("Int"), "default": [9]},
            {"name": "c", "py": "k2", "type": N("String"), "default": ["d"]},
            {"name": "d", "py": "k", "type": L(N("E")), "default": None}]}]}
    specs = [[arg("x", N("Int"), None, "p"), arg("y", N("Int"), [5], "p")],
             [arg("y", N("Int"), [5], "p"), arg("x", N("C"), None, "p"), arg("z", N("Boolean"), None, "q")]]
    try:
        world = World(reg, specs)
    except Exception as e:  # noqa
        ctx.notes.append("colliding python names are refused by the schema: %s" % type(e).__name__)
        return
    items, impl, what = [], [], []
    vals = [{}, {"a": 1}, {"b": 2}, {"a": 1, "b": 2}, {"b": 2, "a": 1}, {"d": "A", "a": 3}, {"a": 1, "d": ["B"], "c": "x"}, {"a": "x", "b": 1}, None]
    for j in vals:
        items.append({"op": "coerce_value", "ty": ty_json(N("C")), "v": U.jv_wire(j)})
        impl.append(world.coerce_value(N("C"), j)); what.append(("coerce_value", j))
        lit = U.ast_of_json(reg, N("C"), j)
        items.append({"op": "value_from_ast", "ty": ty_json(N("C")), "lit": U.lit_wire(lit), "vars": None})
        impl.append(world.value_from_ast(N("C"), lit, None)); what.append(("value_from_ast", j))
    cases = [(0, [("x", ("int", 1))]), (0, []), (0, [("x", ("int", 1)), ("y", ("int", 2))]), (0, [("y", ("int", 2)), ("x", ("int", 1))]),
             (1, [("x", ("obj", [("a", ("int", 1))]))]), (1, [("z", ("bool", True)), ("x", ("obj", []))]), (1, [])]
    for fi, args in cases:
        case = {"field": fi, "vardefs": [], "args": args, "variables": []}
        items.append(case_wire(case, specs[fi]))
        impl.append(world.direct(case)); what.append(("exec", world.doc_text(case)))
        out = world.pipeline(case)
        if out[0] == "called" and impl[-1] != ("ok", out[1]):
            ctx.fail("pipeline-vs-direct:collision", "kwargs seen by the resolver differ from coerce_argument_values called directly",
                     {"reg": U.reg_to_jsonable(reg), "document": world.doc_text(case), "kwargs": out[1], "direct": list(impl[-1])})
    ctx.count(len(items))
    if ctx.model_ok:
        for it, ans, im, w in zip(items, ask_model(ctx, reg, items), impl, what):
            mo = model_outcome(ans)
            ctx.stat("collision:%s" % im[0])
            if not same_outcome(mo, im):
                ctx.fail("corr:python-name-collision:%s" % w[0], "colliding python names: model and implementation differ",
                         {"reg": U.reg_to_jsonable(reg), "request": it, "impl": list(im), "model": list(mo), "input": repr(w[1])}, kind="correspondence")


def gen_lexeme(rng):
    k = rng.random()
    if k < 0.25:
        return repr(rng.choice([rng.uniform(-1e6, 1e6), rng.uniform(-1, 1) * 10 ** rng.randint(-320, 308), float(rng.randint(-2 ** 40, 2 ** 40)),
                                5e-324, 2.2250738585072014e-308, 1.7976931348623157e308, 0.1, 1e22, 1e23, float(2 ** 53 + 1), -0.0, 4.35, 2.5,
                                float(rng.randint(-2 ** 31 - 2, 2 ** 31 + 2)), float("inf"), float("nan")]))
    if k < 0.5:
        return rng.choice(["inf", "-inf", "nan", "Infinity", "-INFINITY", "+inf", "NaN", "-nan", "infinit", "1e400", "-1e400", "1e-400", "1e309",
                           "1.7976931348623158e308", "1.7976931348623159e308", " 7 ", "1_0", "1__0", "_1", "1_", "+5", "-5", "+-5", "007", "0x10", "1 0",
                           "\t12\n", "\x1f3", "", " ", "-", "+", "1e3", "1E3", "1e+3", "1e-3", "1e", "e5", ".5", "5.", ".", "1.e2", ".e2", "1_0.0_1e1_0",
                           "1._5", "1_.5", "1e_5", "0.1e1", "12abc", "1.5.2", "--1", "1.0", "2.0e0", "1.0000000000000000001", "0.9999999999999999999",
                           "123456789012345678901234567890", "-0.0", "0e999999999", "1e-999999999", "9007199254740993", "2147483648.0", "-2147483648.0",
                           "2147483647", "-2147483648", "2147483648", "2147483647.0", "2147483647.5"])
    return "".join(rng.choice("0123456789" * 3 + "._eE+-  _") for _ in range(rng.randint(1, 12)))


def run_pynum(ctx, n):
    """the lexeme model (PyGqlModel/PyNum.lean) against Python's own int(s, 10) / float(s) / is_integer / int(f), on ASCII lexemes"""
    import math
    from fractions import Fraction
    if not ctx.model_ok:
        return
    lex = [gen_lexeme(ctx.rng) for _ in range(n)]
    lex = [s_ for s_ in lex if all(ord(c) < 128 for c in s_)]
    out = ctx.driver.ask([{"op": "pynum", "s": s_} for s_ in lex])
    for s_, o in zip(lex, out):
        ctx.count()
        try:
            pi = int(s_, 10)
        except ValueError:
            pi = None
        try:
            pf = float(s_)
        except ValueError:
            pf = "ERR"
        m = o.get("flt")
        ok = o.get("i10") == pi
        if pf == "ERR":
            ok = ok and m is None
        elif m is None:
            ok = False
        elif math.isnan(pf):
            ok = ok and m["cls"] == "nan"
        elif math.isinf(pf):
            ok = ok and m["cls"] == "inf" and m["neg"] == (pf < 0)
        else:
            ok = ok and m["cls"] == "finite" and Fraction(pf) == (-1 if m["neg"] else 1) * Fraction(m["m"]) * Fraction(2) ** m["e"] \
                and m["neg"] == (math.copysign(1, pf) < 0) and m["int"] == (int(pf) if pf.is_integer() else None)
        ctx.stat("pynum:%s" % ("int" if pi is not None else ("float" if pf != "ERR" else "neither")))
        if not ok:
            ctx.fail("corr:pynum:%s" % ("int10" if o.get("i10") != pi else "float"), "number lexeme: the Lean model of int()/float() and Python differ",
                     {"lexeme": s_, "python_int10": pi, "python_float": repr(pf), "model": o}, kind="correspondence")


def ty_depth(t):
    return 0 if t[0] == "named" else 1 + ty_depth(t[1])


def select_groups(groups, rng, max_cases):
    def weight(g):
        return sum(1 for _ in g["cases"])
    first = [g for g in groups if ty_depth(g["ty"]) <= 1 and (g["j"] is OMIT or g["j"] is None or U.json_size(g["j"]) <= 3)]
    rest = [g for g in groups if not (ty_depth(g["ty"]) <= 1 and (g["j"] is OMIT or g["j"] is None or U.json_size(g["j"]) <= 3))]
    rng.shuffle(first)
    rng.shuffle(rest)
    out, n = [], 0
    half = max_cases // 2
    for g in first:
        if n >= half:
            break
        out.append(g)
        n += weight(g)
    for g in rest:
        if n >= max_cases:
            break
        out.append(g)
        n += weight(g)
    return out


def build_abstract(reg, types, rng, n):
    """[(interface spec, ImplA spec, ImplB spec)]: same field, different argument sets and defaults"""
    out = []
    cands = [t for t in types if ty_depth(t) <= 2]
    for _ in range(n):
        t = rng.choice(cands)
        defaults = []
        for _k in range(3):
            dv = U.default_for(reg, t, rng, 2)
            defaults.append(None if (dv is U._NO or U.conforms(reg, t, dv) is not None) else [dv])
        ispec = [arg("x", t, defaults[0])]
        aspec = [arg("x", t, defaults[1], "xa"), arg("a_extra", N("Int"), [5], "extra_a")]
        bspec = [arg("b_extra", L(N("String")), None, "extra_b"), arg("x", t, defaults[2], "xb")]
        if rng.random() < 0.5:
            bspec = [arg("x", t, defaults[2], "xb"), arg("a_extra", N("Int"), [77], "extra_b")]
        out.append((ispec, aspec, bspec))
    return out


def run_abstract(ctx, chk, world, reg, reg_id):
    """One field node, resolved for objects of two types whose definitions of the field differ: every resolver
    call must receive the arguments coerced against ITS OWN definition (argument_values cache keyed by (definition, node))."""
    rng = ctx.rng
    from py_gql.lang import parse
    from py_gql.exc import CoercionError, VariablesCoercionError
    from py_gql.utilities import coerce_argument_values, coerce_variable_values
    items, metas = [], []
    for k, (ispec, aspec, bspec) in enumerate(world.abstract):
        t = ispec[0]["type"]
        vals = U.values_for(reg, t, rng, 2, False, 6)
        cases = []
        for via in ("plain", "fragment", "inline"):
            cases.append({"k": k, "via": via, "vardefs": [], "args": [], "variables": []})
            for j in vals[:4]:
                cases.append({"k": k, "via": via, "vardefs": [], "args": [("x", U.ast_of_json(reg, t, j))], "variables": []})
                cases.append({"k": k, "via": via, "vardefs": [("v", t, None)], "args": [("x", ("var", "v"))], "variables": [("v", j)]})
            cases.append({"k": k, "via": via, "vardefs": [("v", t, None)], "args": [("x", ("var", "v"))], "variables": []})
        for case in cases:
            if ctx.out_of_time():
                return
            abstract_case(ctx, world, reg, reg_id, k, (ispec, aspec, bspec), case, items, metas)
    if ctx.model_ok and items:
        for it, ans, (exp, detail) in zip(items, ask_model(ctx, reg, items), metas):
            mo = model_outcome(ans)
            if not same_outcome(mo, exp):
                ctx.fail("corr:exec:abstract:impl-%s-model-%s" % (exp[0], mo[0]), "coerce_argument_values (abstract field): model and implementation differ",
                         dict(detail, request=it, model=list(mo)), kind="correspondence")


def abstract_case(ctx, world, reg, reg_id, k, triple, case, items, metas):
    from py_gql.lang import parse
    from py_gql.exc import CoercionError, VariablesCoercionError
    from py_gql.utilities import coerce_argument_values, coerce_variable_values
    ispec, aspec, bspec = triple
    if True:
        if True:
            out = world.abstract_pipeline(case)
            ctx.count()
            ctx.stat("abstract:%s" % out[0])
            if out[0] != "called":
                return
            ctx.nontrivial(("abstract", reg_id, world.abstract_doc(case), repr(case["variables"])))
            # direct: the real coerce_argument_values on each type's own definition
            doc = parse(world.abstract_doc(case))
            op = doc.definitions[0]
            try:
                coerced = coerce_variable_values(world.schema, op, dict(case["variables"]))
            except VariablesCoercionError:
                coerced = None
            node = find_field_node(doc, "g")
            for tn, spec in (("A", aspec), ("B", bspec)):
                seen = [kw for n, kw in out[1] if n == tn]
                fdef = world.schema.get_type("Impl%s%d" % (tn, k)).field_map["g"]
                try:
                    exp = ("ok", U.pv_canon(U.pv_wire(coerce_argument_values(fdef, node, coerced))))
                except CoercionError:
                    exp = ("err", "arguments")
                detail = {"reg": U.reg_to_jsonable(reg), "check": "abstract", "abstract": [spec_wire(x) for x in (ispec, aspec, bspec)],
                          "case": dict(case, vardefs=[[n, ty_json(tt), None if d is None else U.lit_wire(d)] for n, tt, d in case["vardefs"]],
                                       args=[[n, U.lit_wire(l)] for n, l in case["args"]], variables=[list(x) for x in case["variables"]]),
                          "document": world.abstract_doc(case), "variables": json.dumps(dict(case["variables"])), "type": "Impl" + tn,
                          "seen": seen, "own_definition_gives": list(exp)}
                for kw in seen:
                    r = check_kwargs(reg, spec, kw)
                    if r:
                        ctx.fail("nonconforming-argument:%s:abstract-%s" % (r, case["via"]), "a resolver reached through an interface received arguments that do not "
                                 "conform to its own field definition (%s)" % r, detail)
                    elif exp[0] == "ok" and kw != exp[1]:
                        ctx.fail("foreign-arguments:abstract-%s" % case["via"], "a resolver reached through an interface received arguments coerced against "
                                 "another type's definition of the field", detail)
                if exp[0] == "err" and seen:
                    ctx.fail("accepted-must-reject:abstract-%s" % case["via"], "resolver ran although its own argument coercion fails", detail)
                items.append({"op": "exec", "argdefs": spec_wire(spec),
                              "vardefs": [{"name": n, "type": ty_json(tt), "default": None if d is None else U.lit_wire(d)} for n, tt, d in case["vardefs"]],
                              "args": [[n, U.lit_wire(l)] for n, l in case["args"]], "variables": [[kk, U.jv_wire(v)] for kk, v in case["variables"]]})
                metas.append((exp, detail))


def find_field_node(doc, name):
    from py_gql.lang import ast as _ast
    found = []

    def walk(sel_set):
        for s_ in sel_set.selections:
            if isinstance(s_, _ast.Field):
                if s_.name.value == name:
                    found.append(s_)
                if s_.selection_set:
                    walk(s_.selection_set)
            elif isinstance(s_, _ast.InlineFragment):
                walk(s_.selection_set)
    for d in doc.definitions:
        walk(d.selection_set)
    return found[0]


def has_var(lit):
    if lit[0] == "var":
        return True
    if lit[0] == "list":
        return any(has_var(x) for x in lit[1])
    if lit[0] == "obj":
        return any(has_var(x) for _, x in lit[1])
    return False


def direct_function_oracle(ctx, chk, world, t, j, lit, cv, va):
    """the statement on coerce_value / value_from_ast called directly"""
    reg = chk.reg
    for fn, out in (("coerce_value", cv), ("value_from_ast", va)):
        if out[0] == "internal":
            ctx.stat("direct-internal:%s:%s:%s" % (fn, out[1], feature(reg, t, j)))
            if fn == "coerce_value" and out[1] != "SampleScalarBoom":
                ctx.fail("non-coercion-exception:%s:coerce_value:%s" % (out[1], feature(reg, t, j)),
                         "coerce_value let an exception other than CoercionError escape for a JSON value",
                         {"reg": U.reg_to_jsonable(reg), "fn": fn, "type": ty_str(t), "value": safe_json(j), "check": "direct", "exception": out[1]})
            continue
        ds = U.defects(reg, t, j)
        if fn == "value_from_ast":
            if not U.natural(reg, t, j):
                continue                          # the literal spelling of a wrong-kind value is validated elsewhere too
        if out[0] == "ok":
            r = U.conforms(reg, t, dict_from_wire(out[1]))
            if r:
                t2, j2 = shrink(reg, t, j, lambda tt, jj: direct_bad(chk, world, fn, tt, jj))
                ctx.fail("nonconforming-result:%s:%s" % (fn, r), "%s returned a value that does not conform (%s)" % (fn, r),
                         {"reg": U.reg_to_jsonable(reg), "fn": fn, "type": ty_str(t), "value": json.dumps(j), "check": "direct", "result": out[1]})
            elif ds:
                t2, j2 = shrink(reg, t, j, lambda tt, jj: direct_bad(chk, world, fn, tt, jj))
                ds2 = U.defects(reg, t2, j2) or ds
                ctx.fail("accepted-must-reject:%s:%s" % (sorted(ds2)[0], fn),
                         "%s accepted an input that must be rejected (%s)" % (fn, ", ".join(sorted(ds))),
                         {"reg": U.reg_to_jsonable(reg), "fn": fn, "type": ty_str(t), "value": json.dumps(j), "check": "direct", "result": out[1]})
        elif U.must_accept(reg, t, j):
            t2, j2 = shrink(reg, t, j, lambda tt, jj: direct_bad(chk, world, fn, tt, jj))
            ctx.fail("rejected-valid-input:%s:%s" % (obj_feature(reg, t2, j2), fn), "%s rejected a valid input of the natural kind" % fn,
                     {"reg": U.reg_to_jsonable(reg), "fn": fn, "type": ty_str(t), "value": json.dumps(j), "check": "direct"})
    if U.natural(reg, t, j) and cv != va and "internal" not in (cv[0], va[0]):
        t2, j2 = shrink(reg, t, j, lambda tt, jj: U.natural(reg, tt, jj)
                        and world.coerce_value(tt, jj) != world.value_from_ast(tt, U.ast_of_json(reg, tt, jj), None))
        ctx.fail("routes-differ:%s:functions:%s-vs-%s" % (obj_feature(reg, t2, j2), va[0], cv[0]),
                 "value_from_ast(astOfJson j) differs from coerce_value(j)",
                 {"reg": U.reg_to_jsonable(reg), "fn": "both", "type": ty_str(t), "value": json.dumps(j), "check": "direct", "literal": list(va), "variable": list(cv)})


def safe_json(j):
    """JSON text of a value for the replay file (non-finite floats as Python's json spells them: Infinity / NaN)"""
    return json.dumps(j)


def run_cross_kind(ctx):
    """every JSON scalar kind at every built-in scalar position, inline and through a variable (known finding A8: the combinations the
    lenient scalars accept are reported deterministically on every run; a NEW accepted combination is a new signature)"""
    reg = U.fixed_registry()
    specs = [[arg("x", N(n))] for n in BUILTIN] + [[arg("x", NN(N(n)))] for n in BUILTIN]
    world = World(reg, specs)
    chk = Checker(ctx, reg, "cross-kind")
    values = [True, False, 5, 0, 1.0, 1.5, "5", "1.5", "abc", "true", ""]
    for si, spec in enumerate(specs):
        a = spec[0]
        for j in values:
            g = make_group(reg, si, a, a["type"], j, None, None)
            g["cases"] = {r: c for r, c in g["cases"].items() if r in ("lit", "var")}
            outcomes = {route: world.pipeline(case) for route, case in g["cases"].items()}
            ctx.count(len(outcomes))
            ck = cross_kind(reg, a["type"], j)
            ctx.stat("cross-kind:%s:%s" % ("natural" if ck is None else "%s-%s" % ck, outcomes["var"][0]))
            chk.check_group(world, spec, g, outcomes)


def run_nested_vars(ctx):
    """Variables INSIDE list literals (list depth 1-3) and inside input-object fields, through the full entry point.
    (a) a variable whose type is too shallow for its position (`$v: Int` as an item of `[$v]` at a `[[Int]]` argument) must be refused
        before any resolver runs - or, if anything is called, the kwargs conform; `[$v]` with v=5 and inline `[5]` agree (hunt C07/1);
    (b) an OMITTED nullable variable inside a literal: an object field bound to it counts as absent (its default applies), a list item
        is null (GraphQL June 2018 3.10 / graphql-js) - the library fails the whole field instead (hunt C07/2 = C04/1, pinned by
        tests/test_utilities/test_value_from_ast.py: known finding A9);
    (c) an enum argument echoed by its resolver comes back under the SAME name even when internal values compare equal (0 / False,
        1 / True): hunt C04/5."""
    from py_gql import graphql_blocking
    from py_gql.schema import Argument, EnumType, Field, InputField, InputObjectType, Int, ListType, NonNullType, ObjectType, Schema, String
    rng = ctx.rng
    Level = EnumType("Level", [("ZERO", 0), ("ONE", 1), ("NO", False), ("YES", True), ("S", "s")])
    Grid = InputObjectType("Grid", [InputField("rows", ListType(ListType(Int))), InputField("lv", ListType(ListType(NonNullType(Level)))),
                                    InputField("a", String), InputField("b", Int, default_value=7), InputField("l", ListType(Int), python_name="l_py")])
    seen = []

    def rec(root, c, info, **kw):
        seen.append(kw)
        return kw.get("v")

    def lst(t, d):
        for _ in range(d):
            t = ListType(t)
        return t
    fields = [Field("i%d" % d, String, args=[Argument("x", lst(Int, d))], resolver=rec) for d in (1, 2, 3)] + \
             [Field("e%d" % d, String, args=[Argument("x", lst(Level, d))], resolver=rec) for d in (1, 2)] + \
             [Field("g", String, args=[Argument("x", Grid)], resolver=rec), Field("same", Level, args=[Argument("v", Level)], resolver=rec)]
    schema = Schema(query_type=ObjectType("Query", fields))
    schema.validate()
    internal = {"ZERO": 0, "ONE": 1, "NO": False, "YES": True, "S": "s"}

    def run(doc, variables):
        seen[:] = []
        try:
            r = graphql_blocking(schema, doc, variables=variables)
        except Exception as e:  # noqa
            return ("internal", type(e).__name__), None
        if len(seen) == 1:
            return ("called", seen[0].get("x", seen[0].get("v", "<absent>")) if True else None), r
        return (("rejected",) if r.errors else ("nothing",)), r

    def conforms_list(v, depth, leaf):
        if v is None:
            return True
        if depth == 0:
            return leaf(v)
        return isinstance(v, list) and all(conforms_list(x, depth - 1, leaf) for x in v)
    is_int = lambda v: type(v) is int or isinstance(v, bool)       # noqa: E731
    is_lvl = lambda v: any(type(v) is type(i) and v == i for i in internal.values())  # noqa: E731

    def lit_of(v):
        if v is None:
            return "null"
        if isinstance(v, list):
            return "[" + ", ".join(lit_of(x) for x in v) + "]"
        return str(v)

    # ---- (a) variable too shallow for its position
    cases = []
    for base, tyname, val, leaf in (("i", "Int", 5, is_int), ("e", "Level", "ONE", is_lvl)):
        for d in ((1, 2, 3) if base == "i" else (1, 2)):
            for vd in range(0, d):                          # the variable's own list depth
                for shape in ("[$v]", "[$v, $v]") + (("[[$v]]",) if d >= 2 else ()):
                    lit_depth = shape.count("[") // max(1, shape.count("$v")) if shape != "[$v, $v]" else 1
                    vty = "[" * vd + tyname + "]" * vd
                    vval = val
                    for _ in range(vd):
                        vval = [vval]
                    cases.append((base + str(d), d, leaf, "query($v: %s) { %s%d(x: %s) }" % (vty, base, d, shape), {"v": vval}, vd + lit_depth, shape, vval))
    for field, d, leaf, doc, variables, have, shape, vval in cases:
        out, _ = run(doc, variables)
        ctx.count()
        ctx.stat("nested-var:%s" % out[0])
        detail = {"check": "nested-var", "document": doc, "variables": json.dumps(variables), "outcome": [out[0], repr(out[1:])]}
        if out[0] == "called" and not conforms_list(out[1], d, leaf):
            ctx.fail("nonconforming-argument:not-a-list:variable-in-list-literal",
                     "a variable of a too shallow type inside a list literal reached the resolver unwrapped (argument of list depth %d)" % d,
                     dict(detail, kwargs=repr(out[1])))
        if out[0] == "called":
            # inline equals variable: the same document with the variable's value written in place
            inline = "{ %s(x: %s) }" % (field, shape.replace("$v", lit_of(vval) if not isinstance(vval, str) else vval))
            out2, _ = run(inline, None)
            if out2 != out and not (out2[0] == "called" and out[0] == "called" and out2[1] == out[1]):
                ctx.fail("inline-vs-variable-differs:variable-in-list-literal",
                         "a value written inline and the same value through a variable inside a list literal give the resolver different arguments",
                         dict(detail, inline_document=inline, inline_outcome=[out2[0], repr(out2[1:])]))
            ctx.nontrivial(("nested-var", doc))
    # the same through an input-object field
    for doc, variables, key, d, leaf in (("query($v: Int) { g(x: {rows: [$v]}) }", {"v": 5}, "rows", 2, is_int),
                                         ("query($v: [Int]) { g(x: {rows: [$v, [1]]}) }", {"v": [5]}, "rows", 2, is_int),
                                         ("query($v: Level) { g(x: {lv: [$v]}) }", {"v": "NO"}, "lv", 2, is_lvl),
                                         ("query($v: Int) { g(x: {l: [$v], b: $v}) }", {"v": 5}, "l_py", 1, is_int)):
        out, _ = run(doc, variables)
        ctx.count()
        ctx.stat("nested-var:%s" % out[0])
        if out[0] == "called" and isinstance(out[1], dict) and not conforms_list(out[1].get(key), d, leaf):
            ctx.fail("nonconforming-argument:not-a-list:variable-in-list-literal",
                     "a variable of a too shallow type inside a list literal (input-object field) reached the resolver unwrapped",
                     {"check": "nested-var", "document": doc, "variables": json.dumps(variables), "kwargs": repr(out[1])})

    # ---- (b) an omitted nullable variable inside a literal
    for doc, ref_doc, where in (("query($v: String) { g(x: {a: $v, b: 1}) }", "{ g(x: {b: 1}) }", "object-field"),
                                ("query($v: Int) { g(x: {a: \"s\", b: $v}) }", "{ g(x: {a: \"s\"}) }", "object-field"),
                                ("query($v: Int) { g(x: {l: [1, $v]}) }", "{ g(x: {l: [1, null]}) }", "list-item"),
                                ("query($v: Int) { i1(x: [1, $v]) }", "{ i1(x: [1, null]) }", "list-item"),
                                ("query($v: [Int]) { i2(x: [[1], $v]) }", "{ i2(x: [[1], null]) }", "list-item")):
        out, _ = run(doc, {})
        ref, _ = run(ref_doc, None)
        ctx.count(2)
        ctx.stat("missing-nested-var:%s" % out[0])
        if out != ref:
            ctx.fail("missing-variable-in-literal:%s" % where,
                     "an omitted nullable variable inside a literal does not behave like an absent field / a null item: the field fails",
                     {"check": "nested-var", "document": doc, "variables": "{}", "outcome": [out[0], repr(out[1:])], "same_as_document": ref_doc,
                      "expected": [ref[0], repr(ref[1:])]})

    # ---- (c) enum echo
    for name in internal:
        for doc, variables in (("{ same(v: %s) }" % name, None), ("query($v: Level) { same(v: $v) }", {"v": name})):
            out, r = run(doc, variables)
            ctx.count()
            got = r.data.get("same") if (r is not None and r.data) else None
            if out[0] != "called" or type(out[1]) is not type(internal[name]) or out[1] != internal[name]:
                ctx.fail("nonconforming-argument:enum-not-internal-value:equal-internal-values", "an enum name did not reach the resolver as ITS internal value",
                         {"check": "nested-var", "document": doc, "variables": json.dumps(variables), "outcome": [out[0], repr(out[1:])]})
            elif got != name:
                ctx.fail("enum-echo-differs:equal-internal-values", "an enum argument returned unchanged by its resolver is serialised under another name "
                         "(internal values that compare equal: 0/False, 1/True share one slot of the reverse map)",
                         {"check": "nested-var", "document": doc, "variables": json.dumps(variables), "received": repr(out[1]), "response": got, "expected": name})


def run_stand_in_scalar(ctx):
    """The library's own stand-in scalar (`default_scalar`, what build_schema makes of `scalar J`): a NUMBER written inline reaches the
    resolver as its source text ('5', '1.5'), the same number through a variable as the number - known finding A10."""
    reg = U.fixed_registry()
    spec = [arg("x", N("Any"))]
    world = World(reg, [spec, [arg("x", L(N("Any")))]])
    for si, t in ((0, N("Any")), (1, L(N("Any")))):
        for j in (5, -3, 1.5, [1, "a"], {"k": 2}, "s", True):
            lit = world.pipeline({"field": si, "vardefs": [], "args": [("x", U.ast_of_json(reg, t, j))], "variables": []})
            var = world.pipeline({"field": si, "vardefs": [("v", t, None)], "args": [("x", ("var", "v"))], "variables": [("v", j)]})
            ctx.count(2)
            has_number = any(isinstance(x, (int, float)) and not isinstance(x, bool) for x in (j if isinstance(j, list) else (list(j.values()) if isinstance(j, dict) else [j])))
            ctx.stat("stand-in-scalar:%s:%s" % ("number" if has_number else "other", "same" if lit == var else "differs"))
            if lit != var:
                ctx.fail("inline-vs-variable-differs:stand-in-scalar:%s" % ("number-literal-kept-as-text" if has_number else "other"),
                         "the stand-in scalar hands the resolver different values for the same value inline and through a variable",
                         {"check": "stand-in", "type": ty_str(t), "value": json.dumps(j), "inline": list(lit), "variable": list(var)})


def run_code_defaults(ctx):
    """Schemas built with the PYTHON API whose declared defaults do not conform to their own type (hunt3 C07/1): either the schema is
    refused (`Schema.validate()`, which every entry point calls first) or whatever reaches a resolver conforms. Classes: None at a
    non-null position (argument / input field / list item), Int out of range, wrong kind, a value that is not one of the enum's."""
    from py_gql import graphql_blocking
    from py_gql.exc import SchemaError
    from py_gql.schema import Argument, EnumType, Field, InputField, InputObjectType, Int, ListType, NonNullType, ObjectType, Schema, String
    E = EnumType("CE", [("A", 10), ("B", "bee")])
    cases = [
        ("null-at-nonnull", NonNullType(Int), None), ("null-item-at-nonnull", ListType(NonNullType(Int)), [1, None]),
        ("null-item-at-nonnull", NonNullType(ListType(ListType(NonNullType(String)))), [["a", None]]),
        ("int-out-of-range", Int, 2 ** 40), ("int-out-of-range", ListType(Int), [1, -(2 ** 31) - 1]),
        ("wrong-kind", Int, "5"), ("wrong-kind", ListType(Int), 5), ("wrong-kind", Int, True),
        ("enum-non-member", E, "A"), ("enum-non-member", ListType(E), [10, "zzz"]),
    ]
    reg = {"types": [t for t in U.fixed_registry()["types"] if t["kind"] not in ("input", "enum")] +
           [{"name": "CE", "kind": "enum", "values": [["A", 10], ["B", "bee"]]}]}
    for cls, ty, default in cases:
        for where in ("argument", "input-field"):
            seen = []

            def rec(root, c, info, **kw):
                seen.append(kw)
                return "ok"
            if where == "argument":
                args = [Argument("x", ty, default_value=default)]
            else:
                In = InputObjectType("CIn", [InputField("a", ty, default_value=default), InputField("z", Int)])
                args = [Argument("x", In)]
            try:
                schema = Schema(query_type=ObjectType("Query", [Field("f", String, args=args, resolver=rec)]))
                schema.validate()
            except SchemaError:
                ctx.stat("code-default:%s:refused-by-schema-validation" % cls)
                ctx.count()
                continue
            tyj = World_ty_of(ty)
            docs = ["{ f }"] if where == "argument" else ["{ f(x: {}) }", "{ f(x: {z: 1}) }"]
            if where == "argument" and not (isinstance(ty, NonNullType)):
                docs.append("query($v: %s) { f(x: $v) }" % ty_str(tyj))
            elif where == "argument":
                docs.append("query($v: %s) { f(x: $v) }" % ty_str(nullable(tyj)))
            else:
                docs.append("query($v: CIn = {}) { f(x: $v) }")
            for doc in docs:
                seen[:] = []
                try:
                    graphql_blocking(schema, doc, variables={})
                except Exception as e:  # noqa
                    ctx.stat("code-default:%s:raised:%s" % (cls, type(e).__name__))
                    continue
                ctx.count()
                for kw in seen:
                    v = kw.get("x", "<absent>")
                    if where == "input-field":
                        v = v.get("a", "<absent>") if isinstance(v, dict) else v
                    r = "<absent>" if v == "<absent>" and False else (None if v == "<absent>" else U.conforms(reg, tyj, v))
                    ctx.stat("code-default:%s:%s" % (cls, "conforms" if not r else "nonconforming"))
                    if r:
                        ctx.fail("nonconforming-argument:unchecked-code-default:%s" % cls,
                                 "a declared default of a code-built schema that does not conform to its own type reached the resolver (%s)" % r,
                                 {"check": "code-default", "class": cls, "where": where, "type": ty_str(tyj), "default": repr(default), "document": doc,
                                  "kwargs": repr(kw)})


def run_default_shapes(ctx):
    """Named probes (no randomness) for three ways a DECLARED DEFAULT reaches the resolver in another shape than the same value written
    in the request - "input objects are dictionaries keyed by the configured Python names with declared defaults filled in", "unknown
    input fields are rejected", "inline or through a variable: the same arguments":
      A11  code-first: `InputField("inner", Inner, default_value={})` with `Inner.x` defaulting to 3 is handed over as declared
           ({'inner': {}}), the schema built from the equivalent SDL completes it ({'inner': {'x': 3}});
      T14  after VisibilitySchemaTransform hid the input field `secret`, the defaults that mention it keep the key (C14's finding,
           seen here at the resolver);
      A12  `scalar Date` implemented by a plain SchemaVisitor through transform_schema: SDL defaults stay the stand-in's strings."""
    import datetime
    from py_gql import build_schema, graphql_blocking
    from py_gql.schema import Argument, Field, InputField, InputObjectType, Int, ObjectType, ScalarType, Schema, SchemaVisitor
    from py_gql.schema.transforms import VisibilitySchemaTransform, transform_schema
    seen = []

    def rec(root, c, info, **kw):
        seen.append(kw)
        return 1

    def ask(schema, doc, variables=None):
        seen[:] = []
        try:
            r = graphql_blocking(schema, doc, variables=variables)
        except Exception as e:  # noqa
            return ("raised", type(e).__name__)
        if r.errors or not seen:
            return ("errors", [str(e)[:80] for e in (r.errors or [])])
        return ("ok", seen[0])

    def probe(sig, what, name, build, omitted_doc, inline_doc, var_doc, variables, key_ok=None):
        """the arguments of the omitted form (declared defaults) must equal those of the same values written inline / sent as variables"""
        try:
            schema = build()
        except Exception as e:  # noqa
            ctx.stat("default-shape:%s:schema-refused:%s" % (name, type(e).__name__))
            return
        a, b, c = ask(schema, omitted_doc), ask(schema, inline_doc), ask(schema, var_doc, variables)
        ctx.count(3)
        ctx.nontrivial(("default-shape", name))
        bad = not (a[0] == b[0] == c[0] == "ok" and a[1] == b[1] == c[1])
        if not bad and key_ok is not None:
            bad = not key_ok(a[1])
        ctx.stat("default-shape:%s:%s" % (name, "differs" if bad else "agrees"))
        if bad:
            ctx.fail(sig, what + " - omitted: %r, inline: %r, variables: %r" % (a, b, c),
                     {"check": "default-shape", "name": name, "omitted": repr(a), "inline": repr(b), "variables": repr(c)})

    # A11 ------------------------------------------------------------------------------------------------------------
    def code_first():
        inner = InputObjectType("Inner", [InputField("x", Int, default_value=3)])
        outer = InputObjectType("Outer", [InputField("inner", inner, default_value={}), InputField("k", Int)])
        s = Schema(ObjectType("Query", [Field("f", Int, [Argument("o", outer, default_value={})], resolver=rec)]))
        s.validate()
        return s
    probe("incomplete-default-handed-over:code-first:nested-input-object",
          "a code-first input-object default that omits a defaulted field is handed to the resolver as declared (the nested declared default is "
          "not filled in), the same value written in the request is completed", "code-first-nested", code_first,
          "{ f }", "{ f(o: {inner: {}}) }", "query($o: Outer) { f(o: $o) }", {"o": {"inner": {}}})

    # T14 ------------------------------------------------------------------------------------------------------------
    class HideSecret(VisibilitySchemaTransform):
        def is_input_field_visible(self, typename, fieldname):
            return fieldname != "secret"

    def hidden():
        s = transform_schema(build_schema("input In { a: Int = 1 secret: Int = 2 } type Query { f(i: In = {a: 7, secret: 9}, l: [In!] = [{a: 1}]): Int }"),
                             HideSecret())
        s.register_resolver("Query", "f", rec)
        return s
    probe("hidden-input-field-in-default:resolver-receives-unknown-key",
          "after VisibilitySchemaTransform hid In.secret the declared defaults still carry the key: the resolver receives a key that is no field of "
          "the type (the same value inline is rejected, the reported default inline gives other arguments)", "hidden-input-field", hidden,
          "{ f }", "{ f(i: {a: 7}, l: [{a: 1}]) }", "query($i: In, $l: [In!]) { f(i: $i, l: $l) }", {"i": {"a": 7}, "l": [{"a": 1}]},
          key_ok=lambda kw: "secret" not in kw.get("i", {}) and all("secret" not in x for x in kw.get("l", [])))

    # A12 ------------------------------------------------------------------------------------------------------------
    class ImplementDate(SchemaVisitor):
        def on_scalar(self, scalar):
            if scalar.name == "Date":
                return ScalarType("Date", serialize=lambda d: d.isoformat(), parse=lambda x: datetime.date.fromisoformat(x))
            return scalar

    def implemented():
        s = transform_schema(build_schema('scalar Date input Range { start: Date = "2020-01-01" } '
                                          'type Query { f(day: Date = "2020-01-02", days: [Date] = ["2020-01-03"], r: Range = {}): Int }'), ImplementDate())
        s.register_resolver("Query", "f", rec)
        return s
    probe("default-differs-from-inline:scalar-implemented-by-visitor",
          "a scalar implemented by a SchemaVisitor through transform_schema: the SDL defaults reach the resolver as the stand-in's strings, the same "
          "literals inline / as variables as values of the scalar", "visitor-scalar-defaults", implemented,
          "{ f }", '{ f(day: "2020-01-02", days: ["2020-01-03"], r: {start: "2020-01-01"}) }',
          "query($d: Date, $ds: [Date], $r: Range) { f(day: $d, days: $ds, r: $r) }", {"d": "2020-01-02", "ds": ["2020-01-03"], "r": {"start": "2020-01-01"}})


def run_enum_identity(ctx):
    """Enum members whose internal value has IDENTITY semantics (a plain object: hashable, no __eq__, mutable) or cannot be copied at all
    (a lock): "enum names are replaced by their internal values" means the resolver gets THAT object - not a copy of it - inline, through a
    variable, as a list item, inside an input object, from a declared default, and on every one of several executions of the same field
    node (list of parents). Found by an outside probe (round-4 seeder note C07/1): the per-execution argument copy deep-copied leaves.
    Named probe, no randomness."""
    import threading
    from py_gql import graphql_blocking
    from py_gql.schema import Argument, EnumType, Field, InputField, InputObjectType, ListType, NonNullType, ObjectType, Schema, String

    class Obj(object):
        pass
    for kind, internal in (("plain-object", Obj()), ("uncopyable-lock", threading.Lock())):
        other = Obj()
        E = EnumType("IE", [("A", internal), ("B", other)])
        In = InputObjectType("IIn", [InputField("e", E), InputField("d", E, default_value=internal), InputField("l", ListType(NonNullType(E)))])
        seen = []

        def rec(root, c, info, **kw):
            seen.append(kw)
            return "ok"
        Item = ObjectType("IItem", [Field("g", String, args=[Argument("v", E)], resolver=rec)])
        schema = Schema(query_type=ObjectType("Query", [
            Field("f", String, args=[Argument("v", E), Argument("l", ListType(E)), Argument("i", In), Argument("d", E, default_value=internal)], resolver=rec),
            Field("items", ListType(Item), resolver=lambda *a, **k: [{}, {}, {}]),
        ]))
        routes = [
            ("inline", "{ f(v: A) }", {}, lambda kw: [kw.get("v")]),
            ("variable", "query($v: IE) { f(v: $v) }", {"v": "A"}, lambda kw: [kw.get("v")]),
            ("list-item", "{ f(l: [A, A]) }", {}, lambda kw: list(kw.get("l") or [None])),
            ("list-variable", "query($l: [IE]) { f(l: $l) }", {"l": ["A"]}, lambda kw: list(kw.get("l") or [None])),
            ("input-field", "{ f(i: {e: A, l: [A]}) }", {}, lambda kw: [(kw.get("i") or {}).get("e")] + list((kw.get("i") or {}).get("l") or [None])),
            ("input-variable", "query($i: IIn) { f(i: $i) }", {"i": {"e": "A"}}, lambda kw: [(kw.get("i") or {}).get("e"), (kw.get("i") or {}).get("d")]),
            ("argument-default", "{ f }", {}, lambda kw: [kw.get("d")]),
            ("repeated-node", "{ items { g(v: A) } }", {}, lambda kw: [kw.get("v")]),
        ]
        for route, doc, variables, pick in routes:
            seen[:] = []
            ctx.count()
            try:
                res = graphql_blocking(schema, doc, variables=variables)
                errs = [str(e) for e in (res.errors or [])]
            except Exception as e:  # noqa
                ctx.fail("non-coercion-exception:%s:enum-identity:%s:%s" % (type(e).__name__, kind, route),
                         "a request whose enum argument maps to a declared internal value raised out of the entry point",
                         {"check": "enum-identity", "kind": kind, "route": route, "document": doc, "variables": variables, "error": repr(e)})
                continue
            got = [x for kw in seen for x in pick(kw)]
            want = 3 if route == "repeated-node" else 1
            ctx.stat("enum-identity:%s:%s" % (kind, route))
            if errs or len(seen) < want or not got or any(x is not internal for x in got):
                ctx.fail("nonconforming-argument:enum-internal-value-not-identical:%s:%s" % (kind, route),
                         "the resolver did not receive the enum member's declared internal value itself (a copy, or an error instead)",
                         {"check": "enum-identity", "kind": kind, "route": route, "document": doc, "variables": variables,
                          "errors": errs, "resolver_calls": len(seen), "identical": [x is internal for x in got]})
            else:
                ctx.nontrivial(("enum-identity", kind, route))


def World_ty_of(t):
    from py_gql.schema import ListType, NonNullType
    if isinstance(t, ListType):
        return L(World_ty_of(t.type))
    if isinstance(t, NonNullType):
        return NN(World_ty_of(t.type))
    return N(t.name)


def run_stand_in_variables(ctx):
    """A variable INSIDE a structured literal at the stand-in scalar (fix C06-H7): it stands for its coerced value, and for None when it has
    none (there are no declared fields whose default could apply, so this is not known finding A9's situation). Full entry point, compared
    with the model; the resolver must be called with exactly the variable's value inside."""
    reg = U.fixed_registry()
    spec = [arg("x", N("Any"))]
    world = World(reg, [spec, [arg("e", N("E"))], [arg("i", N("In1"))]])      # the variable types must be reachable in the schema
    items, impl, docs = [], [], []
    for vt, val in ((N("Int"), 3), (N("String"), "s"), (L(N("Int")), [1, 2]), (N("E"), "B"), (N("In1"), {"a": 1})):
        for lit in (("obj", [("a", ("var", "v")), ("b", ("int", 1))]), ("list", [("var", "v"), ("str", "k")]), ("obj", [("o", ("list", [("var", "v")]))])):
            for variables in ([("v", val)], []):
                case = {"field": 0, "vardefs": [("v", vt, None)], "args": [("x", lit)], "variables": variables}
                out = world.pipeline(case)
                d = world.direct(case)
                ctx.count()
                ctx.stat("stand-in-variable:%s" % out[0])
                if out[0] == "called" and d != ("ok", out[1]):
                    ctx.fail("pipeline-vs-direct:stand-in-variable", "kwargs seen by the resolver differ from coerce_argument_values called directly",
                             {"check": "stand-in", "document": world.doc_text(case), "kwargs": out[1], "direct": list(d)})
                items.append(case_wire(case, spec)); impl.append(d); docs.append(world.doc_text(case))
    if ctx.model_ok:
        for it, ans, d, doc in zip(items, ask_model(ctx, reg, items), impl, docs):
            mo = model_outcome(ans)
            if not same_outcome(mo, d):
                ctx.fail("corr:exec:stand-in-variable:impl-%s-model-%s" % (d[0], mo[0]), "variable inside a literal at the stand-in scalar: model and implementation differ",
                         {"reg": U.reg_to_jsonable(reg), "request": it, "impl": list(d), "model": list(mo), "document": doc}, kind="correspondence")


def run_extremes(ctx):
    """JSON values at the edge: ±inf, NaN, integers far beyond a double, and containers nested hundreds / thousands deep through a
    RECURSIVE input object — sent through `variables` to every kind of position and to `coerce_value` directly. The statement's
    clause: the input is accepted or REJECTED; no exception other than a coercion error escapes (fixes A6, A7). Deep values are
    not compared with the model (Python's recursion limit is environmental); everything else is, in the ordinary streams."""
    from py_gql import graphql_blocking
    from py_gql.exc import CoercionError, InvalidValue, VariablesCoercionError
    from py_gql.utilities import coerce_value, coerce_variable_values
    from py_gql.lang import parse
    reg = U.fixed_registry()
    names = ["Int", "Float", "String", "Boolean", "ID", "Any", "Even", "E", "Rec", "In2"]
    types = [N(n) for n in names] + [NN(N("Int")), L(N("Float")), L(NN(N("Rec"))), N("M1")]
    specs = [[arg("x", t)] for t in types]
    world = World(reg, specs)

    def deep(kind, depth):
        if kind == "rec-next":
            v = {"v": 1}
            for _ in range(depth):
                v = {"next": v}
            return v
        if kind == "rec-kids":
            v = {"v": 1}
            for _ in range(depth):
                v = {"kids": [v]}
            return v
        if kind == "m1-m2":
            v = {"x": "leaf"}
            for i in range(depth):
                v = {"m": v}
            return v
        v = 1
        for _ in range(depth):
            v = [v]
        return v
    scal = [float("inf"), float("-inf"), float("nan"), 10 ** 400, -(10 ** 400), 2 ** 1024, 10 ** 4000, "1e999", "inf", "9" * 4000]
    for si, t in enumerate(types):
        vals = list(scal) + [[x] for x in scal[:4]]
        for kind in ("rec-next", "rec-kids", "m1-m2", "list"):
            for depth in (40, 450, 600, 3000) if ctx.tier == "quick" else (40, 300, 450, 520, 600, 1000, 3000, 20000):
                vals.append(deep(kind, depth))
        for j in vals:
            ctx.count(2)
            label = "deep" if is_deep(j) else jkind(j)
            # (1) coerce_value directly
            try:
                coerce_value(j, world.ty_py(t))
                out = "ok"
            except (CoercionError, InvalidValue):
                out = "rejected"
            except BaseException as e:  # noqa
                out = type(e).__name__
                if out != "RecursionError" and out != "SampleScalarBoom":     # RecursionError of the bare function is reported by its callers
                    ctx.fail("non-coercion-exception:%s:coerce_value:%s@%s" % (out, label, shape(reg, t)),
                             "coerce_value let an exception other than CoercionError escape for a JSON value",
                             {"check": "extreme", "entry": "coerce_value", "type": ty_str(t), "value_kind": label, "value": describe(j), "exception": out})
            ctx.stat("extreme:coerce_value:%s" % out)
            # (2) coerce_variable_values and (3) the entry point
            doc = "query($v: %s) { f%d(x: $v) }" % (ty_str(t), si)
            for entry in ("coerce_variable_values", "graphql_blocking"):
                world.seen[:] = []
                try:
                    if entry == "coerce_variable_values":
                        coerce_variable_values(world.schema, parse(doc).definitions[0], {"v": j})
                        out = "ok"
                    else:
                        r = graphql_blocking(world.schema, doc, variables={"v": j})
                        out = "called" if world.seen else ("rejected" if r.errors else "nothing")
                except VariablesCoercionError:
                    out = "rejected"
                except BaseException as e:  # noqa
                    out = type(e).__name__
                    if out != "SampleScalarBoom":
                        ctx.fail("non-coercion-exception:%s:%s:%s@%s" % (out, entry, label, shape(reg, t)),
                                 "an exception other than a coercion error escaped %s for a JSON variable value" % entry,
                                 {"check": "extreme", "entry": entry, "type": ty_str(t), "value_kind": label, "value": describe(j), "exception": out,
                                  "document": doc})
                ctx.stat("extreme:%s:%s" % (entry, out))
                if out in ("called", "rejected"):
                    ctx.nontrivial(("extreme", entry, ty_str(t), describe(j)))


def is_deep(j):
    v = j
    for _ in range(31):
        if isinstance(v, dict) and v:
            v = next(iter(v.values()))
        elif isinstance(v, list) and v:
            v = v[0]
        else:
            return False
    return True


def describe(j):
    """replayable description of an extreme value (deep containers by constructor, not by text)"""
    if is_deep(j):
        d, v = 0, j
        kind = None
        while isinstance(v, (list, dict)) and v:
            if isinstance(v, dict):
                k = next(iter(v))
                kind = kind or {"next": "rec-next", "kids": "rec-kids", "m": "m1-m2"}.get(k, "obj")
                v = v[k]
                if isinstance(v, list) and kind == "rec-kids":
                    v = v[0]
            else:
                kind = kind or "list"
                v = v[0]
            d += 1
        return {"deep": kind, "depth": d}
    if isinstance(j, float):
        return {"float": repr(j)}
    if isinstance(j, int) and not isinstance(j, bool) and abs(j) > 2 ** 64:
        return {"int_pow": [len(str(abs(j))), j < 0]}
    return {"json": json.dumps(j)}


def direct_bad(chk, world, fn, t, j):
    """does the direct oracle still fail for fn on (t, j)? (used for shrinking)"""
    reg = chk.reg
    out = world.coerce_value(t, j) if fn == "coerce_value" else world.value_from_ast(t, U.ast_of_json(reg, t, j), None)
    if out[0] == "internal":
        return False
    ds = U.defects(reg, t, j)
    if fn == "value_from_ast":
        if not U.natural(reg, t, j):
            return False
    if out[0] == "ok":
        return bool(U.conforms(reg, t, dict_from_wire(out[1]))) or bool(ds)
    return U.must_accept(reg, t, j)


def names_of(reg):
    return [t["name"] for t in reg["types"]]


def _timed(ctx, name, fn, *a, **kw):
    """run one stream and record its wall time (evidence: where the budget of a tier goes)"""
    t0 = time.time()
    try:
        return fn(*a, **kw)
    finally:
        ctx.extra["seconds:" + name] = round(ctx.extra.get("seconds:" + name, 0) + time.time() - t0, 1)


def run(ctx):
    quick = ctx.tier == "quick"
    rng = ctx.rng
    # corpus first
    _timed(ctx, "corpus", run_corpus, ctx)
    _timed(ctx, "extremes", run_extremes, ctx)
    _timed(ctx, "cross-kind", run_cross_kind, ctx)
    _timed(ctx, "stand-in", run_stand_in_scalar, ctx)
    _timed(ctx, "stand-in", run_stand_in_variables, ctx)
    from corr import C07_regok
    _timed(ctx, "regok-witness", C07_regok.run, ctx)
    _timed(ctx, "code-defaults", run_code_defaults, ctx)
    _timed(ctx, "default-shapes", run_default_shapes, ctx)
    _timed(ctx, "enum-identity", run_enum_identity, ctx)
    _timed(ctx, "nested-vars", run_nested_vars, ctx)
    _timed(ctx, "collisions", run_collisions, ctx)
    _timed(ctx, "pynum", run_pynum, ctx, ctx.n(2000, 15000))
    # the hand-written registry: all type expressions up to 3 wrappers (quick: all <=2, a sample of depth 3)
    reg = U.fixed_registry()
    allt = U.all_types(names_of(reg), 3)
    if quick:
        small = U.all_types(names_of(reg), 2)
        rest = [t for t in allt if t not in small]
        types = small + rng.sample(rest, 20)
    else:
        types = allt
    ctx.extra["type_expressions_fixed_registry"] = len(types)
    _timed(ctx, "fixed-registry", run_registry, ctx, reg, "fixed", types, per_type=8 if quick else 14, depth=2 if quick else 3,
           max_cases=1400 if quick else 13000, n_abstract=4 if quick else 16, n_trace=100 if quick else 1200)
    # seeded random registries
    n = ctx.n(2, 8)       # thorough: 8 registries x 1500 cases (was 10; the tier ran 7 min, see seconds:* in the evidence)
    for i in range(n):
        if ctx.time_left() < (15 if quick else 60):
            ctx.notes.append("stopped before random registry %d (time)" % i)
            break
        r = U.gen_registry(rng)
        at = U.all_types(names_of(r), 3)
        types = rng.sample(at, min(len(at), 30 if quick else 80))
        _timed(ctx, "random-registries", run_registry, ctx, r, "rnd%d" % i, types, per_type=6 if quick else 10, depth=2,
               max_cases=250 if quick else 1500, n_abstract=2 if quick else 6, n_trace=30 if quick else 200)
    # schemas with a past: used, then derived (visibility / camel-case transforms, `fields` setter, clone), then checked
    from corr import C07_history, C07_tree
    _timed(ctx, "tree", C07_tree.run, ctx, sys.modules[__name__])
    _timed(ctx, "history", C07_history.run, ctx, sys.modules[__name__])
    ctx.extra["int_range_test_source"] = int_range_test()[2]
    ctx.extra["float_finiteness_guard_source"] = float_guard()[1] or ["<none>"]


def run_corpus(ctx):
    from common import CORPUS
    d = CORPUS / "C07"
    if not d.exists():
        return
    for f in sorted(d.glob("*.json")):
        data = json.loads(f.read_text())
        ok = replay(ctx, {"input": data}, record=True)
        ctx.count()
        ctx.stat("corpus:%s" % ("ok" if ok else "fails"))


def replay(ctx, data, record=False):
    """Re-run one recorded input against the real code; True = the statement holds on it."""
    inp = data.get("input", data)
    if "no_longer_checks" in data:
        return True
    if inp.get("check") == "extreme":
        return replay_extreme(inp)
    if inp.get("check") == "code-default":
        c2 = type(ctx)(ctx.prop, ctx.tier, ctx.seed)
        run_code_defaults(c2)
        return not any(f["signature"] == data.get("signature") for f in c2.found)
    if inp.get("check") == "default-shape":
        c2 = type(ctx)(ctx.prop, ctx.tier, ctx.seed)
        run_default_shapes(c2)
        return not any(f["signature"] == data.get("signature") for f in c2.found)
    if inp.get("check") == "enum-identity":
        c2 = type(ctx)(ctx.prop, ctx.tier, ctx.seed)
        run_enum_identity(c2)
        return not any(f["signature"] == data.get("signature") for f in c2.found)
    if inp.get("check") == "stand-in":
        c2 = type(ctx)(ctx.prop, ctx.tier, ctx.seed)
        run_stand_in_scalar(c2)
        return not any(f["signature"] == data.get("signature") for f in c2.found)
    if inp.get("check") == "regok-witness":
        from corr import C07_regok
        c2 = type(ctx)(ctx.prop, ctx.tier, ctx.seed)
        C07_regok.run(c2)
        return not any(f["signature"] == data.get("signature") for f in c2.found)
    if inp.get("check") == "nested-var":
        c2 = type(ctx)(ctx.prop, ctx.tier, ctx.seed)
        c2.model_ok = False
        run_nested_vars(c2)
        sig = data.get("signature")
        return not any(f["signature"] == sig for f in c2.found)
    if inp.get("check") == "derivation-refused":
        from corr import C07_history
        return C07_history.replay_det_refused(sys.modules[__name__], inp)
    if inp.get("check") == "declaration":
        from corr import C07_history
        h = inp["history"]
        src_reg = U.reg_from_jsonable(h["source_reg"])
        _, _, _ = C07_history.replay_world(sys.modules[__name__], dict(h, plan=[]))
        src, _, _ = C07_history.replay_world(sys.modules[__name__], dict(h, plan=[]))
        derived = C07_history.apply_plan(src.schema, h["plan"])
        return not C07_history.declaration_changes(src_reg, C07_history.reg_from_schema(derived))
    reg = U.reg_from_jsonable(inp["reg"])
    before = sum(f["count"] for f in ctx.found if f["kind"] == "property")
    chk = Checker(ctx, reg, "replay")
    if inp.get("check") == "tree":
        from corr import C07_tree
        return C07_tree.replay(ctx, sys.modules[__name__], inp)
    if inp.get("check") == "trace":
        from py_gql import graphql_blocking
        specs = [[dict(a, type=U.ty_from_json(a["type"]), default=None if a["default"] is None else [dict_from_wire(a["default"]["v"])]) for a in sp]
                 for sp in inp["specs"].values()]
        # rebuild the fields under their original numbers
        import re as _re
        nums = sorted({int(m) for m in _re.findall(r": f(\d+)", inp["document"])})
        keyspec = {}
        for m in _re.finditer(r"(k\d+): f(\d+)", inp["document"]):
            keyspec[int(m.group(2))] = inp["specs"][m.group(1)]
        allspecs = [[arg("x", N("Int"))] for _ in range((max(nums) + 1) if nums else 1)]
        for num, sp in keyspec.items():
            allspecs[num] = [dict(a, type=U.ty_from_json(a["type"]), default=None if a["default"] is None else [dict_from_wire(a["default"]["v"])]) for a in sp]
        world = World(reg, allspecs)
        world.seen_calls[:] = []
        try:
            graphql_blocking(world.schema, inp["document"], variables=json.loads(inp["variables"]))
        except Exception:  # noqa
            pass
        calls = [[k_, U.pv_canon(U.pv_wire(kw))] for k_, kw in world.seen_calls]
        for key in inp.get("expect_reject", {}):
            if [c for c in calls if key == "*" or c[0] == key]:
                return False
        for k_, kw in calls:
            sp = [dict(a_, type=U.ty_from_json(a_["type"]), default=None if a_["default"] is None else [dict_from_wire(a_["default"]["v"])]) for a_ in inp["specs"][k_]]
            if check_kwargs(reg, sp, kw):
                return False
        return True
    elif inp.get("check") == "abstract":
        def unspec(sp):
            return [dict(a, type=U.ty_from_json(a["type"]), default=None if a["default"] is None else [dict_from_wire(a["default"]["v"])]) for a in sp]
        triple = tuple(unspec(x) for x in inp["abstract"])
        world = World(reg, [[arg("x", N("Int"))]], [triple])
        c = inp["case"]
        case = dict(c, k=0, vardefs=[(n, U.ty_from_json(t), None if d is None else U.lit_from_wire(d)) for n, t, d in c["vardefs"]],
                    args=[(n, U.lit_from_wire(l)) for n, l in c["args"]], variables=[tuple(x) for x in c["variables"]])
        abstract_case(ctx, world, reg, "replay", 0, triple, case, [], [])
    elif inp.get("check") == "direct":
        t = parse_ty(inp["type"])
        j = json.loads(inp["value"])
        if "history" in inp:
            from corr import C07_history
            world, reg, _ = C07_history.replay_world(sys.modules[__name__], inp["history"])
            chk = Checker(ctx, reg, "replay")
        else:
            world = World(reg, [[arg("x", N("Int"))]])
        lit = U.ast_of_json(reg, t, j)
        direct_function_oracle(ctx, chk, world, t, j, lit, world.coerce_value(t, j), world.value_from_ast(t, lit, None))
    else:
        g = group_from_jsonable(inp["group"])
        spec = [dict(a, type=U.ty_from_json(a["type"]), default=None if a["default"] is None else [dict_from_wire(a["default"]["v"])]) for a in inp["spec"]]
        if "history" in inp:
            from corr import C07_history
            world, reg, dspecs = C07_history.replay_world(sys.modules[__name__], inp["history"])
            chk = Checker(ctx, reg, "replay")
            fi = inp.get("field_index", 0)
            spec = dspecs[fi]
            g["spec"] = fi
            for c in g["cases"].values():
                c["field"] = fi
        else:
            world = World(reg, [spec])
        outcomes = {route: world.pipeline(case) for route, case in g["cases"].items()}
        chk.check_group(world, spec, g, outcomes)
    after = sum(f["count"] for f in ctx.found if f["kind"] == "property")
    ok = after == before
    if not record:
        del ctx.found[:]
    return ok


def replay_extreme(inp):
    from py_gql import graphql_blocking
    from py_gql.exc import CoercionError, InvalidValue, VariablesCoercionError
    from py_gql.lang import parse
    from py_gql.utilities import coerce_value, coerce_variable_values
    reg = U.fixed_registry()
    t = parse_ty(inp["type"])
    world = World(reg, [[arg("x", t)]])
    d = inp["value"]
    if "deep" in d:
        v = 1 if d["deep"] == "list" else ({"x": "leaf"} if d["deep"] == "m1-m2" else {"v": 1})
        for _ in range(d["depth"] - (0 if d["deep"] == "list" else 1)):
            v = [v] if d["deep"] == "list" else ({"next": v} if d["deep"] == "rec-next" else ({"kids": [v]} if d["deep"] == "rec-kids" else {"m": v}))
        j = v
    elif "float" in d:
        j = float(d["float"])
    elif "int_pow" in d:
        j = (10 ** (d["int_pow"][0] - 1)) * (-1 if d["int_pow"][1] else 1)
    else:
        j = json.loads(d["json"])
    try:
        if inp["entry"] == "coerce_value":
            coerce_value(j, world.ty_py(t))
        elif inp["entry"] == "coerce_variable_values":
            coerce_variable_values(world.schema, parse("query($v: %s) { f0(x: $v) }" % inp["type"]).definitions[0], {"v": j})
        else:
            graphql_blocking(world.schema, "query($v: %s) { f0(x: $v) }" % inp["type"], variables={"v": j})
    except (CoercionError, InvalidValue, VariablesCoercionError):
        return True
    except RecursionError:
        return inp["entry"] == "coerce_value"
    except BaseException:  # noqa
        return False
    return True


def parse_ty(s):
    if s.endswith("!"):
        return NN(parse_ty(s[:-1]))
    if s.startswith("["):
        return L(parse_ty(s[1:-1]))
    return N(s)

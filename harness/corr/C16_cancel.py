# -*- coding: utf-8 -*-
"""
C16, named probe `abort-nested-coroutines` (hunt round 2, finding N7 / report C16-1).

CLASS (deterministic, every run): `py_gql.graphql()` itself (AsyncIORuntime on a private loop, ONLY coroutine
resolvers, no thread, no future completed by the harness: the schedule is the number of loop ticks each resolver
sleeps), a root field `abort` that ends the request (ExecutionError -> a response with data null), and a sibling
`a` whose value is an object / a list of objects / a nested object with coroutine-resolved children; one shape with the aborting field BELOW the root
(`{ w { abort a { x y } } }`). All offsets
`ticks(a) - ticks(abort)` in -1 .. 4 for `ticks(abort)` in 0 .. 3, both document orders, leaves that return at once
or after one tick. The dangerous schedule is offset = +1 (..+depth): the children of `a` have had their start hook,
their tasks exist but did not run their first step when the root gather cancels `a`.

ORACLE = the statement: every field whose start hook fired gets exactly one end hook with its path, start first, and
(as everywhere in C16) every field hook lies inside the execution stage. Nothing else is compared.

SIGNATURE: `c16:abort-nested-coroutines:asyncio:<role>:<what>`, role in {abort, parent, child} = which field of the
shape misses the hook, what in {end-missing, end-twice, start-twice, end-before-start, after-execution-end}.
"""
import asyncio
import warnings

NAME = "abort-nested-coroutines"

SDL = """
type B { x: Int y: Int }
type A { x: Int y: Int b: B }
type W { abort: Int a: A }
type Query { abort: Int a: A l: [A] w: W }
"""

SHAPES = {
    "object": ("{ abort a { x y } }", "a"),
    "object-abort-last": ("{ a { x y } abort }", "a"),
    "nested": ("{ abort a { b { x y } y } }", "a"),
    "list": ("{ abort l { x y } }", "l"),
    "abort-below-root": ("{ w { abort a { x y } } }", "a"),
}


def variants(tier="quick"):
    for shape in ("object", "object-abort-last", "nested", "list", "abort-below-root"):
        for abort_ticks in (0, 1, 2, 3):
            for offset in (-1, 0, 1, 2, 3, 4):
                a_ticks = abort_ticks + offset
                if a_ticks < 0:
                    continue
                for leaf_ticks in (0, 1):
                    if leaf_ticks and (shape in ("object-abort-last", "abort-below-root") or abort_ticks > 1) and tier == "quick":
                        continue
                    yield [shape, abort_ticks, a_ticks, leaf_ticks]


def run_one(shape, abort_ticks, a_ticks, leaf_ticks):
    """-> (events, response dict or None, error string or None)"""
    from py_gql import build_schema, graphql
    from py_gql.exc import ExecutionError
    from py_gql.execution import Instrumentation

    doc, parent = SHAPES[shape]
    events = []

    class Rec(Instrumentation):
        def on_execution_start(self):
            events.append(("exec+", ()))

        def on_execution_end(self):
            events.append(("exec-", ()))

        def on_field_start(self, root, context, info):
            events.append(("+", tuple(info.path)))

        def on_field_end(self, root, context, info):
            events.append(("-", tuple(info.path)))

    async def ticks(n):
        for _ in range(n):
            await asyncio.sleep(0)

    async def abort(root, ctx, info):
        await ticks(abort_ticks)
        raise ExecutionError("stop")

    async def obj(root, ctx, info):
        await ticks(a_ticks)
        return {}

    async def lst(root, ctx, info):
        await ticks(a_ticks)
        return [{}, {}]

    async def inner(root, ctx, info):
        await ticks(leaf_ticks)
        return {}

    async def leaf(root, ctx, info):
        await ticks(leaf_ticks)
        return 1

    schema = build_schema(SDL)
    schema.register_resolver("Query", "abort", abort)
    schema.register_resolver("Query", "a", obj)
    schema.register_resolver("Query", "l", lst)
    schema.register_resolver("Query", "w", inner)
    schema.register_resolver("W", "abort", abort)
    schema.register_resolver("W", "a", obj)
    schema.register_resolver("A", "b", inner)
    for t in ("A", "B"):
        for f in ("x", "y"):
            schema.register_resolver(t, f, leaf)

    loop = asyncio.new_event_loop()
    try:
        with warnings.catch_warnings():
            warnings.simplefilter("ignore", RuntimeWarning)
            try:
                result = loop.run_until_complete(asyncio.wait_for(graphql(schema, doc, instrumentation=Rec()), 20))
            except asyncio.TimeoutError:
                return events, None, "pending"
            except Exception as err:  # noqa  -- an escaping exception is no outcome (outside the statement)
                return events, None, "raised:" + type(err).__name__
            return events, result.response(), None
    finally:
        try:
            loop.run_until_complete(loop.shutdown_asyncgens())
        except Exception:  # noqa
            pass
        loop.close()


def role_of(path, shape):
    if path[-1] == "abort":
        return "abort"
    if shape == "abort-below-root":
        path = path[1:]
        if not path:
            return "wrapper"
    if len(path) == 1:
        return "parent"
    return "child"


def judge(events, shape):
    """-> sorted list of (role, what, path)"""
    bad = set()
    paths = []
    for k, p in events:
        if k in "+-" and p not in paths:
            paths.append(p)
    for p in paths:
        st = events.count(("+", p))
        en = events.count(("-", p))
        role = role_of(p, shape)
        if st > 1:
            bad.add((role, "start-twice", p))
        if en > st or en > 1:
            bad.add((role, "end-twice" if st else "end-without-start", p))
        if st >= 1 and en == 0:
            bad.add((role, "end-missing", p))
        if st == 1 and en == 1 and events.index(("+", p)) > events.index(("-", p)):
            bad.add((role, "end-before-start", p))
    if ("exec-", ()) in events:
        close = events.index(("exec-", ()))
        for k, p in events[close + 1:]:
            if k in "+-":
                bad.add((role_of(p, shape), "after-execution-end", p))
    return sorted(bad, key=lambda b: (b[0], b[1], [str(x) for x in b[2]]))


def probe(ctx, only=None):
    ok = True
    reported = {}
    runs = 0
    for v in ([only] if only is not None else variants(ctx.tier)):
        shape, abort_ticks, a_ticks, leaf_ticks = v
        ctx.count()
        runs += 1
        events, response, err = run_one(shape, abort_ticks, a_ticks, leaf_ticks)
        if err is not None:         # no outcome / never completes: C08's subject
            ctx.stat("probe:%s:%s" % (NAME, err))
            continue
        ctx.nontrivial((NAME, shape, abort_ticks, a_ticks, leaf_ticks))
        ctx.stat("probe:%s:offset=%+d" % (NAME, a_ticks - abort_ticks))
        bad = judge(events, shape)
        if not bad:
            continue
        ok = False
        for role, what, _ in bad:
            sig = "c16:%s:asyncio:%s:%s" % (NAME, role, what)
            if sig in reported:
                reported[sig] += 1
                continue
            reported[sig] = 1
            mine = [b for b in bad if b[0] == role and b[1] == what]
            ctx.fail(sig,
                     "graphql() on asyncio, coroutine resolvers only, %s: `abort` raises ExecutionError after %d loop ticks, its "
                     "sibling returns after %d ticks (leaves: %d): %s for %s; response %s; hooks %s"
                     % (SHAPES[shape][0], abort_ticks, a_ticks, leaf_ticks, what, [".".join(map(str, b[2])) for b in mine], response,
                        ["%s%s" % (k, ".".join(map(str, p))) for k, p in events]),
                     {"probe": NAME, "only": [shape, abort_ticks, a_ticks, leaf_ticks]})
    ctx.extra["abort_nested_coroutines_runs"] = ctx.extra.get("abort_nested_coroutines_runs", 0) + runs
    if reported:
        ctx.extra["abort_nested_coroutines_failing_schedules"] = dict(reported)
    return ok


def probe_middleware_exits_before_deferred_resolver(ctx):
    """
    NAMED PROBE (finding N8, audit round 2): `Executor.field_resolver` builds `apply_middlewares(runtime.wrap_callable(resolver))`:
    on a runtime that off-loads the resolver (ThreadPoolRuntime) the middlewares wrap the SUBMISSION, so every middleware has
    exited before the resolver body runs: `mw>1 mw>0 mw<0 mw<1 ... call ret`. The statement says the resolver call passes through
    every middleware "in the documented nesting order": the resolver's execution is not nested inside them. Real 1-worker pool,
    the resolver body held back until process_graphql_query has returned (deterministic).
    """
    import threading
    from py_gql import build_schema, process_graphql_query
    from py_gql.execution import Executor
    from py_gql.execution.runtime import ThreadPoolRuntime
    ev = []
    go = threading.Event()

    def resolver(root, c, info):
        go.wait(10)
        ev.append("call")
        ev.append("ret")
        return 1

    def mw(n):
        def m(next_, root, c, info, **a):
            ev.append("mw>%d" % n)
            r = next_(root, c, info, **a)
            ev.append("mw<%d" % n)
            return r
        return m
    schema = build_schema("type Query { a: Int }")
    schema.register_resolver("Query", "a", resolver)
    rt = ThreadPoolRuntime(max_workers=1)
    ctx.count()
    try:
        fut = process_graphql_query(schema, "{ a }", runtime=rt, executor_cls=Executor, middlewares=[mw(0), mw(1)])
        go.set()
        fut.result(20)
    except Exception:  # noqa  -- no outcome: outside the statement
        go.set()
        return True
    finally:
        rt._inner.shutdown(wait=False)
    ctx.nontrivial(("middleware-deferred", tuple(ev)))
    ctx.extra["deferred_resolver_middleware_trace"] = list(ev)
    nested = ev == ["mw>1", "mw>0", "call", "ret", "mw<0", "mw<1"]
    if not nested:
        ctx.fail("c16:middleware-exits-before-deferred-resolver:threadpool",
                 "ThreadPoolRuntime, two middlewares, resolver off-loaded to the pool: events %s - every middleware exited before the "
                 "resolver was invoked (middlewares wrap runtime.wrap_callable(resolver), i.e. the submission)" % ev,
                 {"probe": "middleware-deferred"})
        return False
    return True


# -*- coding: utf-8 -*-
"""C15 — correspondence between the Lean model (driver drv_C15) and the real code."""


def correspond(ctx, schema, case, base, cfgs):
    pass

# -*- coding: utf-8 -*-
"""
C15 — correspondence between the Lean model (driver drv_C15) and the real code.

Compared (canonical, property-relevant results only):
  * `introspect s b`            vs  data of the real standard introspection query (b = true / false)
  * `typeByName s b n`          vs  data of `{ __type(name: n) { ...FullType } }`
  * `fieldDefinition s d p n`   vs  `ResolutionContext(schema, .., disable_introspection=d).field_definition(p, n)`
  * `readLit text`              vs  real `parse_value(text)` on every reported default text (+ a fixed list of literals)
  * `printLit (litOf s t v)`    vs  real `print_ast(ast_node_from_value(v, t))` on every declared default
Key order of JSON objects is not compared; the lists of types / directives / possibleTypes are sorted on both
sides (the statement fixes no order for them).
"""
import json

from corr import C15_lib as L

FRAGMENTS = None


def full_type_query(name, incl):
    global FRAGMENTS
    from py_gql.utilities import introspection_query
    if FRAGMENTS is None:
        q = introspection_query()
        FRAGMENTS = q[q.index("fragment FullType"):]
    fr = FRAGMENTS if incl else FRAGMENTS.replace("(includeDeprecated: true)", "(includeDeprecated: false)")
    return '{ __type(name: %s) { ...FullType } }\n%s' % (json.dumps(name), fr)


def lit_of_node(n):
    from py_gql.lang import ast as A
    if isinstance(n, A.NullValue):
        return {"k": "null"}
    if isinstance(n, A.BooleanValue):
        return {"k": "bool", "v": bool(n.value)}
    if isinstance(n, A.IntValue):
        return {"k": "int", "v": int(n.value)}
    if isinstance(n, A.FloatValue):
        return {"k": "float", "v": n.value}
    if isinstance(n, A.StringValue):
        return {"k": "str", "v": n.value}
    if isinstance(n, A.EnumValue):
        return {"k": "enum", "v": n.value}
    if isinstance(n, A.ListValue):
        return {"k": "list", "v": [lit_of_node(x) for x in n.values]}
    if isinstance(n, A.ObjectValue):
        return {"k": "obj", "v": [[f.name.value, lit_of_node(f.value)] for f in n.fields]}
    return {"k": "?" + type(n).__name__}


def real_read(text):
    from py_gql.exc import GraphQLSyntaxError
    from py_gql.lang import parse_value
    try:
        return lit_of_node(parse_value(text))
    except GraphQLSyntaxError:
        return None


def wire_ok(text):
    """texts the JSON line protocol carries faithfully (no lone surrogates, no floats involved)"""
    try:
        text.encode("utf-8")
        return True
    except UnicodeEncodeError:
        return False


FIXED_LITERALS = ['1', '-0', '007', '1.5', '-2e10', 'true', 'false', 'null', 'nul', 'A', '_a1', '"a"', '"a\\"b"', '"\\u00e9"',
                  '"a\nb"', '"a\tb"', '[1, 2]', '[1,2,]', '[[1], []]', '{a: 1}', '{a: {b: [A, "x"]}}', '{"a": 1}', '{a 1}', '[1',
                  '"abc', '1a', '-', '', ' 1 ', '1 2', '[A B]', '{a:1,b:2}', '"\\x"', 'true1', '"\\ud83d\\ude00"']


def fixed_literals(ctx):
    """once per run: the literal reader against the real parser on hand-written literals"""
    texts = [t for t in FIXED_LITERALS]
    ans = ctx.driver.ask([{"op": "readLit", "text": t} for t in texts])
    for t, a in zip(texts, ans):
        ctx.count()
        want = real_read(t)
        if t == '"\\ud83d\\ude00"':
            continue   # lone surrogates: outside the wire format
        if a.get("lit") != want:
            ctx.fail("corr:readLit:" + ("accept" if want is None else "value"), "literal reader and parse_value differ",
                     {"text": t, "model": a.get("lit"), "impl": want}, kind="correspondence")


def correspond(ctx, schema, case, base, cfgs):
    from py_gql.lang import parse, print_ast
    from py_gql.execution.wrappers import ResolutionContext
    from py_gql.schema import ObjectType
    from py_gql.utilities import ast_node_from_value
    from corr import C15
    dump = L.dump_full(schema)
    if "fixed_done" not in ctx.extra:
        ctx.extra["fixed_done"] = True
        fixed_literals(ctx)
    reqs = [{"op": "introspect", "schema": dump, "includeDeprecated": True},
            {"op": "introspect", "schema": dump, "includeDeprecated": False}]
    # the Lean decoder + `norm` (Spec.LosslessStatement, executed): on the model's answer and on the REAL answer
    la, ra = ctx.driver.ask([{"op": "lossless", "schema": dump}, {"op": "decodeReal", "data": base}])
    ctx.count(2)
    if la.get("depthOk"):
        if la["decoded"] != la["norm"]:
            p = L.first_diff(la["norm"], la["decoded"])
            ctx.fail("corr:lossless-statement:model:" + L.diff_class(p or ""), "schemaOfIntrospection (introspect s true) differs from norm s at %s" % p,
                     {"case": case, "path": p}, kind="correspondence")
        if _sorted_members(ra["decoded"]) != _sorted_members(la["norm"]):
            p = L.first_diff(_sorted_members(la["norm"]), _sorted_members(ra["decoded"]))
            ctx.fail("corr:lossless-statement:real:" + L.diff_class(p or ""), "the Lean decoder applied to the REAL introspection result differs from norm s at %s" % p,
                     {"case": case, "path": p, "impl": _at(_sorted_members(ra["decoded"]), p), "model": _at(_sorted_members(la["norm"]), p)}, kind="correspondence")
    # the part of `Spec.decodeAll` the description has no slot for (introspect_lossless_end_to_end): possibleTypes of interfaces, decoded
    # from the model's answer and from the REAL answer, against `Spec.implementers` of the dumped schema (no depth hypothesis)
    def _pairs(x):
        return sorted([p[0], sorted(p[1])] for p in (x or []))
    if "implementers" in la:
        ctx.stat("interfaces-decoded:%d" % min(len(la["implementers"]), 3))
        if la.get("possible") != la["implementers"]:
            ctx.fail("corr:lossless-statement:model:interface-possible", "decodeAll (introspect s true) differs from implementers s",
                     {"case": case, "model": la.get("possible"), "implementers": la["implementers"]}, kind="correspondence")
        if _pairs(ra.get("possible")) != _pairs(la["implementers"]):
            ctx.fail("corr:lossless-statement:real:interface-possible",
                     "the possibleTypes of interfaces decoded from the REAL introspection result differ from implementers s",
                     {"case": case, "impl": _pairs(ra.get("possible")), "model": _pairs(la["implementers"])}, kind="correspondence")
    names = sorted(schema.types)
    picks = [ctx.rng.choice(names) for _ in range(2)] + ["NoSuchType", "", ctx.rng.choice(["__Type", "__Schema", "__TypeKind", "Boolean"])]
    tq = [(n, b) for n in picks for b in (True, False)]
    reqs += [{"op": "type", "schema": dump, "name": n, "includeDeprecated": b} for n, b in tq]
    objs = [t for t in schema.types.values() if isinstance(t, ObjectType)]
    objs = [schema.query_type] + [t for t in ctx.rng.sample(objs, min(3, len(objs))) if t is not schema.query_type]
    fd = []
    for o in objs:
        nm = ["__schema", "__type", "__typename", "nope", "__nope"] + [f.name for f in o.fields][:4]
        for dis in (False, True):
            fd.append((o, nm, dis))
    reqs += [{"op": "fieldDef", "schema": dump, "parent": o.name, "names": nm, "disable": dis} for o, nm, dis in fd]
    ans = ctx.driver.ask(reqs)

    # -- standard query ---------------------------------------------------------------------
    st, rf = L.execute(schema, C15.std_query("false"), cfgs[0])
    for incl, real, a in ((True, base, ans[0]), (False, rf["data"] if st == "ok" and not rf.get("errors") else None, ans[1])):
        ctx.count()
        if real is None:
            continue
        m = L.canon_response(a.get("data"))
        r = L.canon_response(real)
        p = L.first_diff(r, m)
        if p:
            ctx.fail("corr:introspect:%s" % L.diff_class(p), "model and real introspection result differ at %s" % p,
                     {"case": case, "includeDeprecated": incl, "path": p, "impl": _at(r, p), "model": _at(m, p)}, kind="correspondence")
    # -- __type(name:) -----------------------------------------------------------------------
    for (n, b), a in zip(tq, ans[2:2 + len(tq)]):
        ctx.count()
        st, r = L.execute(schema, full_type_query(n, b), "blocking")
        if st != "ok":
            ctx.fail("corr:type-query-raises", "targeted __type query raises", {"case": case, "name": n, "outcome": r}, kind="correspondence")
            continue
        real = L.canon_type_response((r.get("data") or {}).get("__type"))
        m = L.canon_type_response((a.get("data") or {}).get("__type"))
        p = L.first_diff(real, m)
        if p:
            ctx.fail("corr:type:%s" % L.diff_class(p), "model and real __type(name:) result differ at %s" % p,
                     {"case": case, "name": n, "includeDeprecated": b, "path": p}, kind="correspondence")
    # -- field_definition -------------------------------------------------------------------
    doc = parse("{ __typename }")
    for (o, nm, dis), a in zip(fd, ans[2 + len(tq):]):
        rc = ResolutionContext(schema, doc, {}, None, disable_introspection=dis)
        real = []
        for n in nm:
            ctx.count()
            try:
                d = rc.field_definition(o, n)
            except UnboundLocalError:
                real.append("unbound")
                continue
            except Exception as e:  # noqa
                real.append("exc:" + type(e).__name__)
                continue
            if d is None:
                real.append("none")
            elif d.name == "__schema":
                real.append("schema")
            elif d.name == "__type":
                real.append("type")
            elif d.name == "__typename":
                real.append("typename")
            else:
                real.append("ordinary:" + d.name)
            ctx.stat("field_definition:" + real[-1].split(":")[0])
        if a.get("r") != real:
            ctx.fail("corr:field_definition:%s" % ("disabled" if dis else "enabled"), "model and real field_definition differ",
                     {"case": case, "parent": o.name, "names": nm, "disable": dis, "impl": real, "model": a.get("r")}, kind="correspondence")
    # -- literals: reader vs parse_value, litOf/printLit vs ast_node_from_value/print_ast -----
    texts, lits = [], []
    dec = L.decode_introspection(base)
    for t in dec["types"]:
        for f in t["fields"]:
            texts += [a["default_text"] for a in f["args"] if a["default_text"] is not None]
        texts += [a["default_text"] for a in t["input_fields"] if a["default_text"] is not None]
    texts = [t for t in sorted(set(texts)) if wire_ok(t)]
    for where, iv in L.iter_defaults(schema):
        if iv.has_default_value and not where.startswith("__"):
            try:
                try:
                    # the form introspection reports (fix I11): strings stay strings at every depth
                    want = print_ast(ast_node_from_value(iv.default_value, iv.type, numeric_strings=False))
                except TypeError:
                    want = print_ast(ast_node_from_value(iv.default_value, iv.type))
            except Exception as e:  # noqa
                want = None
            lits.append((where, iv, want))
    from canon_schema import ty_of
    ans2 = ctx.driver.ask([{"op": "readLit", "text": t} for t in texts] +
                          [{"op": "printLitOf", "strict": True, "schema": dump, "type": ty_of(iv.type), "value": L.canon_value_ordered(iv.default_value)}
                           for _, iv, _ in lits])
    for t, a in zip(texts, ans2):
        ctx.count()
        want = real_read(t)
        ctx.stat("readLit:" + ("reject" if want is None else "accept"))
        if want is not None and not wire_ok(json.dumps(want, ensure_ascii=False)):
            continue     # lone surrogates produced by the lexer (ledger L*/R2): not representable in the model's Char
        if a.get("lit") != want:
            ctx.fail("corr:readLit:" + ("accept" if want is None else "value"), "literal reader and parse_value differ",
                     {"text": t, "model": a.get("lit"), "impl": want}, kind="correspondence")
    for (where, iv, want), a in zip(lits, ans2[len(texts):]):
        ctx.count()
        if _has_float(iv.default_value) or (want is not None and not wire_ok(want)):
            continue
        if a.get("text") != want:
            ctx.fail("corr:printLitOf", "printLit(litOf ..) and print_ast(ast_node_from_value(..)) differ",
                     {"case": case, "where": where, "model": a.get("text"), "impl": want}, kind="correspondence")


def _sorted_members(d):
    """types / directives sorted by name, union members sorted (orders the statement does not fix)"""
    d = json.loads(json.dumps(d))
    d["types"].sort(key=lambda t: t["name"])
    d["directives"].sort(key=lambda t: t["name"])
    for t in d["types"]:
        t["members"] = sorted(t["members"])
    return d


def _has_float(v):
    if isinstance(v, float):
        return True
    if isinstance(v, list):
        return any(_has_float(x) for x in v)
    if isinstance(v, dict):
        return any(_has_float(x) for x in v.values())
    return False


def _at(d, path):
    try:
        for p in [x for x in path.split("/") if x]:
            if p == "#len":
                return len(d)
            d = d[int(p)] if isinstance(d, list) else d[p]
        return d
    except Exception:  # noqa
        return "<absent>"

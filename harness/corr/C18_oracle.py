# -*- coding: utf-8 -*-
"""
C18 — the DIRECT ORACLE on the real visitors (independent of the Lean model and of the extracted table).

The expected events are computed by walking `__slots__` of the real tree: every non-Name child node,
pre/post-order, siblings in source order (by `loc`). Everything the property statement says is asked,
nothing more:

  coverage/once/balance/nesting/sibling order, identity, delete-local (list members), replace-local,
  skip-local, chain order (+ effect of a chain member's delete / replace / skip), ast_transforms helpers.
"""
import copy


def A():
    import py_gql.lang.ast as _ast
    return _ast


def V():
    import py_gql.lang.visitor as _v
    return _v


def attrs_of(node):
    return [a for a in type(node).__slots__ if a != "source"]


def children(node):
    """[(attr, index or None, child)] for every child Node (Names included), slot order."""
    _ast = A()
    out = []
    for a in attrs_of(node):
        v = getattr(node, a, None)
        if isinstance(v, _ast.Node):
            out.append((a, None, v))
        elif isinstance(v, list):
            for i, x in enumerate(v):
                if isinstance(x, _ast.Node):
                    out.append((a, i, x))
    return out


def spec_children(node):
    """non-Name children in SOURCE order (loc start; slot order breaks ties / missing locs)"""
    _ast = A()
    cs = [(a, i, c) for a, i, c in children(node) if not isinstance(c, _ast.Name)]
    if all(c.loc is not None for _, _, c in cs):
        cs = sorted(cs, key=lambda t: t[2].loc[0])  # stable
    return cs


class Index:
    """parent / position information of a tree, by object identity"""

    def __init__(self, root):
        self.root = root
        self.parent = {}     # id(node) -> (parent, attr, index)
        self.nodes = []      # spec pre-order, non-Name
        self.keep = []
        self._walk(root)

    def _walk(self, n):
        self.nodes.append(n)
        for a, i, c in spec_children(n):
            self.parent[id(c)] = (n, a, i)
            self._walk(c)

    def path(self, n):
        p = []
        while id(n) in self.parent:
            par, a, i = self.parent[id(n)]
            p.append([a, i])
            n = par
        return list(reversed(p))


def spec_events(root):
    out = []

    def go(n):
        out.append(("enter", n))
        for _, _, c in spec_children(n):
            go(c)
        out.append(("leave", n))
    go(root)
    return out


def make_recorder(base, tag, trace, actions=None):
    """A visitor (subclass of `base`) recording (tag, phase, node object) and applying `actions`: id(node) -> callable."""
    _v = V()
    actions = actions or {}

    class Rec(base):
        def enter(self, node):
            trace.append((tag, "enter", node))
            act = actions.get(id(node))
            if act is None:
                return node
            kind, arg = act
            if kind == "delete":
                return None
            if kind == "skip":
                raise _v.SkipNode()
            if kind == "replace":
                return arg
            raise AssertionError(kind)

        def leave(self, node):
            trace.append((tag, "leave", node))

    return Rec()


def key(ev):
    """(phase, kind, loc) of an event — what traces are compared on"""
    return (ev[-2], type(ev[-1]).__name__, ev[-1].loc)


def segment(trace, node):
    """indices [i, j) of the events of `node`'s visit inside a baseline (balanced) trace"""
    i = next(k for k, e in enumerate(trace) if e[-2] == "enter" and e[-1] is node)
    j = next(k for k, e in enumerate(trace) if e[-2] == "leave" and e[-1] is node)
    return i, j + 1


def kind(n):
    return type(n).__name__


def parse_doc(text, kw):
    from py_gql.lang import parse
    return parse(text, **kw)


# ---------------------------------------------------------------------------------------------------

def check_structure(ctx, text, kw, fail, root_pos=None):
    """coverage, once, balance, nesting, sibling order, identity. Returns (doc, baseline trace, entered set) or None.
    `root_pos`: visit the sub-tree rooted at the root_pos-th node (spec pre-order) through `ASTVisitor.visit`."""
    _v = V()
    doc = parse_doc(text, kw)
    if root_pos is not None:
        doc = Index(doc).nodes[root_pos]
    before = doc.to_dict()
    idx = Index(doc)
    trace = []
    res = make_recorder(_v.ASTVisitor, 0, trace).visit(doc)
    if res is not doc or doc.to_dict() != before:
        fail("identity-changed", "a visitor that changes nothing does not leave the document equal", {})
    # balance + once
    stack, entered, left = [], {}, {}
    order_of = {}
    for k, (_, ph, n) in enumerate(trace):
        if ph == "enter":
            if id(n) in entered:
                fail("entered-twice:%s" % kind(n), "a node is entered twice", {"path": idx.path(n)})
            entered[id(n)] = k
            order_of[id(n)] = k
            # nesting: the open node must be the nearest entered ancestor
            anc = idx.parent.get(id(n), (None,))[0]
            while anc is not None and id(anc) not in entered:
                anc = idx.parent.get(id(anc), (None,))[0]
            if (stack[-1] if stack else None) is not anc:
                fail("not-nested:%s" % kind(n), "a node is entered outside its parent's enter/leave bracket", {"path": idx.path(n)})
            stack.append(n)
        else:
            if id(n) in left:
                fail("left-twice:%s" % kind(n), "a node is left twice", {"path": idx.path(n)})
            left[id(n)] = k
            if not stack or stack[-1] is not n:
                fail("unbalanced:%s" % kind(n), "leave does not match the innermost open enter", {"path": idx.path(n)})
            else:
                stack.pop()
    if stack:
        fail("unbalanced:%s" % kind(stack[-1]), "enter without leave for a visitor that neither deletes nor skips", {"path": idx.path(stack[-1])})
    known = {id(n) for n in idx.nodes}
    for _, ph, n in trace:
        if id(n) not in known:
            fail("foreign-node:%s" % kind(n), "the visitor is called with a node that is not a non-name node of the tree", {})
    # coverage (root cause only: parent entered or node is the root)
    for n in idx.nodes:
        if id(n) in entered:
            continue
        par = idx.parent.get(id(n))
        if par is None:
            fail("not-entered:root", "the root is not entered", {})
        elif id(par[0]) in entered:
            fail("not-entered:%s.%s" % (kind(par[0]), par[1]),
                 "%s nodes reached through %s.%s are never entered" % (kind(n), kind(par[0]), par[1]), {"path": idx.path(n)})
    # sibling order
    for n in idx.nodes:
        if id(n) not in entered:
            continue
        cs = [(a, c) for a, _, c in spec_children(n) if id(c) in entered]
        for (a1, c1), (a2, c2) in zip(cs, cs[1:]):
            if entered[id(c1)] > entered[id(c2)]:
                fail("sibling-order:%s:%s-before-%s" % (kind(n), a2, a1),
                     "children of %s: `%s` is visited before `%s` which precedes it in the source" % (kind(n), a2, a1),
                     {"path": idx.path(n)})
    return doc, idx, trace, entered


def snapshot_lists(root):
    """every list object held by an attribute of a node of the tree, with the identities of its members"""
    out = []
    stack = [root]
    while stack:
        n = stack.pop()
        for a in attrs_of(n):
            v = getattr(n, a, None)
            if isinstance(v, list):
                out.append((kind(n), a, v, tuple(id(m) for m in v)))
        for _, _, c in children(n):
            stack.append(c)
    return out


def mutated_list(snaps):
    """the first list OBJECT whose members changed (lists are rebuilt and re-assigned, never edited in place: a
    shallow copy taken before the visit keeps seeing the old members)"""
    for k, a, lst, ids in snaps:
        if tuple(id(m) for m in lst) != ids:
            return "%s.%s" % (k, a)
    return None


def _same_keys(t1, t2):
    return [key(e) for e in t1] == [key(e) for e in t2]


def check_edits(ctx, text, kw, fail, positions=None, budget=None):
    """delete / replace / skip at every ENTERED node position (or the sample `positions` of pre-order indices)."""
    _v = V()
    doc0 = parse_doc(text, kw)
    idx0 = Index(doc0)
    base = []
    make_recorder(_v.ASTVisitor, 0, base).visit(doc0)
    base_keys = [key(e) for e in base]
    ent0 = [e[-1] for e in base if e[-2] == "enter"]
    order0 = {id(n): k for k, n in enumerate(idx0.nodes)}
    n_ent = len(ent0)
    todo = list(range(n_ent)) if positions is None else [p for p in positions if p < n_ent]
    done = 0
    for pos in todo:
        if budget is not None and done >= budget:
            break
        done += 1
        i, j = segment(base, ent0[pos])
        for act in ("delete", "skip", "replace", "replace-other"):
            doc = parse_doc(text, kw)      # fresh tree per edit (visits are in place)
            idx = Index(doc)
            if len(idx.nodes) != len(idx0.nodes):
                return
            ents = [idx.nodes[order0[id(n)]] for n in ent0]   # same positions in the fresh tree
            tr0 = [(e[0], e[1], idx.nodes[order0[id(e[2])]]) for e in base]
            x = ents[pos]
            par = idx.parent.get(id(x))
            before = doc.to_dict()
            ctx.count()
            if act == "delete":
                if par is None or par[2] is None:
                    continue   # the statement speaks of list members
                trace = []
                members = list(getattr(par[0], par[1]))
                shallow = par[0].copy()
                snaps = snapshot_lists(doc)
                res = make_recorder(_v.ASTVisitor, 0, trace, {id(x): ("delete", None)}).visit(doc)
                exp_keys = base_keys[:i + 1] + base_keys[j:]
                lst = getattr(par[0], par[1])
                exp = copy.deepcopy(before)
                _dict_at(exp, idx.path(par[0]))[par[1]].pop(par[2])
                # by IDENTITY: exactly the visited occurrence is gone (structurally equal siblings stay where they are)
                ident = [id(m) for m in lst] == [id(m) for q, m in enumerate(members) if q != par[2]]
                ml = mutated_list(snaps)
                if ml or [id(m) for m in getattr(shallow, par[1])] != [id(m) for m in members]:
                    fail("list-mutated-in-place:%s" % (ml or "%s.%s" % (kind(par[0]), par[1])),
                         "a deletion edits the child list object in place: a shallow copy taken before the visit changes too", {"edit": "delete", "pos": pos})
                ok = res is doc and ident and doc.to_dict() == exp and [key(e) for e in trace] == exp_keys
                if not ok:
                    fail("delete-not-local:%s.%s" % (kind(par[0]), par[1]),
                         "returning None for a member of %s.%s does not remove exactly that member" % (kind(par[0]), par[1]),
                         {"edit": "delete", "pos": pos})
            elif act == "skip":
                trace = []
                res = make_recorder(_v.ASTVisitor, 0, trace, {id(x): ("skip", None)}).visit(doc)
                exp_keys = base_keys[:i + 1] + base_keys[j:]
                if not (res is doc and doc.to_dict() == before and [key(e) for e in trace] == exp_keys):
                    inner = {id(e[-1]) for e in tr0[i + 1:j - 1]}
                    if res is not doc or doc.to_dict() != before:
                        cause = "tree-changed"
                    elif any(e[-2] == "leave" and e[-1] is x for e in trace):
                        cause = "leave-called"
                    elif any(id(e[-1]) in inner for e in trace):
                        cause = "children-visited"
                    else:
                        cause = "other-calls-differ"
                    fail("skip-not-local:%s" % cause, "SkipNode at a node (%s) suppresses more or less than its children and its leave: %s" % (kind(x), cause),
                         {"edit": "skip", "pos": pos})
            else:
                if act == "replace":
                    y = x
                else:
                    same = [n for n in ents if type(n) is type(x) and n is not x]
                    if not same:
                        continue
                    y = same[(pos * 7 + 3) % len(same)]
                r = copy.deepcopy(y)
                rd = r.to_dict()
                yi, yj = segment(tr0, y)
                trace = []
                members = list(getattr(par[0], par[1])) if (par is not None and par[2] is not None) else None
                snaps = snapshot_lists(doc)
                res = make_recorder(_v.ASTVisitor, 0, trace, {id(x): ("replace", r)}).visit(doc)
                exp_keys = base_keys[:i + 1] + base_keys[yi + 1:yj] + base_keys[j:]
                ml = mutated_list(snaps)
                if ml and y is x:
                    fail("list-mutated-in-place:%s" % ml, "a replacement edits the child list object in place: a shallow copy taken before the visit changes too",
                         {"edit": act, "pos": pos})
                if par is None:
                    placed = res is r
                    exp = rd
                    got = res.to_dict() if res is not None else None
                else:
                    holder = getattr(par[0], par[1])
                    if par[2] is not None:   # by IDENTITY: only the visited occurrence changed
                        placed = [id(m) for m in holder] == [id(r) if q == par[2] else id(m) for q, m in enumerate(members)]
                    else:
                        placed = holder is r
                    exp = copy.deepcopy(before)
                    d = _dict_at(exp, idx.path(par[0]))
                    if par[2] is None:
                        d[par[1]] = rd
                    else:
                        d[par[1]][par[2]] = rd
                    got = doc.to_dict()
                    placed = placed and res is doc
                traced_ok = [key(e) for e in trace] == exp_keys
                leave_ok = any(e[-2] == "leave" and e[-1] is r for e in trace)
                if not (placed and got == exp and traced_ok and leave_ok):
                    where = "root" if par is None else "%s.%s" % (kind(par[0]), par[1])
                    wrong = (par is not None and par[2] is not None and not placed
                             and any(m is r for q, m in enumerate(getattr(par[0], par[1])) if q != par[2]))
                    sig = ("replace-wrong-occurrence:%s" % where if wrong else
                           "replace-discarded:%s" % where if ([key(e) for e in trace] == exp_keys and not placed) else "replace-not-local:%s" % where)
                    fail(sig, "returning a replacement for the node at %s does not substitute exactly that node" % where,
                         {"edit": act, "pos": pos})


def _dict_at(d, path):
    for a, i in path:
        d = d[a] if i is None else d[a][i]
    return d


CHAIN_CONFIGS = ("constructor", "assigned", "assigned-list", "extended", "reordered", "subclass", "subclass-extended")


def build_chain(members, config, perm=None):
    """A ChainedVisitor whose LIVE `visitors` attribute ends up being `members` (in that order), configured through
    the constructor or by assigning / extending / re-ordering the documented `visitors` attribute afterwards."""
    _v = V()
    members = list(members)
    if config == "constructor":
        return _v.ChainedVisitor(*members)
    if config == "assigned":
        c = _v.ChainedVisitor()
        c.visitors = tuple(members)
        return c
    if config == "assigned-list":
        c = _v.ChainedVisitor(members[-1])
        c.visitors = list(members)
        return c
    if config == "extended":
        c = _v.ChainedVisitor(*members[:1])
        c.visitors = tuple(c.visitors) + tuple(members[1:])
        return c
    if config == "reordered":
        perm = perm if perm is not None else list(range(len(members)))[::-1]
        c = _v.ChainedVisitor(*[members[i] for i in perm])     # constructed in another order …
        c.visitors = tuple(members)                              # … then put in the final order
        return c

    class Sub(_v.ChainedVisitor):
        def __init__(self, *vs):
            super().__init__()
            self.visitors = tuple(vs)
    if config == "subclass":
        return Sub(*members)
    if config == "subclass-extended":
        c = Sub(*members[:-1])
        c.visitors = c.visitors + (members[-1],)
        return c
    raise AssertionError(config)


def check_chain_configured(ctx, text, kw, fail, k, config, dispatching=False):
    """enter in the order of the LIVE `visitors` list, leave in its reverse, around every node"""
    _v = V()
    base_cls = _v.DispatchingVisitor if dispatching else _v.ASTVisitor
    doc = parse_doc(text, kw)
    before = doc.to_dict()
    trace = []
    chain = build_chain([make_recorder(base_cls, t, trace) for t in range(k)], config)
    res = chain.visit(doc)
    ctx.count()
    single = []
    make_recorder(_v.ASTVisitor, 0, single).visit(parse_doc(text, kw))
    exp = []
    for e in single:
        tags = range(k) if e[-2] == "enter" else range(k - 1, -1, -1)
        exp += [(t,) + key(e) for t in tags]
    got = [(e[0],) + key(e) for e in trace]
    if got != exp or res is not doc or doc.to_dict() != before:
        ent = [g for g in got if g[1] == "enter"] == [x for x in exp if x[1] == "enter"]
        cause = "leave-order" if ent and sorted(got) == sorted(exp) else ("members-not-left" if ent else "enter-order")
        fail("chain:order:visitors-reassigned:%s" % cause,
             "a chain whose `visitors` attribute was %s after construction does not enter in the order of the live list / leave in its reverse (%s)" % (config, cause),
             {"chain": k, "config": config})


def check_chain(ctx, text, kw, fail, k, positions, dispatching=False):
    """chains of k members: order; effect of member j's delete / replace / skip at the sampled positions"""
    _v = V()
    base_cls = _v.DispatchingVisitor if dispatching else _v.ASTVisitor
    doc = parse_doc(text, kw)
    before = doc.to_dict()
    trace = []
    chain = _v.ChainedVisitor(*[make_recorder(base_cls, t, trace) for t in range(k)])
    res = chain.visit(doc)
    ctx.count()
    single = []
    doc1 = parse_doc(text, kw)
    make_recorder(_v.ASTVisitor, 0, single).visit(doc1)
    # expected: every single-visitor event expanded into k events, enter 0..k-1, leave k-1..0
    exp = []
    for e in single:
        tags = range(k) if e[-2] == "enter" else range(k - 1, -1, -1)
        exp += [(t,) + key(e) for t in tags]
    got = [(e[0],) + key(e) for e in trace]
    if got != exp or res is not doc or doc.to_dict() != before:
        fail("chain:order", "chained visitors do not enter in order / leave in reverse order around each node", {"chain": k})
        return
    idx1 = Index(doc1)
    order1 = {id(n): q for q, n in enumerate(idx1.nodes)}
    ent1 = [e[-1] for e in single if e[-2] == "enter"]
    n_ent = len(ent1)
    for pos in positions:
        if pos >= n_ent:
            continue
        for j in sorted({0, k - 1, k // 2}):
            for act in ("delete", "replace", "skip"):
                doc = parse_doc(text, kw)
                idx = Index(doc)
                tr0 = [(e[0], e[1], idx.nodes[order1[id(e[2])]]) for e in single]
                x = idx.nodes[order1[id(ent1[pos])]]
                par = idx.parent.get(id(x))
                if par is None or (act == "delete" and par[2] is None):
                    continue
                before = doc.to_dict()
                r = copy.deepcopy(x)
                trace = []
                members = [make_recorder(base_cls, t, trace, {id(x): (act, r)} if t == j else None) for t in range(k)]
                res = _v.ChainedVisitor(*members).visit(doc)
                ctx.count()
                holder = getattr(par[0], par[1])
                at_x = [(e[0], e[1]) for e in trace if e[-1] is x or e[-1] is r]
                if act == "delete":
                    if any(m is x for m in holder):
                        fail("chain:member-delete-discarded", "a chain member returning None for a list member does not remove it", {"chain": k, "member": j, "edit": act, "pos": pos})
                    elif at_x != [(t, "enter") for t in range(j + 1)]:
                        fail("chain:delete-trace", "after a chain member deleted a node other members are still called on it", {"chain": k, "member": j, "edit": act, "pos": pos})
                elif act == "replace":
                    cur = holder[par[2]] if par[2] is not None else holder
                    if cur is not r:
                        fail("chain:member-replace-discarded", "a chain member's replacement node is not substituted", {"chain": k, "member": j, "edit": act, "pos": pos})
                else:
                    i0, j0 = segment(tr0, x)
                    inner = {id(e[-1]) for e in tr0[i0 + 1:j0 - 1]}
                    want = [(t, "enter") for t in range(k)] + [(t, "leave") for t in range(k - 1, -1, -1) if t != j]
                    if at_x != want or any(id(e[-1]) in inner for e in trace) or doc.to_dict() != before:
                        fail("chain:skip-not-local:at-the-node", "SkipNode from a chain member does not suppress exactly the children and the raiser's leave of that node",
                             {"chain": k, "member": j, "edit": act, "pos": pos})


def snake(name):
    import re
    return re.sub(r"(?<!^)(?=[A-Z])", "_", name).lower()


def check_subroots(ctx, text, kw, fail):
    """`visit(node)` on the first node of every kind of the document as the root"""
    doc = parse_doc(text, kw)
    seen = set()
    for k, n in enumerate(Index(doc).nodes):
        if k == 0 or kind(n) in seen:
            continue
        seen.add(kind(n))
        ctx.count()
        check_structure(ctx, text, kw, lambda s, w, d: fail(s, w, dict(d, root_pos=k)), root_pos=k)


def check_dispatching(ctx, text, kw, fail):
    """DispatchingVisitor calls `enter_<class in snake case>` / `leave_<…>` for every node it visits, same order as a plain visitor"""
    _v = V()
    doc = parse_doc(text, kw)
    log = []

    class DS(_v.DispatchingVisitor):
        pass
    for name in dir(_v.DispatchingVisitor):
        if name.startswith("enter_"):
            setattr(DS, name, (lambda nm: lambda self, node: (log.append((nm, node)), node)[1])(name))
        elif name.startswith("leave_"):
            setattr(DS, name, (lambda nm: lambda self, node: log.append((nm, node)))(name))
    before = doc.to_dict()
    res = DS().visit(doc)
    ctx.count()
    base = []
    doc2 = parse_doc(text, kw)
    make_recorder(_v.ASTVisitor, 0, base).visit(doc2)
    for nm, node in log:
        want = nm.split("_", 1)[0] + "_" + snake(kind(node))
        if nm != want:
            fail("dispatch:%s->%s" % (kind(node), nm), "DispatchingVisitor calls %s for a %s node" % (nm, kind(node)), {"dispatching": True})
    if [(nm.split("_", 1)[0], kind(n), n.loc) for nm, n in log] != [key(e) for e in base] or res is not doc or doc.to_dict() != before:
        fail("dispatch:trace", "DispatchingVisitor does not make the calls of a plain visitor", {"dispatching": True})


# -- DispatchingVisitor class hierarchies -------------------------------------------------------------

HISTORIES = ("base-then-subclass", "subclass-then-base", "siblings-after-base", "siblings", "subsubclass", "subsubclass-first")
_CLS_COUNTER = [0]


def _handler_names():
    _v = V()
    return [n for n in dir(_v.DispatchingVisitor) if n.startswith("enter_") or n.startswith("leave_")]


def _make_class(base, tag, names, log, actions):
    """A NEW (never used) subclass of `base` defining the handlers `names`: each logs (tag, handler, node) and
    applies `actions` (id(node) -> (kind, arg)) if it is an enter handler."""
    _v = V()
    ns = {}
    for nm in names:
        if nm.startswith("enter_"):
            def h(self, node, nm=nm):
                log.append((tag, nm, node))
                act = actions.get(id(node))
                if act is None:
                    return node
                if act[0] == "delete":
                    return None
                if act[0] == "skip":
                    raise _v.SkipNode()
                return act[1]
        else:
            def h(self, node, nm=nm):
                log.append((tag, nm, node))
        ns[nm] = h
    _CLS_COUNTER[0] += 1
    return type("Dyn%s_%d" % (tag, _CLS_COUNTER[0]), (base,), ns)


def check_class_history(ctx, text, kw, fail, history, rng, pos=None, act=None):
    """DispatchingVisitor classes created for this case and used in a given order: every instance must do what
    ITS class defines (most-derived handler per node kind), whatever classes were used before it."""
    _v = V()
    names = sorted(_handler_names())
    doc0 = parse_doc(text, kw)
    base_tr = []
    make_recorder(_v.ASTVisitor, 0, base_tr).visit(doc0)
    ent0 = [e[-1] for e in base_tr if e[-2] == "enter"]
    idx0 = Index(doc0)
    order0 = {id(n): q for q, n in enumerate(idx0.nodes)}
    if pos is None:
        pos = rng.randrange(len(ent0))
    pos = min(pos, len(ent0) - 1)
    act = act or rng.choice(["delete", "skip", "replace", "none"])
    xk = kind(ent0[pos])
    hx = "enter_" + snake(xk)
    # handler sets: the base logs a subset; subclasses override the handler of x's kind and add others
    rs = rng.sample(names, min(len(names), 12))
    sets = {"P": set(rs[:6]) | {hx}, "C": {hx} | set(rs[6:9]), "D": {hx} | set(rs[9:12]), "CC": {hx, "leave_" + snake(xk)}}
    parents = {"P": None, "C": "P", "D": "P", "CC": "C"}
    uses = {"base-then-subclass": ["P", "C"], "subclass-then-base": ["C", "P"], "siblings-after-base": ["P", "C", "D"],
            "siblings": ["C", "D"], "subsubclass": ["P", "C", "CC"], "subsubclass-first": ["CC", "C", "P"]}[history]
    acting = {"P": False, "C": True, "D": True, "CC": True}
    classes, acts, log = {}, {}, []

    def get_class(tag):
        if tag not in classes:
            par = _v.DispatchingVisitor if parents[tag] is None else get_class(parents[tag])
            acts[tag] = {}    # only the handlers DEFINED by `tag` apply these
            classes[tag] = _make_class(par, tag, sorted(sets[tag]), log, acts[tag])
        return classes[tag]

    def definer(tag, nm):
        while tag is not None:
            if nm in sets[tag]:
                return tag
            tag = parents[tag]
        return None

    for tag in uses:
        cls = get_class(tag)
        del log[:]
        for a in acts.values():
            a.clear()
        doc = parse_doc(text, kw)
        idx = Index(doc)
        x = idx.nodes[order0[id(ent0[pos])]]
        this_act = act if acting[tag] else "none"
        r = copy.deepcopy(x)
        if this_act != "none":
            acts[definer(tag, hx)][id(x)] = (this_act, r)
        # reference: plain ASTVisitor with the same action on a second fresh tree
        doc_r = parse_doc(text, kw)
        idx_r = Index(doc_r)
        x_r = idx_r.nodes[order0[id(ent0[pos])]]
        ref = []
        ref_res = make_recorder(_v.ASTVisitor, 0, ref, {id(x_r): (this_act, copy.deepcopy(x_r))} if this_act != "none" else None).visit(doc_r)
        try:
            res = cls().visit(doc)
        except Exception as e:  # noqa
            fail("dispatch:class-history:raises", "a DispatchingVisitor subclass raises %s" % type(e).__name__,
                 {"history": history, "pos": pos, "act": act})
            return
        ctx.count()
        exp = []
        for e in ref:
            nm = e[-2] + "_" + snake(kind(e[-1]))
            d = definer(tag, nm)
            if d is not None:
                exp.append((d, nm, kind(e[-1]), e[-1].loc))
        got = [(t, nm, kind(n), n.loc) for (t, nm, n) in log]
        same_tree = (res is None and ref_res is None) or (res is not None and ref_res is not None and res.to_dict() == ref_res.to_dict())
        if got != exp or not same_tree:
            cause = "tree" if not same_tree else "handlers"
            fail("dispatch:class-history:%s" % cause,
                 "a DispatchingVisitor class used after a related class (%s, instance of %s) does not run its own handlers: %s differs from the plain-visitor reference"
                 % (history, tag, "the resulting tree" if cause == "tree" else "the set of handler calls"),
                 {"history": history, "pos": pos, "act": act, "class": tag})
            return


def check_chain_skips(ctx, text, kw, fail, k, positions):
    """chains of k recorders; member j (every j) raises SkipNode at the node. READING of the statement ("the skip
    signal suppresses only that node's children and ITS leave call" + "chained visitors enter in order and leave in
    reverse" + "enter and then leave exactly once" for every visitor that does not skip): every member enters the node
    in order, every member EXCEPT THE RAISER leaves it in reverse order, its children are visited by nobody, the tree
    is unchanged, and every visitor's enter/leave on all other nodes is what it is without the skip."""
    _v = V()
    doc1 = parse_doc(text, kw)
    single = []
    make_recorder(_v.ASTVisitor, 0, single).visit(doc1)
    idx1 = Index(doc1)
    order1 = {id(n): q for q, n in enumerate(idx1.nodes)}
    ent1 = [e[-1] for e in single if e[-2] == "enter"]
    for pos in positions:
        if pos >= len(ent1):
            continue
        i0, j0 = segment(single, ent1[pos])
        for j in range(k):
            doc = parse_doc(text, kw)
            idx = Index(doc)
            x = idx.nodes[order1[id(ent1[pos])]]
            before = doc.to_dict()
            trace = []
            members = [make_recorder(_v.ASTVisitor, t, trace, {id(x): ("skip", None)} if t == j else None) for t in range(k)]
            try:
                res = _v.ChainedVisitor(*members).visit(doc)
            except Exception as e:  # noqa
                fail("chain:skip-not-local:raises", "a chain whose member raises SkipNode raises %s" % type(e).__name__,
                     {"chain": k, "member": j, "pos": pos, "skips": True})
                continue
            ctx.count()
            exp = []
            for q, e in enumerate(single):
                if q == i0:       # every member enters the node, in order …
                    exp += [(t,) + key(e) for t in range(k)]
                elif q == j0 - 1 and j0 - 1 > i0:   # … and every member but the raiser leaves it, in reverse
                    exp += [(t,) + key(e) for t in range(k - 1, -1, -1) if t != j]
                elif i0 < q < j0:
                    continue
                else:
                    tags = range(k) if e[-2] == "enter" else range(k - 1, -1, -1)
                    exp += [(t,) + key(e) for t in tags]
            got = [(e[0],) + key(e) for e in trace]
            if got == exp and res is doc and doc.to_dict() == before:
                continue
            inner = set(range(i0 + 1, j0 - 1))
            inner_keys = {key(single[q]) for q in inner}
            xk = key(single[i0])[1:]
            at_x = [g for g in got if g[2:] == xk and g[1] in ("enter", "leave")]
            if res is not doc or doc.to_dict() != before:
                cause = "tree-changed"
            elif ([g for g in trace if g[2] is x and g[1] == "enter"] and
                  [(g[0], g[1]) for g in trace if g[2] is x] !=
                  [(t, "enter") for t in range(k)] + [(t, "leave") for t in range(k - 1, -1, -1) if t != j]):
                cause = "at-the-node"
            elif len(got) < len(exp) or len(got) > len(exp):
                cause = "other-nodes-unbalanced"
            else:
                cause = "other-nodes-order"
            fail("chain:skip-not-local:%s" % cause,
                 "SkipNode raised by member %d of a chain of %d: the calls made to the members differ from the specified ones (%s)" % (j, k, cause),
                 {"chain": k, "member": j, "pos": pos, "skips": True})


def check_chain_nested(ctx, text, kw, fail, position, variant, pos):
    """An outer chain [r0, N, r3] (N at index `position`) where N is a nested chain of two recorders: a plain
    ChainedVisitor, or a SUBCLASS with its own enter/leave (recording / raising SkipNode at a node). A nested chain
    counts as ONE member: members enter in order and leave in reverse, N's own enter/leave bracket its members,
    and a SkipNode raised by N suppresses the later members, the children and every leave of that node."""
    _v = V()
    doc1 = parse_doc(text, kw)
    single = []
    make_recorder(_v.ASTVisitor, 0, single).visit(doc1)
    idx1 = Index(doc1)
    order1 = {id(n): q for q, n in enumerate(idx1.nodes)}
    ent1 = [e[-1] for e in single if e[-2] == "enter"]
    pos = min(pos, len(ent1) - 1)
    i0, j0 = segment(single, ent1[pos])
    doc = parse_doc(text, kw)
    idx = Index(doc)
    x = idx.nodes[order1[id(ent1[pos])]]
    before = doc.to_dict()
    trace = []

    class Tracing(_v.ChainedVisitor):
        def enter(self, node):
            trace.append(("N", "enter", node))
            return super().enter(node)

        def leave(self, node):
            super().leave(node)
            trace.append(("N", "leave", node))

    class Skipping(Tracing):
        def enter(self, node):
            trace.append(("N", "enter", node))
            if node is x:
                raise _v.SkipNode()
            return _v.ChainedVisitor.enter(self, node)

    cls = {"plain": _v.ChainedVisitor, "tracing": Tracing, "skipping": Skipping}[variant]
    inner = cls(make_recorder(_v.ASTVisitor, "i1", trace), make_recorder(_v.DispatchingVisitor, "i2", trace))
    outer_members = [make_recorder(_v.ASTVisitor, "o%d" % t, trace) for t in range(2)]
    outer_members.insert(position, inner)
    try:
        res = _v.ChainedVisitor(*outer_members).visit(doc)
    except Exception as e:  # noqa
        fail("chain:nested:raises", "a chain containing a nested chain raises %s" % type(e).__name__,
             {"nested": variant, "position": position, "pos": pos})
        return
    ctx.count()
    outer_tags = ["o0", "o1"]
    outer_tags.insert(position, "N")
    n_enter = (["N"] if variant != "plain" else []) + ["i1", "i2"]
    n_leave = ["i2", "i1"] + (["N"] if variant != "plain" else [])
    exp = []
    for q, e in enumerate(single):
        if variant == "skipping" and i0 < q < j0 - 1:
            continue
        if variant == "skipping" and q == i0:
            # the nested chain raises in its own enter (its members are not run); the other outer members enter …
            exp += [(t,) + key(e) for t in outer_tags]
            continue
        if variant == "skipping" and q == j0 - 1:
            # … and leave, in reverse
            exp += [(t,) + key(e) for t in outer_tags[::-1] if t != "N"]
            continue
        tags = []
        for t in (outer_tags if e[-2] == "enter" else outer_tags[::-1]):
            tags += (n_enter if e[-2] == "enter" else n_leave) if t == "N" else [t]
        exp += [(t,) + key(e) for t in tags]
    got = [(e[0],) + key(e) for e in trace]
    if got != exp or res is not doc or doc.to_dict() != before:
        if variant != "plain" and not any(g[0] == "N" for g in got):
            cause = "member-not-called"
        elif variant == "skipping" and len(got) > len(exp):
            cause = "skip-ignored"
        else:
            cause = "order"
        fail("chain:nested:%s" % cause,
             "a nested %s chain at position %d of a chain is not treated as one member (%s)" % (variant, position, cause),
             {"nested": variant, "position": position, "pos": pos})


# -- replacements by a node of ANOTHER class -----------------------------------------------------------

FAMILIES = {
    "selection": ("Field", "FragmentSpread", "InlineFragment"),
    "value": ("IntValue", "FloatValue", "StringValue", "BooleanValue", "NullValue", "EnumValue", "ListValue", "ObjectValue", "Variable"),
    "type": ("NamedType", "ListType", "NonNullType"),
    "definition": ("OperationDefinition", "FragmentDefinition", "SchemaDefinition", "SchemaExtension", "ScalarTypeDefinition",
                   "ScalarTypeExtension", "ObjectTypeDefinition", "ObjectTypeExtension", "InterfaceTypeDefinition",
                   "InterfaceTypeExtension", "UnionTypeDefinition", "UnionTypeExtension", "EnumTypeDefinition", "EnumTypeExtension",
                   "InputObjectTypeDefinition", "InputObjectTypeExtension", "DirectiveDefinition"),
}
_STOCK = {}


def stock():
    """one populated node of every class of the four families"""
    if not _STOCK:
        texts = [("query Q($a: T, $b: [T], $c: T!) { f(i: 1, fl: 1.5, s: \"x\", b: true, n: null, e: E, l: [1, 2], o: {k: 1}, v: $a) "
                  "...S @d ... on T @d { g } }\nfragment F on T @d { h }", {}),
                 ("schema @d { query: Q }\nextend schema @d { mutation: M }\nscalar S @d\nextend scalar S @d\ntype T implements I @d { f: Int }\n"
                  "extend type T implements J @d { g: Int }\ninterface I @d { f: Int }\nextend interface I @d { g: Int }\nunion U @d = A | B\n"
                  "extend union U @d = C\nenum E @d { A }\nextend enum E @d { B }\ninput N @d { x: Int }\nextend input N @d { y: Int }\n"
                  "directive @z(a: Int) on FIELD", {"allow_type_system": True})]
        for text, kw in texts:
            stack = [parse_doc(text, kw)]
            while stack:
                n = stack.pop()
                _STOCK.setdefault(kind(n), n)
                for _, _, c in children(n):
                    stack.append(c)
    return _STOCK


def family_of(k):
    for f, ks in FAMILIES.items():
        if k in ks:
            return f
    return None


def check_cross_kind(ctx, text, kw, fail, positions, rng, all_kinds=False):
    """`enter` returns a node of ANOTHER class admitted at that position (another selection / value / type / definition
    kind): the statement requires that the replacement is substituted at exactly that position, that `leave` is
    called with it, that nothing else changes and that nothing raises. Whether the replacement's own children are
    traversed is not stated and not checked here."""
    _v = V()
    doc0 = parse_doc(text, kw)
    idx0 = Index(doc0)
    base = []
    make_recorder(_v.ASTVisitor, 0, base).visit(doc0)
    ent0 = [e[-1] for e in base if e[-2] == "enter"]
    order0 = {id(n): q for q, n in enumerate(idx0.nodes)}
    base_keys = [key(e) for e in base]
    for pos in positions:
        if pos >= len(ent0) or idx0.parent.get(id(ent0[pos])) is None:
            continue
        fam = family_of(kind(ent0[pos]))
        if fam is None:
            continue
        i, j = segment(base, ent0[pos])
        others = [k for k in FAMILIES[fam] if k != kind(ent0[pos])]
        if fam == "value" and idx0.parent[id(ent0[pos])][1] == "default_value":
            others = [k for k in others if k != "Variable"]
        for to in (others if all_kinds else rng.sample(others, min(2, len(others)))):
            doc = parse_doc(text, kw)
            idx = Index(doc)
            x = idx.nodes[order0[id(ent0[pos])]]
            par = idx.parent[id(x)]
            r = copy.deepcopy(stock()[to])
            members = list(getattr(par[0], par[1])) if par[2] is not None else None
            trace = []
            ctx.count()
            sigk = "%s->%s" % (kind(x), to)
            try:
                res = make_recorder(_v.ASTVisitor, 0, trace, {id(x): ("replace", r)}).visit(doc)
            except Exception as e:  # noqa
                fail("replace-raises:%s:%s" % (sigk, type(e).__name__),
                     "returning a %s for a %s raises %s (the body of the %s method goes on with the replacement)" % (to, kind(x), type(e).__name__, kind(x)),
                     {"cross": to, "pos": pos})
                continue
            holder = getattr(par[0], par[1])
            if par[2] is not None:
                placed = [id(m) for m in holder] == [id(r) if q == par[2] else id(m) for q, m in enumerate(members)]
            else:
                placed = holder is r
            tr_nodes = [e for e in trace if e[-1] is not None]
            keys = [key(e) for e in tr_nodes]
            left_r = sum(1 for e in tr_nodes if e[-2] == "leave" and e[-1] is r) == 1
            outside = keys[:i + 1] == base_keys[:i + 1] and (keys[len(keys) - (len(base_keys) - j):] == base_keys[j:])
            if not (res is doc and placed and left_r and outside and len(tr_nodes) == len(trace)):
                cause = "not-substituted" if not placed else ("leave" if not left_r else "other-calls-differ")
                fail("replace-cross-kind:%s:%s" % (cause, sigk),
                     "returning a %s for a %s does not substitute exactly that node (%s)" % (to, kind(x), cause),
                     {"cross": to, "pos": pos})


# -- deep nesting --------------------------------------------------------------------------------------

DEEP_DEPTHS = (50, 100, 150, 200, 300, 400, 1000)
DEEP_POSITIONS = {
    "selection-set": lambda n: "{ " + "a { " * n + "a" + " }" * n + " }",
    "inline-fragment": lambda n: "{ " + "... { " * n + "a" + " }" * n + " }",
    "list-value": lambda n: "{ a(x: " + "[" * n + "1" + "]" * n + ") }",
    "object-value": lambda n: "{ a(x: " + "{k: " * n + "1" + "}" * n + ") }",
    "variable-default": lambda n: "query ($v: T = " + "[" * n + "1" + "]" * n + ") { a }",
}


def deep_case(text, flavour):
    """'parse:<Exc>' / 'ok' / 'unbalanced' / 'visit:<Exc>:<enters>:<leaves>' for a counting visitor (no recursion of its own)"""
    _v = V()
    try:
        doc = parse_doc(text, {})
    except RecursionError:
        return "parse:RecursionError"
    except Exception as e:  # noqa
        return "parse:%s" % type(e).__name__
    c = {"e": 0, "l": 0, "d": 0, "max": 0, "bad": False}
    base = _v.DispatchingVisitor if flavour == "dispatching" else _v.ASTVisitor

    class Count(base):
        def enter(self, node):
            c["e"] += 1
            c["d"] += 1
            c["max"] = max(c["max"], c["d"])
            return node

        def leave(self, node):
            c["l"] += 1
            c["d"] -= 1
            if c["d"] < 0:
                c["bad"] = True
    vis = Count()
    if flavour == "chain":
        vis = _v.ChainedVisitor(Count(), Count())
    try:
        res = vis.visit(doc)
    except RecursionError:
        return "visit:RecursionError:%d:%d" % (c["e"], c["l"])
    except Exception as e:  # noqa
        return "visit:%s:%d:%d" % (type(e).__name__, c["e"], c["l"])
    if res is not doc or c["e"] != c["l"] or c["d"] != 0 or c["bad"] or c["e"] == 0:
        return "unbalanced"
    return "ok"


def check_deep(ctx, fail):
    """Documents the parser accepts, nested 50..1000 deep at every position the traversal recurses through: where the
    visit succeeds the calls are balanced; a RecursionError of the traversal on a tree the parser produced is a failure
    of the property (the visitor needs about twice the Python frames per level the parser needs)."""
    table = {}
    for pos, mk in DEEP_POSITIONS.items():
        row = table.setdefault(pos, {})
        reported = set()
        for n in DEEP_DEPTHS:
            text = mk(n)
            for flavour in ("plain", "dispatching", "chain"):
                out = deep_case(text, flavour)
                row["%d:%s" % (n, flavour)] = out
                ctx.count()
                ctx.stat("deep:%s:%s" % (pos, ":".join(out.split(":")[:2])))
                if out.startswith("parse:"):
                    break           # not a parser-produced tree (C01 P1)
                detail = {"text": text if n <= 400 else "<%s nested %d deep>" % (pos, n), "kw": {}, "deep": pos, "depth": n,
                          "flavour": flavour, "outcome": out}
                if out == "ok":
                    ctx.nontrivial(("deep", pos, n, flavour))
                elif out.startswith("visit:RecursionError"):
                    sig = "raises:RecursionError:depth:%s" % pos
                    if sig not in reported:
                        reported.add(sig)
                        fail(sig, "the %s visitor raises RecursionError on a tree the parser produced (%s nested %d deep): enter was called "
                             "%s times and leave %s times" % (flavour, pos, n, out.split(":")[2], out.split(":")[3]), detail)
                else:
                    fail("deep:%s:%s" % (":".join(out.split(":")[:2]), pos), "deeply nested document: the visit is not balanced (%s)" % out, detail)
        # the exact boundaries of this run (they move with the number of Python frames already on the stack)
        lo, hi = 1, 1200
        while lo < hi:          # largest depth the parser accepts
            mid = (lo + hi + 1) // 2
            if deep_case(mk(mid), "plain").startswith("parse:"):
                hi = mid - 1
            else:
                lo = mid
        row["max_depth_parsed"] = lo
        a, b = 1, lo
        while a < b:            # largest depth the plain visitor traverses
            mid = (a + b + 1) // 2
            if deep_case(mk(mid), "plain") == "ok":
                a = mid
            else:
                b = mid - 1
        row["max_depth_visited"] = a
    ctx.extra["deep_nesting"] = table


def _nest(members, shape, rng, style):
    """group `members` (leaf visitors, in order) into nested ChainedVisitors of depth 2-3 following `shape`"""
    _v = V()

    class Sub(_v.ChainedVisitor):       # configures itself after super().__init__(), no enter / leave of its own
        def __init__(self, *vs):
            super().__init__()
            self.visitors = tuple(vs)

    def mk(items):
        cls = Sub if style == "subclass" else _v.ChainedVisitor
        if style == "assigned":
            c = _v.ChainedVisitor()
            c.visitors = list(items)
            return c
        return cls(*items)

    def build(sh, it):
        out = []
        for x in sh:
            out.append(mk(build(x, it)) if isinstance(x, list) else next(it))
        return out
    return mk(build(shape, iter(members)))


NEST_SHAPES = {
    3: [[[0, 0], 0], [0, [0, 0]], [[0], [0, 0]], [[[0, 0]], 0]],
    4: [[[0, 0], [0, 0]], [0, [0, [0, 0]]], [[[0, 0], 0], 0], [[0], [[0, 0], 0]]],
    5: [[[0, 0], 0, [0, 0]], [[0, [0, 0]], [0, 0]]],
}


def check_chain_nested_flat(ctx, text, kw, fail, k, shape_no, pos, style, rng):
    """A chain whose members are themselves plain chains (depth 2-3) behaves as its FLATTENING: the leaf visitors
    enter in order and leave in reverse around every node; when leaf j raises SkipNode at a node every leaf enters it,
    every leaf but the raiser leaves it (in reverse), its children are visited by nobody. Every j in turn."""
    _v = V()
    doc1 = parse_doc(text, kw)
    single = []
    make_recorder(_v.ASTVisitor, 0, single).visit(doc1)
    idx1 = Index(doc1)
    order1 = {id(n): q for q, n in enumerate(idx1.nodes)}
    ent1 = [e[-1] for e in single if e[-2] == "enter"]
    pos = min(pos, len(ent1) - 1)
    i0, j0 = segment(single, ent1[pos])
    shape = NEST_SHAPES[k][shape_no % len(NEST_SHAPES[k])]
    for j in [None] + list(range(k)):
        doc = parse_doc(text, kw)
        idx = Index(doc)
        x = idx.nodes[order1[id(ent1[pos])]]
        before = doc.to_dict()
        trace = []
        leaves = [make_recorder(_v.ASTVisitor if t % 2 == 0 else _v.DispatchingVisitor, t, trace,
                                {id(x): ("skip", None)} if t == j else None) for t in range(k)]
        try:
            res = _nest(leaves, shape, rng, style).visit(doc)
        except Exception as e:  # noqa
            fail("chain:nested-flat:raises", "a chain of chains raises %s" % type(e).__name__,
                 {"nested_flat": shape_no, "chain": k, "pos": pos, "style": style})
            return
        ctx.count()
        exp = []
        for q, e in enumerate(single):
            if j is not None and q == i0:
                exp += [(t,) + key(e) for t in range(k)]
            elif j is not None and q == j0 - 1:
                exp += [(t,) + key(e) for t in range(k - 1, -1, -1) if t != j]
            elif j is not None and i0 < q < j0:
                continue
            else:
                tags = range(k) if e[-2] == "enter" else range(k - 1, -1, -1)
                exp += [(t,) + key(e) for t in tags]
        got = [(e[0],) + key(e) for e in trace]
        if got != exp or res is not doc or doc.to_dict() != before:
            cause = "order" if j is None else ("skip-order" if sorted(map(str, got)) == sorted(map(str, exp)) else "skip-calls")
            fail("chain:nested-flat:%s" % cause,
                 "a chain of plain chains does not behave as its flattening (leaf visitors enter in order and leave in reverse; %s)"
                 % ("no skip" if j is None else "leaf %d raises SkipNode" % j),
                 {"nested_flat": shape_no, "chain": k, "pos": pos, "style": style, "member": j})
            return


def check_transforms(ctx, text, kw, fail):
    """the real helpers of py_gql.utilities.ast_transforms"""
    import py_gql.utilities.ast_transforms as T
    from py_gql._string_utils import camelcase_to_snakecase, snakecase_to_camelcase
    _ast = A()

    def expect(d, fn):
        if isinstance(d, dict):
            if d.get("__kind__") == "Field":
                fn(d)
            for v in d.values():
                expect(v, fn)
        elif isinstance(d, list):
            for v in d:
                expect(v, fn)
        return d

    def no_alias(d):
        d["alias"] = None

    def snake(d):
        d["name"]["value"] = camelcase_to_snakecase(d["name"]["value"])

    def camel(d):
        d["name"]["value"] = snakecase_to_camelcase(d["name"]["value"])

    for cls, fn in ((T.RemoveFieldAliasesVisitor, no_alias), (T.CamelCaseToSnakeCaseVisitor, snake), (T.SnakeCaseToCamelCaseVisitor, camel)):
        doc = parse_doc(text, kw)
        exp = expect(doc.to_dict(), fn)
        res = cls().visit(doc)
        ctx.count()
        if res is not doc or doc.to_dict() != exp:
            fail("transform:%s" % cls.__name__, "%s changes something else than the targeted attribute of every Field" % cls.__name__, {"transform": cls.__name__})

# -*- coding: utf-8 -*-
"""
C05 (execution half) — validated operations cannot go wrong; validation itself never raises.

Direct oracle = the implication itself on the real pipeline:
  (1) `validate_ast(schema, parse(text))` RETURNS for every parseable executable document;
  (2) if it returns no error, `graphql_blocking` under typed worlds and accepted variables never raises
      and the data has the shape determined by selection sets and schema types.
With the Lean driver: (3) every validator-accepted document satisfies the declarative `ValidDoc` predicate
(Spec/ExecSpec.lean) that the theorems `validated_no_internal_error` / `validated_shape` assume, and
(4) the model executes it without an internalError outcome and to the same response.
The verdict of each validation rule belongs to C06.
"""
import json
import traceback

from corr import exec_common as X
from corr import C04 as K
from gen import operation as go
from gen import schema as gs
from gen import leading_node as LN
from gen import overlap_memo as OM

PROPERTY = "C05"
RULE = ("three streams over generated schemas: valid generated operations, hand-shaped adversarial documents (duplicate "
        "fields with list/object/null/variable arguments, fragments on unknown types, nested multi-letter fragments with "
        "conflicts, a variable at two differently typed positions, cycles, unknown names, leaf/composite misuse, bad "
        "directives) and token mutants of valid documents; distinct by (schema, text); non-trivial = parsed and either "
        "rejected with >=1 error, or accepted and executed with >=1 resolved field; PLUS deterministic classes under FIXED worlds: "
        "divergent-args (interface field whose implementations declare different arguments), leading-node (gen/leading_node.py: one "
        "field node heading two different merged node lists; fixed schema + every generated schema), exclusive-then-strict "
        "(gen/overlap_memo.py: a (selection set, fragment) pair compared first under exclusive parents then strictly), rootless operations")
ASSUMPTIONS = [
    "typed worlds only for the safety implication (resolver results of the declared types, ResolverError allowed)",
    "variables rejected by coerce_variable_values are not 'accepted variables' and end the case",
    "subscriptions and __schema/__type are outside the generated streams",
]
TRUSTED = K.TRUSTED + ["shape checker in corr/C05.py (declarative: keys from CollectFields of the Python reference, value kinds from schema types)"]


def raise_site(e):
    tb = traceback.extract_tb(e.__traceback__)
    for fr in reversed(tb):
        if ("/py_gql/validation/" in fr.filename or "/py_gql/lang/visitor" in fr.filename) and not fr.name.startswith("<"):
            return fr.name
    return tb[-1].name if tb else "?"


# ---------------------------------------------------------------------------
# declarative shape
# ---------------------------------------------------------------------------

def shape_ok(sp, obj, sels, data, path, err_paths):
    """data is the response object for selections `sels` on object type `obj`"""
    if not isinstance(data, dict):
        return "object expected at %s" % path
    grouped = sp.collect(obj, sels, set())
    for k, nodes in grouped.items():
        # a validated selection only ever asks an object for fields its type defines
        for n in nodes:
            if sp.field_def(obj, n["name"]) is None:
                return "field %s selected (key %s) at %s is not defined on the runtime object type %s" % (n["name"], k, path, obj)
    want = [k for k, nodes in grouped.items() if sp.field_def(obj, nodes[0]["name"]) is not None]
    if list(data.keys()) != want:
        return "keys %s != %s at %s" % (list(data.keys()), want, path)
    for k in want:
        nodes = grouped[k]
        fd = sp.field_def(obj, nodes[0]["name"])
        # one UNAMBIGUOUS value per response key: every contributing selection denotes the same field call
        if len({n["name"] for n in nodes}) > 1:
            return "ambiguous response key %s at %s: fields %s" % (k, path, sorted({n["name"] for n in nodes}))
        if not fd.get("meta") and len({json.dumps(n["args"].get(obj), sort_keys=True) for n in nodes}) > 1:
            return "ambiguous response key %s at %s: different argument values" % (k, path)
        merged = []
        for n in nodes:
            merged += n["sels"] or []
        has_sub = any(n["sels"] is not None for n in nodes)
        # the runtime types below this field are known from the world (not guessed from the data)
        raw = None
        a = nodes[0]["args"].get(obj)
        if not fd.get("meta") and isinstance(a, str):
            o = sp.world.outcome(obj, fd["name"], fd["type"], path + [k], a)
            if o[0] == "val":
                raw = ("known", o[1])
        r = value_ok(sp, fd["type"], data[k], merged, has_sub, path + [k], err_paths, raw)
        if r:
            return r
    return None


def value_ok(sp, t, v, merged, has_sub, path, err_paths, raw=None):
    if t["k"] == "nonNull":
        if v is None:
            return None if json.dumps(path) in err_paths else "null at non-null position %s without error" % path
        return value_ok(sp, t["t"], v, merged, has_sub, path, err_paths, raw)
    if v is None:
        return None
    if t["k"] == "list":
        if not isinstance(v, list):
            return "list expected at %s" % path
        items = raw[1][1] if (raw and isinstance(raw[1], tuple) and raw[1][0] == "list" and len(raw[1][1]) == len(v)) else None
        for i, x in enumerate(v):
            r = value_ok(sp, t["t"], x, merged, has_sub, path + [i], err_paths, ("known", items[i]) if items is not None else None)
            if r:
                return r
        return None
    name = t["n"]
    td = sp.types.get(name)
    kind = td["kind"] if td else "scalar"
    if kind in ("scalar", "enum"):
        if has_sub:
            return "leaf with sub-selection at %s" % path
        if isinstance(v, dict) and "$float" not in v:
            return "object at leaf position %s" % path
        if kind == "enum" and v not in [x["name"] for x in td["values"]]:
            return "not an enum name at %s" % path
        return None
    if not has_sub:
        return "composite without sub-selection at %s" % path
    cands = [name] if kind == "object" else sp.world.possible(name)
    if kind != "object" and raw and isinstance(raw[1], tuple) and raw[1][0] == "obj" and raw[1][1] in cands:
        cands = [raw[1][1]]        # the runtime object type the world resolved to
    last = "no possible type at %s" % path
    for c in cands:
        r = shape_ok(sp, c, merged, v, path, err_paths)
        if r is None:
            return None
        last = r
    return last


def check_shape(dump, docj, opname, coerced, res, seed=None):
    op = X.get_operation_j(docj, opname)
    if op is None or "data" not in res or res["data"] is None:
        return None
    root = {"query": dump.get("query"), "mutation": dump.get("mutation")}.get(op["op"])
    if root is None:
        return None
    sp = X.PySpec(dump, docj, coerced, X.World(dump, seed if seed is not None else 0, 0))
    err_paths = {json.dumps(e["path"]) for e in res["errors"]}
    try:
        return shape_ok(sp, root, op["sels"], res["data"], [], err_paths)
    except X.SpecInternal as e:
        return "shape undefined: %s" % e


# ---------------------------------------------------------------------------
# documents WITHOUT locations: parsed with no_location=True, hand-built / transformed (loc=None, source=None on all or
# on SOME nodes). validate_ast must return for them too, with the verdict of the located parse of the same text.

def strip_locations(node, rng=None, p=1.0):
    """in place: loc = None, source = None on every node (rng given: on each node with probability p)"""
    from py_gql.lang import ast as _ast
    seen = set()

    def go(n):
        if isinstance(n, (list, tuple)):
            for x in n:
                go(x)
            return
        if not isinstance(n, _ast.Node) or id(n) in seen:
            return
        seen.add(id(n))
        if rng is None or rng.random() < p:
            try:
                n.loc = None
                n.source = None
            except AttributeError:
                pass
        for attr in getattr(n, "__slots__", ()):
            if attr not in ("loc", "source"):
                go(getattr(n, attr, None))
    go(node)
    return node


def _unloc_msg(m):
    """some messages print node reprs, which carry `loc=(a, b)` / `loc=None`"""
    import re
    return re.sub(r"loc=(\(\d+, \d+\)|None)", "loc=_", m)


def verdict_of(schema, ast):
    """('accepted' | 'rejected' | 'raises:<Class>:<site>', sorted error messages)"""
    from py_gql.validation import validate_ast
    try:
        v = validate_ast(schema, ast)
    except RecursionError as e:
        return "raises:RecursionError:" + raise_site(e), []
    except Exception as e:  # noqa
        return "raises:%s:%s" % (type(e).__name__, raise_site(e)), []
    # formatting / sorting of the error nodes must not raise either
    try:
        msgs = sorted(_unloc_msg(str(getattr(e, "message", e))) for e in v.errors)
        for e in v.errors:
            e.to_dict()
            str(e)
    except Exception as e:  # noqa
        return "raises:%s:error-formatting" % type(e).__name__, []
    return ("rejected" if v.errors else "accepted"), msgs


def unlocated_variants(ctx, schema, text, located_ast, full):
    """(kind, Document) for the same text without (all / some) locations"""
    import copy
    from py_gql.lang import parse
    kinds = ["no_location", "stripped", "partly-stripped"]
    if not full:
        if ctx.rng.random() > 0.6:
            return []
        kinds = [ctx.rng.choice(kinds)]
    out = []
    for k in kinds:
        if k == "no_location":
            out.append((k, parse(text, no_location=True)))
        elif k == "stripped":
            out.append((k, strip_locations(copy.deepcopy(located_ast))))
        else:
            out.append((k, strip_locations(copy.deepcopy(located_ast), ctx.rng, 0.5)))
    return out


def check_unlocated(ctx, schema, base, stream, label, text, located_ast, located_status, located_msgs):
    # all three variants for the fixed cases (and for 4 in 10 documents of the thorough tier), one at random otherwise
    full = stream == "fixed" or (bool(ctx.n(0, 1)) and ctx.rng.random() < 0.4)
    try:
        variants = unlocated_variants(ctx, schema, text, located_ast, full)
    except Exception as e:  # noqa
        ctx.stat("unlocated:harness-error:" + type(e).__name__)
        return
    for kind, doc in variants:
        ctx.count()
        st, msgs = verdict_of(schema, doc)
        ctx.stat("unlocated:%s:%s" % (kind, st.split(":")[0]))
        if st.startswith("raises:"):
            ctx.fail("validate-raises-unlocated:%s" % st[len("raises:"):],
                     "validate_ast raises on a document without locations (%s) instead of returning its list of errors" % kind,
                     dict(base, unlocated=kind, located_verdict=located_status))
        elif st != located_status or msgs != located_msgs:
            ctx.fail("unlocated-verdict-differs:%s:%s->%s" % (kind, located_status, st),
                     "the verdict (or the error messages) of validate_ast on a document without locations differs from the "
                     "verdict on the located parse of the same text", dict(base, unlocated=kind, located=located_msgs[:5], got=msgs[:5]))


def _has_empty_name(doc):
    from py_gql.lang import ast as _ast
    stack = list(doc.definitions)
    while stack:
        n = stack.pop()
        if isinstance(n, _ast.FragmentDefinition) and not n.name.value:
            return True
        if isinstance(n, _ast.Field) and (not n.name.value or (n.alias is not None and not n.alias.value)):
            return True
        if isinstance(n, _ast.FragmentSpread) and not n.name.value:
            return True
        ss = getattr(n, "selection_set", None)
        if ss is not None:
            stack.extend(ss.selections)
    return False


def one_document(ctx, schema, holder, dump, sdl, enum_kind, label, text, variables, opname, lean_batch, stream, seeds=None):
    from py_gql.lang import parse
    from py_gql.exc import GraphQLSyntaxError
    from py_gql.validation import validate_ast
    rng = ctx.rng
    try:
        ast = parse(text)
    except GraphQLSyntaxError:
        ctx.stat(stream + ":unparseable")
        return "syntax"
    except RecursionError:
        ctx.stat(stream + ":parse-recursion")
        return "syntax"
    ctx.count()
    base = {"sdl": sdl, "enum_kind": enum_kind, "document": text, "variables": variables, "operation_name": opname, "label": label}
    # parser guarantee assumed by accepted_cannot_go_wrong_merged (hne, AliasesNonEmpty; proved for the parser MODEL:
    # Props/C05_names.lean parsed_names_nonempty): no fragment name, alias, field name or spread name is empty
    if _has_empty_name(ast):
        ctx.fail("corr:empty-name-in-parsed-document", "parse() returned a document with an empty fragment name / alias / field name "
                 "(hypotheses hne / AliasesNonEmpty of Props/C05_overlap.lean)", base, kind="correspondence")
    try:
        v = validate_ast(schema, ast)
    except RecursionError as e:
        ctx.stat(stream + ":validate-raises:RecursionError")
        ctx.fail("validate-raises:RecursionError:" + raise_site(e), "validate_ast raises RecursionError", base)
        return "raises:RecursionError"
    except Exception as e:  # noqa
        site = raise_site(e)
        ctx.stat(stream + ":validate-raises:" + type(e).__name__)
        ctx.nontrivial((sdl, text))
        _sample(ctx, stream, {"stream": stream, "label": label, "document": text[:400], "variables": variables,
                              "validate": "RAISES %s in %s" % (type(e).__name__, site)})
        ctx.fail("validate-raises:%s:%s" % (type(e).__name__, site),
                 "validate_ast raises %s (in %s) instead of returning its list of errors" % (type(e).__name__, site),
                 dict(base, small=shrink_raise(schema, text, type(e), site)))
        return "raises:" + type(e).__name__
    try:
        located_msgs = sorted(_unloc_msg(str(getattr(e, "message", e))) for e in v.errors)
        check_unlocated(ctx, schema, base, stream, label, text, ast, "rejected" if v.errors else "accepted", located_msgs)
    except RecursionError:
        ctx.stat("unlocated:harness-error:RecursionError")
    if v.errors:
        ctx.stat(stream + ":rejected")
        if label:
            ctx.stat("rejected-adversarial:" + label)
        ctx.nontrivial((sdl, text))
        _sample(ctx, stream, {"stream": stream, "label": label, "document": text[:400], "variables": variables,
                              "validate": "rejected: %d error(s), first: %s" % (len(v.errors), str(v.errors[0])[:120])})
        return "rejected"
    ctx.stat(stream + ":accepted")
    if label:
        ctx.stat("accepted-adversarial:" + label)
    for k in range(len(seeds) if seeds is not None else 6 if (label or "").startswith(("same-key", "untyped-inline", "merge-safe")) else 2):
        c = K.Case()
        c.sdl, c.enum_kind, c.text, c.variables, c.opname = sdl, enum_kind, text, variables, opname
        # `seeds`: a named probe with FIXED worlds (deterministic class: independent of what consumed ctx.rng before)
        c.seed, c.mode, c.features = (seeds[k] if seeds is not None else rng.randint(0, 10 ** 6)), 0, set()
        c.impl = c.docj = c.coerced = None
        try:
            st = K.run_one(schema, holder, dump, c)
        except RecursionError:
            st = "harness-error:RecursionError"
        except Exception as e:  # noqa
            ctx.fail("prepare-raises:%s" % type(e).__name__, "variable coercion / operation selection raises an undocumented exception",
                     dict(base, error=str(e)[:200]))
            return "accepted"
        if st != "ok":
            ctx.stat(stream + ":" + st)
            return "accepted"
        ctx.count()
        if "internal" in c.impl:
            ctx.fail("internal-exception-on-validated-operation:%s:%s" % (c.impl["internal"], label or K.features_sig(text)),
                     "validation accepted the document, execution under a typed world raised %s" % c.impl["internal"],
                     c.replay_data({"impl": c.impl, "label": label}))
            return "accepted"
        if "data" in c.impl:
            for e in c.impl["errors"]:
                if e["kind"] == "directive":
                    # invalid @skip/@include condition at run time: a field error (root: data null), never an exception
                    ctx.stat("directive-field-error:" + ("root" if not e["path"] else "nested"))
                    if (not e["path"]) != (c.impl["data"] is None):
                        ctx.fail("directive-error-shape:%s" % (label or K.features_sig(text)),
                                 "a directive-condition error without path must come with data = null (root selection set), one with a path with data",
                                 c.replay_data({"impl": c.impl, "label": label}))
            why = check_shape(dump, c.docj, c.opname, c.coerced, c.impl, c.seed)
            if why:
                ctx.fail("shape-mismatch:%s" % (label or K.features_sig(text)),
                         "validation accepted the document but the response data does not have the shape given by selections and types: " + why,
                         c.replay_data({"impl": c.impl, "label": label}))
                return "accepted"
            if c.impl["data"]:
                ctx.nontrivial((sdl, text, c.seed))
        if k == 0:
            _sample(ctx, stream, {"stream": stream, "label": label, "document": text[:400], "variables": variables,
                                  "validate": "accepted", "seed": c.seed, "execution": json.dumps(c.impl)[:300]})
        if lean_batch is not None:
            lean_batch.append((dump, c, label))
    return "accepted"


_SAMPLED = {}


def _sample(ctx, stream, obj, per_stream=2):
    """a few written-out cases per stream and verdict"""
    key = (id(ctx), stream, obj["validate"].split(":")[0].split(" ")[0])
    if _SAMPLED.get(key, 0) < per_stream:
        _SAMPLED[key] = _SAMPLED.get(key, 0) + 1
        ctx.sample(obj, cap=24)


def shrink_raise(schema, text, cls, site):
    """smallest sub-document (by deleting selections) that still raises the same way — reported beside the original"""
    from py_gql.lang import parse, print_ast
    from py_gql.validation import validate_ast
    cur = text
    for _ in range(40):
        doc = parse(cur)
        sets = []

        def walk(n):
            ss = getattr(n, "selection_set", None)
            if ss is not None:
                sets.append(ss)
                for s in ss.selections:
                    walk(s)
        for d in doc.definitions:
            walk(d)
        changed = False
        for ss in sets:
            for k in range(len(ss.selections)):
                if len(ss.selections) <= 1:
                    break
                removed = ss.selections.pop(k)
                cand = print_ast(doc)
                try:
                    validate_ast(schema, parse(cand))
                    same = False
                except Exception as e:  # noqa
                    same = type(e) is cls and raise_site(e) == site
                if same:
                    cur = cand
                    changed = True
                    break
                ss.selections.insert(k, removed)
            if changed:
                break
        if not changed:
            break
    return cur


def history_variants(rng, text):
    """documents that USE names defined by `text` without defining them (fragment definition / variable definitions removed)"""
    from py_gql.lang import parse, print_ast
    from py_gql.lang import ast as _ast
    out = []
    try:
        doc = parse(text)
    except Exception:  # noqa
        return out
    frags = [d for d in doc.definitions if isinstance(d, _ast.FragmentDefinition)]
    if frags:
        victim = rng.choice(frags)
        doc2 = parse(text)
        doc2.definitions = [d for d in doc2.definitions
                            if not (isinstance(d, _ast.FragmentDefinition) and d.name.value == victim.name.value)]
        out.append(("fragment-definition-dropped", print_ast(doc2)))
    doc3 = parse(text)
    changed = False
    for d in doc3.definitions:
        if isinstance(d, _ast.OperationDefinition) and d.variable_definitions:
            d.variable_definitions = d.variable_definitions[1:] if rng.random() < 0.5 else []
            changed = True
    if changed:
        out.append(("variable-definition-dropped", print_ast(doc3)))
    return out


_FRESH = {}


def fresh_validator(ctx):
    from common import REPO
    from corr.fresh_validate import FreshValidator
    if id(ctx) not in _FRESH:
        _FRESH[id(ctx)] = FreshValidator(REPO / "src")
    return _FRESH[id(ctx)]


def compare_with_fresh_process(ctx, sdl, enum_kind, judged):
    """the verdict after a history of earlier validations in this process must be the verdict of a fresh process"""
    if not judged:
        return
    fv = fresh_validator(ctx)
    for stream, label, text, vs, opname, st, history in judged:
        r = fv.verdict(sdl, text)
        ctx.count()
        ctx.stat("fresh-process:" + r["status"].split(":")[0])
        if r["status"].startswith("server"):
            ctx.notes.append("fresh-process validator: " + r["status"])
            continue
        if r["status"] != st:
            ctx.fail("history-dependent-verdict:%s->%s:%s" % (r["status"].split(":")[0], st.split(":")[0], label or stream),
                     "validate_ast answers '%s' after earlier validations in the same process but '%s' in a fresh process%s"
                     % (st, r["status"], (" (%s)" % r.get("first")) if r.get("first") else ""),
                     {"sdl": sdl, "enum_kind": enum_kind, "document": text, "variables": vs, "operation_name": opname,
                      "label": label, "in_process": st, "fresh_process": r, "history": history,
                      "note": "replay validates the documents of `history` first, in this order, then compares with a fresh process"})


def run(ctx):
    rng = ctx.rng
    n_schemas = ctx.n(9, 44)
    use_lean = ctx.model_ok and ctx.driver.available()
    lean_batch = [] if use_lean else None
    fixed_cases(ctx, lean_batch)
    built = []
    for si in range(n_schemas):
        if ctx.time_left() < 15:
            ctx.notes.append("stopped early at schema %d (time)" % si)
            break
        desc = gs.gen_schema(rng, size=rng.randint(1, 4), with_directives=False)
        sdl = gs.to_sdl(desc)
        enum_kind = rng.randint(0, 2)
        try:
            schema, holder, dump = X.build(sdl, enum_kind)
        except Exception as e:  # noqa
            ctx.stat("schema-build-failed:" + type(e).__name__)
            continue
        valid_ops = []
        docs = []     # (stream, label, text, variables, opname)
        for j in range(ctx.n(8, 12)):
            # p_avoid_v2 low: this property WANTS identical fields with structured arguments
            op = go.gen_operation(rng, desc, size=rng.randint(1, 3), p_avoid_v2=0.5)
            valid_ops.append(op)
            docs.append(("valid", None, op["text"], op["variables"], op["opname"]))
        for label, text, vs in go.adversarial_documents(rng, desc, ctx.n(16, 24)):
            docs.append(("adversarial", label, text, vs, None))
        for j in range(ctx.n(12, 20)):
            op = rng.choice(valid_ops)
            text = op["text"]
            for _ in range(rng.randint(1, 2)):
                text = go.mutate_text(rng, text, desc)
            docs.append(("mutant", None, text, op["variables"], op["opname"]))
        # HISTORIES: the requests of one process come in random order, and documents that reuse the fragment,
        # variable and operation names of EARLIER documents without defining them come after those documents
        rng.shuffle(docs)
        for op in valid_ops:
            for label, text in history_variants(rng, op["text"]):
                idx = next(i for i, d in enumerate(docs) if d[0] == "valid" and d[2] == op["text"])
                docs.insert(rng.randint(idx + 1, len(docs)), ("history", label, text, op["variables"], op["opname"]))
        judged = []
        for di, (stream, label, text, vs, opname) in enumerate(docs):
            st = one_document(ctx, schema, holder, dump, sdl, enum_kind, label, text, vs, opname, lean_batch, stream)
            if st != "syntax" and (stream == "history" or (st == "accepted" and stream != "valid") or rng.random() < 0.08):
                judged.append((stream, label, text, vs, opname, st, [d[2] for d in docs[:di]]))
        compare_with_fresh_process(ctx, sdl, enum_kind, judged)
        built.append((schema, holder, dump, sdl, enum_kind, desc))
        if use_lean and len(lean_batch) >= 150:
            flush_lean(ctx, lean_batch)
            del lean_batch[:]
    # generated CLASS leading-node on every schema of this run (a function of the schema description; fixed worlds), after
    # the random streams so that it does not shift them
    for schema, holder, dump, sdl, enum_kind, desc in built:
        if ctx.time_left() < 8:
            ctx.notes.append("leading-node class stopped early (time)")
            break
        for label, text, vs in LN.leading_node_documents(desc) + OM.exclusive_then_strict_documents(desc):
            ctx.stat("class:" + label)
            one_document(ctx, schema, holder, dump, sdl, enum_kind, label, text, vs, None, lean_batch, "class", seeds=[0, 1, 2])
    if use_lean and lean_batch:
        flush_lean(ctx, lean_batch)
    if id(ctx) in _FRESH:
        _FRESH.pop(id(ctx)).close()
    if not use_lean:
        ctx.notes.append("Lean driver not available: only the direct oracle ran")


FIXED_SDL = ("type Query { a(l: [Int], x: String, o: In, i: Int): Int, b: Ob, u: U, n: Node, ns: [Node!], s: String!, lim(limit: Int = 2, o: In = {a: 1}): Int }\n"
             "type Ob implements Node { id: ID, t(x: Int): String, a(l: [Int]): Int, b: Ob, only: Other }\n"
             "type Other implements Node { id: ID, t(x: Int): String, c: String, b: Ob, d: Int }\n"
             "interface Node { id: ID, t(x: Int): String, b: Ob }\ninput In { a: Int }\nunion U = Ob | Other\n"
             "directive @custom(flag: Boolean!, n: Int = 3) on FIELD\n")

FIXED = [
    ("V1-inline-unknown-type", "{ ... on Unknown { a } }", {}),
    ("V1-fragment-unknown-type", "{ ...F } fragment F on Unknown { a }", {}),
    ("V1-nested-unknown-type", "{ b { ... on Unknown { a } } }", {}),
    ("V2-list-argument", "{ a(l:[1]) a(l:[1]) }", {}),
    ("V2-object-argument", "{ a(o:{a:1}) a(o:{a:1}) }", {}),
    ("V2-null-argument", "{ a(x:null) a(x:null) }", {}),
    ("V2-variable-argument", "query($v:String){ a(x:$v) a(x:$v) }", {"v": "s"}),
    ("V2-different-lists", "{ a(l:[1]) a(l:[2]) }", {}),
    ("V3-variable-two-positions", "query($v:String){ x: a(l:$v) y: a(x:$v) }", {"v": "s"}),
    ("V3-variable-two-positions-directive", "query($v:String = \"t\"){ a @skip(if:$v) y: a(x:$v) }", {}),
    ("nested-fragment-conflict", "{ ...Fa } fragment Fa on Query { ...Fbb a } fragment Fbb on Query { ...Fccc } fragment Fccc on Query { a: s }", {}),
    ("abstract-spreads", "{ n { id ... on Ob { a b { id } } ... on Other { c } ...NF } u { __typename ... on Node { id } } } fragment NF on Node { id ... on Ob { a } }", {}),
    ("typename-only", "{ __typename }", {}),
    ("V8-list-literal-at-directive-condition", "{ a @include(if: [true]) }", {}),
    ("V8-list-literal-with-variable", "query($b: Boolean!) { s @skip(if: [$b]) }", {"b": False}),
    ("V8-list-literal-nested", "{ b { id @include(if: [true]) } a }", {}),
    ("V8-list-literal-under-list-item", "{ ns { b { id @skip(if: [true]) } } s }", {}),
    ("V8-list-literal-at-spread", "{ b { ...G @skip(if: [false]) } a } fragment G on Ob { id }", {}),
    ("directive-null-variable-root", "query($v: Boolean = true){ b @skip(if:$v) { id } a }", {"v": None}),
    ("directive-null-variable-root-include", "query($v: Boolean = false){ a s @include(if:$v) }", {"v": None}),
    ("directive-null-variable-nested", "query($v: Boolean = true){ b { id @include(if:$v) } a }", {"v": None}),
    ("directive-null-variable-list", "query($v: Boolean = true){ ns { id t @skip(if:$v) } s }", {"v": None}),
    ("directive-null-variable-abstract-item", "query($v: Boolean = true){ ns { __typename ... on Other { c @skip(if: $v) } } u { ... on Ob { id @skip(if: $v) } } }", {"v": None}),
    ("directive-null-variable-fragment", "query($v: Boolean = true){ b { ...F } a } fragment F on Ob { id b { a @include(if:$v) } }", {"v": None}),
    ("directive-null-variable-spread-twice", "query($v: Boolean = true){ b { ... on Ob { ...F } ...F id } a } fragment F on Ob { id a @skip(if:$v) }", {"v": None}),
    ("directive-null-variable-spread-nested-quirk", "query($v: Boolean = true){ ... on Query { ...Q } ...Q } fragment Q on Query { b { ...F ... { ...F } } } fragment F on Ob { b { id @include(if:$v) } }", {"v": None}),
    ("directive-null-variable-inline", "query($v: Boolean = true){ n { ... on Node @skip(if:$v) { id } } a }", {"v": None}),
    ("directive-null-variable-default-used", "query($v: Boolean = true){ b @skip(if:$v) { id } a }", {}),
    ("custom-directive-null-variable", "query($v: Boolean = true){ a @custom(flag: $v) s }", {"v": None}),
    ("custom-directive-null-variable-nested", "query($v: Boolean = true, $n: Int = 1){ b { id @custom(flag: $v, n: $n) t } ns { id @custom(flag: true, n: $n) } }", {"v": None, "n": None}),
    ("custom-directive-ok", "query($v: Boolean = true){ a @custom(flag: $v) b { id @custom(flag: false) } }", {"v": False}),
    ("list-literal-at-scalar-argument", "{ a(i: [1]) }", {}),
    ("nested-subconflict", "{ b { b { x: id } } b { b { x: a } } }", {}),
    ("nested-subconflict-deep", "{ b { b { b { x: id y: a } } } b { b { b { y: id x: a } } } }", {}),
    ("nested-subconflict-args", "{ b { b { t(x: 1) } } b { b { t(x: 2) } } }", {}),
    ("nested-subconflict-fragments", "{ b { ...X1 } b { ...X2 } } fragment X1 on Ob { b { x: id } } fragment X2 on Ob { b { x: a } }", {}),
    ("nested-subconflict-abstract", "{ n { b { x: id } } n { b { x: t } ... on Ob { b { x: a } } } }", {}),
    ("nested-subconflict-type", "{ u { ... on Ob { b { x: a } } ... on Other { b { x: id } } } }", {}),
    ("nested-subconflict-two", "{ b { x: id b { y: id } } b { x: a b { y: a } } }", {}),
    # seeded C05-3 (missed at /repo 6013951: its recorded signature was another seed's): list literals one of which is a strict
    # prefix of the other are DIFFERENT arguments (`_same_value` must not zip without a length check)
    ("prefix-list-empty-vs-one", "{ a(l: []) a(l: [1]) }", {}),
    ("prefix-list-one-vs-two", "{ a(l: [1, 2]) a(l: [1]) }", {}),
    ("prefix-list-nested-fragment", "{ b { a(l: [3]) ...PL } } fragment PL on Ob { a(l: [3, 4]) }", {}),
    ("prefix-list-variables", "query($p: Int, $q: Int){ a(l: [$p]) a(l: [$p, $q]) }", {"p": 1, "q": 2}),
    ("null-literal-vs-default", "{ lim lim(limit: null) }", {}),
    ("null-literal-vs-default-reversed", "{ lim(limit: null) lim }", {}),
    ("null-literal-vs-default-object", "{ lim(o: null) lim }", {}),
    ("null-literal-vs-default-nested-fragment", "{ lim ...N } fragment N on Query { lim(limit: null) }", {}),
    ("null-literal-both", "{ lim(limit: null) lim(limit: null) }", {}),
    ("fragment-cycle-behind-entry", "{ ...Entry } fragment Entry on Query { ...A } fragment A on Query { ...B } fragment B on Query { ...A s }", {}),
    ("fragment-cycle-behind-entry-chain", "{ ...E1 } fragment E1 on Query { s ...E2 } fragment E2 on Query { ...A } fragment A on Query { ...B } fragment B on Query { ...C } fragment C on Query { ...A }", {}),
    ("fragment-cycle-behind-entry-defined-last", "{ ...Entry } fragment A on Query { ...B } fragment B on Query { ...A s } fragment Entry on Query { ...A }", {}),
    ("fragment-cycle-behind-entry-middle", "{ ...Entry } fragment A on Query { ...B } fragment Entry on Query { ...A } fragment B on Query { ...A s }", {}),
    ("fragment-cycle-behind-two-entries", "{ ...X ...Y } fragment X on Query { ...A } fragment Y on Query { ...X } fragment A on Query { ...B } fragment B on Query { ...A }", {}),
    ("fragment-cycle-behind-entry-nested-field", "{ b { ...Eb } } fragment Eb on Ob { b { ...Ab } } fragment Ab on Ob { b { ...Bb } } fragment Bb on Ob { ...Ab id }", {}),
    ("fragment-cycle-beside-acyclic", "{ ...Loop ...Alpha } fragment Alpha on Query { s } fragment Loop on Query { ...Back } fragment Back on Query { ...Loop }", {}),
    ("rootless-mutation", "mutation { a }", {}),
    ("rootless-subscription-fragments", "subscription { ...F } fragment F on Query { s b { id } }", {}),
    ("rootless-mutation-beside-query", "query Q { a } mutation M { a b { id } }", {}),
    ("fragment-cycle-beside-acyclic-first", "{ ...Alpha ...Loop } fragment Loop on Query { ...Back s } fragment Back on Query { ...Loop ...Alpha } fragment Alpha on Query { s }", {}),
    ("fragment-cycle-beside-acyclic-last", "{ ...Loop ...Zed } fragment Zed on Query { s } fragment Loop on Query { ...Back } fragment Back on Query { ...Loop }", {}),
    ("fragment-self-cycle-beside-acyclic", "{ ...Self ...Alpha } fragment Alpha on Query { s } fragment Self on Query { s ...Self }", {}),
    ("fragment-cycle-three-beside-acyclic", "{ ...Alpha ...L1 } fragment L1 on Query { ...L2 } fragment L2 on Query { ...L3 ...Alpha } fragment L3 on Query { ...L1 } fragment Alpha on Query { a }", {}),
    ("seen-fragments-quirk", "{ ... on Query { ...F } ...F n { ... { ...G } ...G } } fragment F on Query { s a } fragment G on Node { id }", {}),
    ("meta-on-non-root", "{ b { __schema { types { name } } } }", {}),
    ("same-key-object-then-abstract", "{ n { ... on Ob { k: a } ... on Node { k: id } } }", {}),
    ("same-key-abstract-then-object", "{ n { ... on Node { k: id } ... on Ob { k: a } } }", {}),
    ("same-key-object-then-abstract-args", "{ n { ... on Ob { k: t(x: 1) } ... on Node { k: t(x: 2) } } }", {}),
    ("same-key-abstract-then-object-args", "{ n { ... on Node { k: t(x: 2) } ... on Ob { k: t(x: 1) } } }", {}),
    ("same-key-object-then-abstract-args-union", "{ u { ... on Ob { k: t(x: 1) } ... on Node { k: t } } }", {}),
    ("same-key-object-then-abstract-nested", "{ n { ... on Ob { ...FO } ...FN } } fragment FO on Ob { k: id } fragment FN on Node { k: t }", {}),
    ("same-key-abstract-then-object-nested", "{ n { ...FN ... on Ob { ...FO } } } fragment FO on Ob { k: id } fragment FN on Node { k: t }", {}),
    ("same-key-object-then-object-exclusive", "{ n { ... on Ob { k: a } ... on Other { k: c } } }", {}),
    ("spread-disabled-then-enabled", "{ a ...F @skip(if: true) ...F } fragment F on Query { s }", {}),
    ("spread-disabled-then-enabled-vars", "query($x: Boolean!, $y: Boolean!) { ...F @include(if: $x) a ...F @include(if: $y) } fragment F on Query { s }", {"x": False, "y": True}),
    ("spread-disabled-then-enabled-nested", "{ ... { ...F @skip(if: true) } b { id } ...G } fragment G on Query { ...F } fragment F on Query { s }", {}),
    ("untyped-inline-leak-leaf", "{ n { b { ... { id } } ... { a } } }", {}),
    ("untyped-inline-leak-directive", "{ n { b { ... @include(if: true) { id } } ... @skip(if: false) { a only { c } } } }", {}),
    ("untyped-inline-leak-composite", "{ n { b { ... { id } } x: b { id } ... { only { c } } } }", {}),
    ("untyped-inline-leak-nested-list", "{ ns { b { b { ... { ... { id } } } } ... { a } } }", {}),
    ("untyped-inline-leak-leaf-as-composite", "{ n { b { ... { id } } ... { a { x } } } }", {}),
    ("untyped-inline-leak-composite-as-leaf", "{ n { b { ... { id } } ... { only } } }", {}),
    ("untyped-inline-leak-union", "{ u { ... on Node { b { ... { id } } } ... { id a } } }", {}),
    ("untyped-inline-leak-other-level", "{ b { ... { id } } n { ... { a } } }", {}),
    ("merge-safe-exclusive-leaf", "{ n { __typename ... on Ob { v: a } ... on Other { v: d } } }", {}),
    ("merge-safe-exclusive-list-composite", "{ ns { __typename ... on Ob { v: a w: b { id } } ... on Other { v: d w: b { t } } } u { ... on Ob { v: b { id } } ... on Other { v: b { t } } } }", {}),
    ("merge-safe-exclusive-fragments", "{ n { ...FA ...FB } } fragment FA on Ob { v: a } fragment FB on Other { v: d }", {}),
    ("merge-safe-levels", "{ v: s b { v: id b { v: a } } }", {}),
    ("merge-safe-levels-fragment", "{ v: s b { ...L } } fragment L on Ob { v: id b { v: a } }", {}),
    ("same-key-same-field-both-orders", "{ n { ... on Node { k: id } ... on Ob { k: id } } u { ... on Ob { k: id } ... on Node { k: id } } }", {}),
]


def fragment_chain(ctx, schema):
    """a FLAT document: a chain of N fragments each spreading the next (syntactic nesting depth 2) must validate"""
    from py_gql.lang import parse
    for n in (200, 1100):
        text = "{ ...C0 }\n" + "\n".join("fragment C%d on Query { ...C%d }" % (i, i + 1) for i in range(n)) + \
               "\nfragment C%d on Query { s }" % n
        st, _ = verdict_of(schema, parse(text))
        ctx.count()
        ctx.stat("fragment-chain:%d:%s" % (n, st.split(":")[0] if not st.startswith("raises") else st[:len("raises:RecursionError")]))
        if st.startswith("raises:"):
            ctx.fail("validate-raises:%s:fragment-chain-%d" % (st.split(":")[1], n),
                     "validate_ast raises on a flat chain of %d fragments (each one only spreads the next; nesting depth 2): %s" % (n, st),
                     {"sdl": FIXED_SDL, "document": text[:120] + "...", "fragments": n, "label": "fragment-chain", "small": None})
        elif st != "accepted":
            ctx.fail("fragment-chain-rejected:%d" % n, "a valid chain of fragments is rejected", {"sdl": FIXED_SDL, "fragments": n})


# One AST field node executed against SEVERAL runtime object types in one request, whose own definitions of the interface
# field declare DIFFERENT arguments / defaults (valid: extra optional arguments, other defaults). Every runtime type must
# get the arguments of ITS field definition (per-execution caches keyed by the node alone serve the first type's to all:
# seeded C05-2 / C04-1). Worlds are fixed seeds, so the class does not depend on the random streams.
DIVERGENT_SDL = ("type Query { pets: [Pet!]!, pet: Pet, mix: [U] }\n"
                 "interface Pet { name(up: Boolean = false): String, kin(n: Int = 1): [Pet] }\n"
                 "type Dog implements Pet { name(up: Boolean = true, extra: Int = 3): String, kin(n: Int = 2, deep: Boolean = false): [Pet], bark: Int }\n"
                 "type Cat implements Pet { name(up: Boolean = false): String, kin(n: Int = 1): [Pet], lives: Int! }\n"
                 "type Eel implements Pet { name(up: Boolean = false, volts: Float = 1.5, tag: String = \"e\"): String, kin(n: Int = 7): [Pet] }\n"
                 "union U = Dog | Cat | Eel\n")
DIVERGENT = [
    ("divergent-args-defaults", "{ pets { __typename name } }", {}),
    ("divergent-args-literal", "{ pets { __typename n: name(up: true) } }", {}),
    ("divergent-args-variable", "query($u: Boolean){ pets { name(up: $u) } }", {"u": False}),
    ("divergent-args-inline", "{ pets { ... on Pet { name } } }", {}),
    ("divergent-args-fragment", "{ pets { __typename ...F } } fragment F on Pet { n: name }", {}),
    ("divergent-args-nested-list", "{ pets { kin { name kin(n: 3) { name } } } }", {}),
    ("divergent-args-union", "{ mix { ... on Pet { name } } }", {}),
    ("divergent-args-merged-nodes", "{ pets { name ... on Dog { name(up: true) bark } } }", {}),
]
DIVERGENT_SEEDS = [0, 1, 2, 3, 5, 8, 13, 21]

# mutation trial ex2/M4: a fragment on an INTERFACE inside a union-typed field must not apply to a union member that has
# a field of the same name but does not implement the interface (shape: the key must be absent for that member)
LOOKALIKE_SDL = ("type Query { thing: Thing, things: [Thing!] }\n"
                 "interface Pet { name: String }\n"
                 "type Dog implements Pet { name: String, bark: Int }\n"
                 "type Robot { id: Int, name: String }\n"
                 "union Thing = Dog | Robot\n")
LOOKALIKE = [
    ("lookalike-member-inline", "{ thing { __typename ... on Pet { name } ... on Robot { id } } things { __typename ... on Pet { name } } }", {}),
    ("lookalike-member-spread", "{ things { __typename ...P ... on Robot { id } } t2: thing { ...P } } fragment P on Pet { n: name }", {}),
]
LOOKALIKE_SEEDS = list(range(10))


# ---------------------------------------------------------------------------
# NAMED PROBES of scale (no randomness): documents the PARSER accepts (it nests to ~250 levels) at depth 50 (must be
# validated and executed) and 200 (today: RecursionError, findings H13a / H13b). A failure at depth 50 has its own
# signature and is NOT covered by the known findings.
DEEP_SDL = "type Query { q: Query, f(o: In): Int }\ninput In { n: In, a: Int }\n"
DEEP_DEPTHS = (50, 200)


def deep_document(kind, d):
    if kind == "selection-set":
        return "{ " + "q { " * d + "f" + " }" * d + " }"
    if kind == "input-object-literal":
        return "{ f(o: " + "{n: " * d + "{a: 1}" + "}" * d + ") }"
    if kind == "fragment-chain":
        return "{ ...F0 } " + " ".join("fragment F%d on Query { q { ...F%d } }" % (i, i + 1) for i in range(d)) + " fragment F%d on Query { f }" % d
    raise ValueError(kind)


def deep_outcome(kind, d):
    """('ok' | 'rejected' | 'validate-raises:<Class>' | 'execute-raises:<Class>' | 'unparseable')"""
    from py_gql import build_schema, graphql_blocking
    from py_gql.lang import parse
    from py_gql.validation import validate_ast
    schema = build_schema(DEEP_SDL)
    schema.default_resolver = lambda root, c, info, **a: 1 if info.field_definition.name == "f" else {}
    text = deep_document(kind, d)
    try:
        ast = parse(text)
    except Exception:  # noqa  (the parser's own limit belongs to C01)
        return "unparseable"
    try:
        v = validate_ast(schema, ast)
    except RecursionError:
        return "validate-raises:RecursionError"
    except Exception as e:  # noqa
        return "validate-raises:" + type(e).__name__
    if v.errors:
        return "rejected"
    from py_gql import process_graphql_query
    # both executors the entry points offer: BlockingExecutor (graphql_blocking) and the generic Executor
    for fn in (graphql_blocking, process_graphql_query):
        try:
            r = fn(schema, ast)
        except RecursionError:
            return "execute-raises:RecursionError"
        except Exception as e:  # noqa
            return "execute-raises:" + type(e).__name__
        if r.errors or r.data is None:
            return "errors"
    return "ok"


def deep_probes(ctx):
    for kind in ("selection-set", "input-object-literal", "fragment-chain"):
        for d in DEEP_DEPTHS:
            out = deep_outcome(kind, d)
            ctx.count()
            ctx.stat("deep:%s:%d:%s" % (kind, d, out))
            if out in ("ok", "unparseable"):
                continue
            where = "deep-nesting" if d >= 200 else "nesting-%d" % d
            detail = {"probe": "deep", "deep_kind": kind, "depth": d, "sdl": DEEP_SDL, "document": deep_document(kind, d)[:100] + "...", "outcome": out}
            if out.startswith("validate-raises:"):
                ctx.fail("validate-raises:%s:%s:%s" % (out.split(":")[1], where, kind),
                         "validate_ast raises %s on a parseable document nested %d levels (%s) instead of returning its list of errors"
                         % (out.split(":")[1], d, kind), detail)
            elif out.startswith("execute-raises:"):
                ctx.fail("internal-exception-on-validated-operation:%s:%s" % (out.split(":")[1], ("deep-" if d >= 200 else "%d-" % d) + kind),
                         "validation accepted a document of depth %d (%s); executing it raised %s" % (d, kind, out.split(":")[1]), detail)
            else:
                ctx.fail("deep-probe-%s:%s:%d" % (out, kind, d), "a valid deep document (%s, depth %d) is %s" % (kind, d, out), detail)


def fixed_cases(ctx, lean_batch):
    deep_probes(ctx)
    schema, holder, dump = X.build(FIXED_SDL, 0)
    fragment_chain(ctx, schema)
    for label, text, vs in FIXED:
        one_document(ctx, schema, holder, dump, FIXED_SDL, 0, label, text, vs, None, lean_batch, "fixed")
    schema, holder, dump = X.build(DIVERGENT_SDL, 0)
    for label, text, vs in DIVERGENT:
        one_document(ctx, schema, holder, dump, DIVERGENT_SDL, 0, label, text, vs, None, lean_batch, "fixed", seeds=DIVERGENT_SEEDS)
    schema, holder, dump = X.build(LOOKALIKE_SDL, 0)
    for label, text, vs in LOOKALIKE:
        one_document(ctx, schema, holder, dump, LOOKALIKE_SDL, 0, label, text, vs, None, lean_batch, "fixed", seeds=LOOKALIKE_SEEDS)
    # one field node leading two different merged node lists in one request (seeded C05-12 / C04-11): fixed worlds
    schema, holder, dump = X.build(LN.FIXED_SDL, 0)
    for label, text, vs in LN.FIXED_DOCS:
        one_document(ctx, schema, holder, dump, LN.FIXED_SDL, 0, label, text, vs, None, lean_batch, "fixed", seeds=LN.FIXED_SEEDS)
    # the same (selection set, fragment) pair compared by the merge rule first below mutually exclusive parents, then in a
    # non-exclusive context where it conflicts (seeded C05-11): if such a document is accepted, some world shows two
    # different fields under one response key
    schema, holder, dump = X.build(OM.FIXED_SDL, 0)
    for label, text, vs in OM.FIXED_DOCS:
        one_document(ctx, schema, holder, dump, OM.FIXED_SDL, 0, label, text, vs, None, lean_batch, "fixed", seeds=OM.FIXED_SEEDS)


def edoc_tie(ctx, batch):
    """The bridge theorems (Props/C05_bridge.lean, C05_overlap*.lean) speak about `eDoc s env d`, the Lean translation of the
    VALIDATOR-side document `d`; the driver executes the executor-side JSON built by exec_common.doc_to_json. Both are sent:
    the driver answers whether `eDoc` of the one IS the other (field locations apart) and evaluates the static document
    checks of accepted_cannot_go_wrong_computable (`docChecksB`) on the validator-side document."""
    from py_gql.lang import parse
    from corr import C06_model as M
    reqs, items = [], []
    for dump, c, label in batch:
        try:
            vdoc = M.doc_to_model(parse(c.text))
        except M.NotModelled:
            ctx.stat("edoc:not-modelled")
            continue
        r = K.lean_request(dump, c)
        reqs.append({"op": "edoc", "schema": r["schema"], "doc": r["doc"], "vars": r["vars"], "vdoc": vdoc})
        items.append((c, label))
    if not reqs:
        return
    for (c, label), a in zip(items, ctx.driver.ask(reqs)):
        if "same" not in a:
            ctx.fail("corr:driver-error:edoc", "driver could not answer", c.replay_data({"answer": a}), kind="correspondence")
            continue
        ctx.stat("edoc:same:%s" % a["same"])
        if a["same"] is False:
            ctx.fail("corr:eDoc-differs-from-executed-document:%s" % (label or K.features_sig(c.text)),
                     "the translation eDoc of the validator-side document (what the soundness theorems speak about) is not the "
                     "executor-side document the driver executes",
                     c.replay_data({"label": label, "edoc": a.get("edoc"), "doc": a.get("doc")}), kind="correspondence")
        # ids / aliases / names false on a PARSED document = bug of the translation or of the parser guarantee;
        # meta / no_introspection false = property of the input (the theorem does not apply): counted
        for k in ("ids", "aliases", "names"):
            if a.get(k) is False:
                ctx.fail("corr:doc-check-false:%s" % k, "static document check %s of accepted_cannot_go_wrong_computable is false on a parsed, "
                         "validator-accepted document" % k, c.replay_data({"label": label}), kind="correspondence")
        ctx.stat("edoc:doc-checks:%s" % a.get("doc_checks"))
        if a.get("doc_checks") is False:
            ctx.stat("edoc:theorem-not-applicable:%s" % ",".join(k for k in ("meta", "no_introspection") if a.get(k) is False))


def flush_lean(ctx, batch):
    reqs = []
    for dump, c, label in batch:
        r = K.lean_request(dump, c)
        r["op"] = "exec"
        r["valid"] = True
        reqs.append(r)
    answers = ctx.driver.ask(reqs)
    edoc_tie(ctx, batch)
    for (dump, c, label), a in zip(batch, answers):
        ctx.stat("lean-compared")
        model = a.get("model")
        if model is None:
            ctx.fail("corr:driver-error", "driver could not answer", c.replay_data({"answer": a}), kind="correspondence")
            continue
        # the tie is to ValidDocR (premise of validated_no_internal_error_rootless): `validate_ast` does not check that the
        # operation's kind has a root type in the schema, so ValidDoc's root clause is NOT implied by acceptance
        ctx.stat("ops-rooted:%s" % a.get("ops_rooted"))
        # schema hypotheses of accepted_cannot_go_wrong_checked (SchemaOk, SchemaWf, RootsAreObjects, TypesWf), evaluated by
        # the driver on the schema of this request: every schema of this check is a valid one
        # (`schema_checks`: on the description with the built-in scalars listed, the form the bridge theorems speak about;
        #  `schema_checks_exec`: the executor-side checks on the description the driver executes)
        ctx.stat("schema-checks:%s/%s" % (a.get("schema_checks"), a.get("schema_checks_exec")))
        if a.get("schema_checks") is False or a.get("schema_checks_exec") is False:
            ctx.fail("corr:valid-schema-fails-schemaChecksB", "the computable schema hypotheses of the soundness theorem "
                     "(Spec/SchemaChecks.lean) are false on a schema that build_schema + validate accept",
                     c.replay_data({"label": label}), kind="correspondence")
        # schema hypothesis `FieldOwners` of accepted_cannot_go_wrong_merged (MergeSafe derived from the overlap rule)
        ctx.stat("field-owners:%s" % a.get("field_owners"))
        if a.get("field_owners") is False:
            ctx.fail("corr:valid-schema-fails-fieldOwnersB", "a schema that build_schema + validate accept has a type other than an "
                     "object / interface type carrying fields in its dump (hypothesis FieldOwners of Props/C05_overlap.lean)",
                     c.replay_data({"label": label}), kind="correspondence")
        if (a.get("validdoc_r") if "validdoc_r" in a else a.get("validdoc")) is False:
            ctx.fail("corr:accepted-but-not-ValidDoc:%s" % (a.get("validdoc_why") or "?"),
                     "validate_ast accepted a document outside the declarative ValidDoc predicate the theorems assume",
                     c.replay_data({"why": a.get("validdoc_why"), "label": label}), kind="correspondence")
        ctx.stat("validdoc:%s" % a.get("validdoc"))
        ctx.stat("ranked-certificate:%s" % a.get("ranked"))
        if a.get("ranked") is False:
            ctx.fail("corr:accepted-but-not-ranked", "validate_ast accepted a document without a fragment-rank certificate "
                     "(the totality theorem `responds_certified` does not apply: fragment cycle?)",
                     c.replay_data({"label": label}), kind="correspondence")
        ctx.stat("key-consistent:%s" % a.get("key_consistent"))
        ctx.stat("merge-safe:%s" % a.get("merge_safe"))
        ctx.stat("dirs-strict:%s" % a.get("dirs_strict"))
        if a.get("merge_safe") and a.get("key_consistent") is False:
            ctx.stat("merge-safe-but-not-key-consistent")
            if label:
                ctx.stat("merge-safe-but-not-key-consistent:" + label)
        if a.get("merge_safe") is False:
            ctx.fail("corr:accepted-but-not-MergeSafe:%s" % (label or K.features_sig(c.text)),
                     "validate_ast accepted a document that the Lean evaluator of MergeSafe (declarative OverlappingFieldsCanBeMerged, "
                     "the premise of validated_no_internal_error) rejects",
                     c.replay_data({"label": label}), kind="correspondence")
        if "internal" in model:
            ctx.fail("corr:model-internal-on-validated:%s" % model["internal"],
                     "the model takes an internalError branch on a validator-accepted document (the implementation did not)",
                     c.replay_data({"impl": c.impl, "model": model}), kind="correspondence")
        elif not X.results_agree(c.impl, model, dedup_locs=False):
            ctx.fail("corr:model-vs-impl:%s:%s" % (K.classify(c.impl, model), label or K.features_sig(c.text)),
                     "Lean model of the executor and the real executor differ",
                     c.replay_data({"impl": c.impl, "model": model}), kind="correspondence")


def replay(ctx, data):
    from py_gql.lang import parse
    from py_gql.validation import validate_ast
    inp = data.get("input", data)
    if inp.get("probe") == "deep":
        out = deep_outcome(inp["deep_kind"], inp["depth"])
        print("deep probe %s depth %d: %s" % (inp["deep_kind"], inp["depth"], out))
        return out in ("ok", "unparseable")
    schema, holder, dump = X.build(inp["sdl"], inp.get("enum_kind", 0))
    text = inp.get("small") or inp["document"]
    ok = True
    if "history" in inp:
        from common import REPO
        from corr.fresh_validate import FreshValidator
        from py_gql.exc import GraphQLSyntaxError
        for h in inp["history"]:
            try:
                validate_ast(schema, parse(h))
            except Exception:  # noqa
                pass
        try:
            v = validate_ast(schema, parse(inp["document"]))
            here = "rejected" if v.errors else "accepted"
        except GraphQLSyntaxError:
            here = "syntax"
        except Exception as e:  # noqa
            here = "raises:" + type(e).__name__
        fv = FreshValidator(REPO / "src")
        fresh = fv.verdict(inp["sdl"], inp["document"])
        fv.close()
        print("after history: %s; fresh process: %s" % (here, fresh))
        if fresh["status"] != here:
            ok = False
    for t in {text, inp["document"]}:
        try:
            located = parse(t)
            v = validate_ast(schema, located)
        except Exception as e:  # noqa
            print("validate_ast raises %s: %s" % (type(e).__name__, e))
            ok = False
            continue
        # the same text without locations (all / some): same verdict, no exception
        import copy
        import random as _random
        lst, lmsgs = verdict_of(schema, located)
        variants = [("no_location", parse(t, no_location=True)), ("stripped", strip_locations(copy.deepcopy(located)))]
        variants += [("partly-stripped", strip_locations(copy.deepcopy(located), _random.Random(k), 0.5)) for k in range(6)]
        for kind, doc in variants:
            st, msgs = verdict_of(schema, doc)
            if st != lst or msgs != lmsgs:
                print("without locations (%s): %s; located: %s" % (kind, st, lst))
                ok = False
                break
        if v.errors:
            continue
        c = K.Case()
        c.sdl, c.enum_kind = inp["sdl"], inp.get("enum_kind", 0)
        c.text, c.variables, c.opname = t, inp.get("variables") or {}, inp.get("operation_name")
        c.seed, c.mode, c.features = inp.get("seed", 0), 0, set()
        c.impl = c.docj = c.coerced = None
        if K.run_one(schema, holder, dump, c) != "ok":
            continue
        if "internal" in c.impl:
            print("execution raises", c.impl)
            ok = False
        elif "data" in c.impl:
            why = check_shape(dump, c.docj, c.opname, c.coerced, c.impl, c.seed)
            if why:
                print("shape:", why)
                ok = False
    return ok

# -*- coding: utf-8 -*-
"""
C11 — `build_schema(doc, additional_types=[…])`: a DETERMINISTIC block of named probes (no use of ctx.rng), one per
thing the builder does with the supplied types (Lean: PyGqlModel/SdlAdditional.lean `buildA`):

  * a supplied type overrides the definition of its name (kind not compared), keeps its internal enum values, its
    description, its own members; a supplied type the document does not define is registered when something refers to
    it — directly, through another supplied type (transitive closure of `_build_type_map`) or from `extend` blocks only;
  * `{t.name: t …}`: of two supplied types with one name the last wins;
  * a supplied type named like a specified type is refused (SchemaError) as soon as something refers to it;
  * `extend` blocks whose target is a supplied type are applied to it (members appended in document order, duplicates and
    kind mismatches are ExtensionErrors), and the default literals of the document are coerced against the EXTENDED
    supplied enum / input object;
  * `ignore_extensions=True`.

Direct oracle: the outcome class and, for accepted documents, hand-written FACTS of the declared content (member names of
a type in order, default values, internal enum values).  Correspondence: the whole canonical dump against the model.
"""

def N(n):
    return {"k": "named", "n": n}


def _t(kind, name, desc=None, **kw):
    d = {"kind": kind, "name": name, "desc": desc, "interfaces": [], "fields": [], "members": [], "values": [], "input_fields": []}
    d.update(kw)
    return d


def enum(name, vals, desc=None):
    return _t("enum", name, desc, values=[{"name": n, "value": v, "deprecated": None, "desc": None} for n, v in vals])


def scalar(name, desc=None):
    return _t("scalar", name, desc)


def inp(name, fields, desc=None):
    return _t("input", name, desc, input_fields=[{"name": n, "type": t, "has_default": hd, "default_value": dv, "desc": None}
                                                  for (n, t, hd, dv) in fields])


def obj(name, fields, desc=None, kind="object"):
    return _t(kind, name, desc, fields=[{"name": n, "type": t, "args": [], "deprecated": None, "desc": None} for (n, t) in fields])


def union(name, members):
    return _t("union", name, None, members=members)


E = enum("E", [("A", 1)])
I = inp("I", [("a", N("Int"), True, 1)])
O = obj("O", [("x", N("Int"))])

# (label, sdl, supplied types, flags, expected): expected = "rej" | {"members": {type: [names]}, "defaults": {"T.f.a" | "T.f": value},
#                                                                   "values": {"E.A": internal value}, "absent": [type names]}
PROBES = [
    ("override-enum-internal-values", "type Query { q(a: E = A): E } enum E { A }", [E], {},
     {"members": {"E": ["A"]}, "values": {"E.A": 1}, "defaults": {"Query.q.a": 1}}),
    ("override-kind-not-compared", "type Query { q: T } type T { x: Int }", [enum("T", [("A", 1)])], {}, {"members": {"T": ["A"]}}),
    ("undefined-referenced", "type Query { q(i: S = 5): S }", [scalar("S", "sup")], {}, {"members": {"S": []}, "defaults": {"Query.q.i": "5"}}),
    ("unreferenced-not-registered", "type Query { q: Int }", [scalar("S", "sup")], {}, {"absent": ["S"]}),
    ("closure-through-supplied", "type Query { q(j: I2 = {e: A}): Int }", [E, inp("I2", [("e", N("E"), False, None), ("a", N("Int"), True, 1)])], {},
     {"members": {"E": ["A"], "I2": ["e", "a"]}, "defaults": {"Query.q.j": {"a": 1, "e": 1}}}),
    ("closure-chain", "type Query { q: O1 }", [obj("O1", [("x", N("O2"))]), obj("O2", [("x", N("O3"))]), obj("O3", [("x", N("E"))]), E], {},
     {"members": {"O1": ["x"], "O2": ["x"], "O3": ["x"], "E": ["A"]}}),
    ("closure-ignore-extensions", "type Query { q(j: I2): Int } extend enum E { B }", [E, inp("I2", [("e", N("E"), False, None)])],
     {"ignore_extensions": True}, {"members": {"E": ["A"], "I2": ["e"]}}),
    ("closure-then-extended", "type Query { q(j: I2): Int } extend enum E { B }", [E, inp("I2", [("e", N("E"), False, None)])], {},
     {"members": {"E": ["A", "B"], "I2": ["e"]}}),
    ("same-name-last-wins", "type Query { q: E }", [enum("E", [("X", 1)]), scalar("Z"), enum("E", [("Y", 2)]), enum("E", [("W", 3)])], {},
     {"members": {"E": ["W"]}, "values": {"E.W": 3}, "absent": ["Z"]}),
    ("same-name-last-wins-kind", "type Query { q(a: E = 5): Int }", [enum("E", [("X", 1)]), scalar("E")], {},
     {"members": {"E": []}, "defaults": {"Query.q.a": "5"}}),
    ("specified-name-referenced", "type Query { q: Int }", [scalar("Int", "mine")], {}, "rej"),
    ("specified-name-unreferenced", "type Query { q: String }", [scalar("Int", "mine")], {}, {"absent": []}),
    ("specified-name-from-extension-only", "type Query { q: String } extend type Query { i: Int }", [scalar("Int", "mine")], {}, "rej"),
    ("introspection-name-unreferenced", "type Query { q: String }", [obj("__Type", [("x", N("Int"))])], {}, {"absent": []}),
    ("root-supplied-default-name", "type Foo { a: Int }", [obj("Query", [("x", N("Int"))])], {}, {"absent": ["Query"], "query": None}),
    ("root-supplied-overrides-definition", "type Query { zzz: Int }", [obj("Query", [("x", N("E"))]), E], {},
     {"members": {"Query": ["x"], "E": ["A"]}, "query": "Query"}),
    ("root-by-schema-block", "schema { query: O }", [O], {}, {"members": {"O": ["x"]}, "query": "O"}),
    ("referenced-from-extensions-only", "type Query { q: Int } extend type Query { o: O s(s: S = 5): S e(a: E = A, i: I = {}): E }", [O, scalar("S"), E, I], {},
     {"members": {"O": ["x"], "S": [], "E": ["A"], "I": ["a"], "Query": ["q", "o", "s", "e"]}, "defaults": {"Query.e.a": 1, "Query.e.i": {"a": 1}, "Query.s.s": "5"}}),
    ("extend-supplied-enum", "type Query { q: E } extend enum E { B } extend enum E { C }", [E], {},
     {"members": {"E": ["A", "B", "C"]}, "values": {"E.A": 1, "E.B": "B", "E.C": "C"}}),
    ("extend-supplied-enum-default-in-extension-field", "type Query { q: Int } enum E { A } extend enum E { B } extend type Query { f(a: E = B): Int }",
     [E], {}, {"members": {"E": ["A", "B"], "Query": ["q", "f"]}, "defaults": {"Query.f.a": "B"}}),
    ("extend-supplied-enum-default-in-definition", "type Query { q(a: E = B): Int } extend enum E { B }", [E], {}, "rej"),   # finding S8
    ("extend-supplied-enum-duplicate", "type Query { q: E } extend enum E { A }", [E], {}, "rej"),
    ("extend-supplied-enum-duplicate-across-blocks", "type Query { q: E } extend enum E { B } extend enum E { B }", [E], {}, "rej"),
    ("extend-supplied-wrong-kind", "type Query { q: E } extend type E { x: Int }", [E], {}, "rej"),
    ("extend-supplied-overridden-kind-of-document", "type Query { q: T } type T { x: Int } extend type T { y: Int }", [enum("T", [("A", 1)])], {}, "rej"),
    ("extend-supplied-unreferenced-ignored", "type Query { q: Int } extend enum E { B }", [E], {}, {"absent": ["E"]}),
    ("extend-supplied-object", "type Query { q: O } extend type O { y(e: E = A): Int }", [O, E], {},
     {"members": {"O": ["x", "y"], "E": ["A"]}, "defaults": {"O.y.e": 1}}),
    ("extend-supplied-object-defined", "type Query { q: O } type O { z: Int } extend type O { y: Int }", [O], {}, {"members": {"O": ["x", "y"]}}),
    ("extend-supplied-interface", "type Query implements Node { id: ID x: Int } extend interface Node { x: Int }",
     [obj("Node", [("id", N("ID"))], kind="interface")], {}, {"members": {"Node": ["id", "x"]}}),
    ("extend-supplied-union", "type Query { u: U } type B { b: Int } extend union U = B", [O, union("U", ["O"])], {}, {"members": {"U": ["O", "B"]}}),
    ("extend-supplied-input-default-completed", "type Query { q(i: I = {}): Int } extend input I { b: Int = 3 }", [I], {},
     {"members": {"I": ["a", "b"]}, "defaults": {"Query.q.i": {"a": 1, "b": 3}, "I.b": 3}}),
    ("extend-supplied-input-defined-default-completed", "type Query { q(i: I = {}): Int } input I { z: Int } extend input I { b: Int = 3 }", [I], {},
     {"members": {"I": ["a", "b"]}, "defaults": {"Query.q.i": {"a": 1, "b": 3}}}),
    ("extend-supplied-input-required-field", "type Query { q(i: I = {}): Int } extend input I { b: Int! }", [I], {}, "rej"),
    ("extend-supplied-input-duplicate", "type Query { q(i: I): Int } extend input I { a: Int }", [I], {}, "rej"),
    ("extend-supplied-input-self-field", "type Query { q(i: I): Int } extend input I { me: I = {} }", [I], {},
     {"members": {"I": ["a", "me"]}, "defaults": {"I.me": {"a": 1}}}),
    ("extend-supplied-many", "type Query { q(e: E, i: I): O } extend type O { y(e: E = A, i: I = {}): Int } extend enum E { B } extend input I { b: E = B }",
     [O, E, I], {}, {"members": {"O": ["x", "y"], "E": ["A", "B"], "I": ["a", "b"]}, "defaults": {"O.y.e": 1, "O.y.i": {"a": 1, "b": "B"}, "I.b": "B"}}),
    ("nested-default-in-definition", "type Query { q(j: J = {}): Int } input J { i: I = {} } extend input I { b: Int = 3 }", [I], {},
     {"defaults": {"Query.q.j": {"i": {"a": 1, "b": 3}}, "J.i": {"a": 1, "b": 3}}}),
    ("directive-argument-supplied-enum", "type Query { q: Int } directive @d(a: E = A) on FIELD", [E], {}, {"members": {"E": ["A"]}}),
    ("union-member-supplied", "type Query { u: U } union U = O", [O], {}, {"members": {"U": ["O"], "O": ["x"]}}),
]

# finding C11/A1 (proposed_fixes/C11-A1.patch): a supplied type that only `extend` blocks refer to loses the members its own extension
# blocks declare.  Direct oracle only (the expectation is the declared content); the model follows the code as it is, the case it is
# compared on is `extension-only-target-as-built` below.
FINDINGS = [
    ("finding-A1-enum", "type Query { q: Int } extend type Query { e: E } extend enum E { B }", [E], {}, {"members": {"E": ["A", "B"]}}),
    ("finding-A1-input", "type Query { q: Int } extend type Query { f(i: I = {}): Int } extend input I { b: Int = 3 }", [I], {},
     {"members": {"I": ["a", "b"]}, "defaults": {"Query.f.i": {"a": 1, "b": 3}}}),
    ("finding-A1-object", "type Query { q: Int } extend type Query { o: O } extend type O { y: Int }", [O], {}, {"members": {"O": ["x", "y"]}}),
]

# hunt4 C11-1 (known finding C11/H4-1), the variants the by-name model does not predict: direct oracle only
FINDINGS += [
    ("finding-H4-defaulted-backref", "input In { a: Int other: Other = null } input Other { x: In = {a: 3} } type Query { f(o: Other): String } "
     "extend input In { added: Int = 7 }", [], {}, {"defaults": {"Other.x": {"a": 3, "added": 7, "other": None}}}),
]

# measured, not compared with the model (residual, see ASSUMPTIONS of corr/C11.py)
UNMODELLED = [
    ("supplied-default-completed-by-other-extension", "type Query { q(j: J): Int } extend input I { b: Int = 3 }",
     [I, inp("J", [("i", N("I"), True, {"a": 1})])], {}, {"defaults": {"J.i": {"a": 1, "b": 3}}}),
]


def _members(t):
    k = t["kind"]
    if k in ("object", "interface"):
        return [f["name"] for f in t["fields"]]
    if k == "input":
        return [f["name"] for f in t["input_fields"]]
    if k == "enum":
        return [v["name"] for v in t["values"]]
    if k == "union":
        return list(t["members"])
    return []


def facts_ok(dump, exp, canon):
    """first fact of `exp` the dump does not show (None: all hold)"""
    by = {t["name"]: t for t in dump["types"]}
    for n, ms in (exp.get("members") or {}).items():
        if n not in by:
            return "missing-type"
        if _members(by[n]) != ms:
            return "members"
    for n in exp.get("absent") or []:
        if n in by:
            return "unexpected-type"
    for k, v in (exp.get("values") or {}).items():
        tn, vn = k.split(".")
        got = [x["value"] for x in by.get(tn, {"values": []})["values"] if x["name"] == vn]
        if got != [v]:
            return "enum-value"
    for k, v in (exp.get("defaults") or {}).items():
        parts = k.split(".")
        t = by.get(parts[0])
        if t is None:
            return "missing-type"
        if len(parts) == 2:
            a = [f for f in t["input_fields"] if f["name"] == parts[1]]
        else:
            a = [x for f in t["fields"] if f["name"] == parts[1] for x in f["args"] if x["name"] == parts[2]]
        if len(a) != 1 or not a[0]["has_default"] or canon(a[0]["default_value"]) != canon(v):
            return "default"
    if "query" in exp and dump["query"] != exp["query"]:
        return "root"
    return None


def run_probes(ctx, real_build, live_additional, doc_json, canon):
    """direct oracle on the real code; returns the cases for the model correspondence"""
    from py_gql.lang import parse
    out = []
    for table, modelled in ((PROBES, True), (FINDINGS, False), (UNMODELLED, False)):
        for (label, text, wire, flags, exp) in table:
            ctx.count()
            real = real_build(text, additional=live_additional(wire), validate=False, **flags)
            ctx.stat("additional-probe:" + real[0])
            ctx.nontrivial("additional-probe:" + label)
            detail = {"sdl": text, "flags": flags, "additional": wire, "additional_probe": label}
            if not modelled and table is UNMODELLED:
                ctx.stat("additional-probe:model-does-not-cover")
            if real[0] == "exc":
                ctx.fail("additional:%s:%s" % (label, real[1]), "build_schema with additional_types raises " + real[1], detail)
                continue
            if exp == "rej":
                if real[0] != "rej":
                    ctx.fail("additional:%s:invalid-accepted" % label, "an invalid use of a supplied type is accepted", detail)
                    continue
            else:
                if real[0] != "ok":
                    ctx.fail("additional:%s:valid-rejected:%s" % (label, real[2]), "a valid document with supplied types is rejected", detail)
                    continue
                bad = facts_ok(real[1], exp, canon)
                if bad:
                    ctx.fail("additional:%s:%s" % (label, bad), "the built schema does not show what the document and the supplied types declare",
                             dict(detail, got=real[1], facts=exp))
                    continue
            if modelled:
                items = doc_json(parse(text, allow_type_system=True))
                out.append((label, text, wire, flags, items, real))
    return out


def run_model(ctx, cases, canon, sort_dump, diff_path):
    if not cases or not ctx.model_ok or not ctx.driver.available():
        return
    reqs = [{"op": "build", "doc": items, "ignore_extensions": bool(flags.get("ignore_extensions")), "additional": wire}
            for (_l, _t, wire, flags, items, _r) in cases]
    for (label, text, wire, flags, items, real), a in zip(cases, ctx.driver.ask(reqs)):
        ctx.count()
        detail = {"sdl": text, "flags": flags, "additional": wire, "additional_probe": label, "model": a if "ok" not in a else "ok"}
        if real[0] == "ok":
            if "ok" not in a:
                ctx.fail("corr:additional:%s:model-rejects" % label, "model rejects, implementation builds", detail, kind="correspondence")
            elif canon(sort_dump(a["ok"])) != canon(real[1]):
                p = diff_path(real[1], sort_dump(a["ok"]))
                ctx.fail("corr:additional:%s:dump:%s" % (label, p), "model and implementation build different schemas at " + p,
                         dict(detail, model_dump=sort_dump(a["ok"]), real_dump=real[1]), kind="correspondence")
        elif "ok" in a:
            ctx.fail("corr:additional:%s:model-accepts" % label, "implementation rejects, model builds", detail, kind="correspondence")
        elif str(a.get("err", "")).startswith("internal"):
            ctx.fail("corr:additional:%s:model-internal" % label, "implementation rejects properly, model takes an internal branch", detail,
                     kind="correspondence")


def replay(real_build, live_additional, canon, inp):
    exp = {p[0]: p for p in PROBES + FINDINGS + UNMODELLED}.get(inp["additional_probe"])
    real = real_build(inp["sdl"], additional=live_additional(inp.get("additional")), validate=False, **(inp.get("flags") or {}))
    if real[0] == "exc":
        return False
    if exp is None:
        return True
    if exp[4] == "rej":
        return real[0] == "rej"
    return real[0] == "ok" and facts_ok(real[1], exp[4], canon) is None

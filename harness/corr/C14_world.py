# -*- coding: utf-8 -*-
"""
C14 — live-object side: building ONE source schema with code-built attributes, dumping the
object graph of several schemas into one joint heap (identities -> small integers), canonical
renumbering (shared with the model's answer), coverage queries, and the operations
(clone / transform / extend / heal) on the real code.
"""
import copy

from gen import schema as G

SCALARS = ["Int", "Float", "String", "Boolean", "ID"]

# ---------------------------------------------------------------------------
# source schema
# ---------------------------------------------------------------------------

_SNAKE = ["", "_x", "_long_name", "_a_b"]


def snake_desc(rng, desc):
    """Rename generated fields / arguments / input fields to snake_case names (camel-case has work to do)."""
    desc = copy.deepcopy(desc)
    ren = {}   # (kind, old) -> new : consistent for interface fields copied into implementers

    def nm(old):
        if old not in ren:
            ren[old] = old + rng.choice(_SNAKE)
        return ren[old]

    def fix_default(d, inputs):
        return d

    input_ren = {}
    for t in desc["types"]:
        if t["kind"] == "input":
            for f in t["fields"]:
                new = nm(f["name"])
                input_ren[(t["name"], f["name"])] = new
    # defaults mention input field names: keep input field names when any default literal uses braces
    uses_obj_default = any("{" in (a.get("default") or "") for t in desc["types"]
                           for f in t.get("fields", []) for a in ([f] + f.get("args", [])))
    uses_obj_default = uses_obj_default or any("{" in (a.get("default") or "") for d in desc["directives"] for a in d["args"])
    for t in desc["types"]:
        if t["kind"] == "input" and not uses_obj_default:
            for f in t["fields"]:
                f["name"] = input_ren[(t["name"], f["name"])]
        if t["kind"] in ("object", "interface"):
            for f in t["fields"]:
                f["name"] = nm(f["name"])
                for a in f.get("args", []):
                    a["name"] = a["name"] + ("_arg" if len(f["name"]) % 2 else "")
    return desc


RARE_TYPE_NAMES = ["_Service", "_Entity", "_Any", "_0", "_9x", "T", "t", "A1", "type", "on", "query", "input", "Null", "fragment", "_"]
RARE_FIELD_NAMES = ["_x", "on", "type", "query", "_1", "a", "f9", "_"]      # (stable and collision-free under camel-casing)
RARE_ARG_NAMES = ["_a", "on", "if", "type", "_"]
RARE_VALUE_NAMES = ["_V", "on", "type", "v", "V", "A1", "_"]
RARE_DIRECTIVE_NAMES = ["_dir", "d", "D", "type", "on", "_"]


def _map_type(t, ren):
    return ("named", ren.get(t[1], t[1])) if t[0] == "named" else (t[0], _map_type(t[1], ren))


def rare_names(rng, desc):
    """Rare but VALID names (own world builder; `harness/gen/schema.py` is untouched): type names with ONE leading underscore
    (`_Service`, `_Entity`, `_Any`: the federation names), `_` + digits, one-letter names, names differing only by case,
    keyword-like names (`type`, `on`, `query`, `input`, `fragment`); the same for fields, arguments, enum values and
    directives. Every renamed type references other user types and is referenced from the root, so that the closedness,
    frame and visibility oracles see it."""
    desc = copy.deepcopy(desc)
    roots = {desc.get("query"), desc.get("mutation"), desc.get("subscription")}
    existing = {t["name"] for t in desc["types"]}
    cand = [t for t in desc["types"] if t["name"] not in roots]
    rng.shuffle(cand)
    pool = [n for n in RARE_TYPE_NAMES if n not in existing]
    rng.shuffle(pool)
    ren = {}
    for t in cand[:rng.randint(1, 3)]:
        if pool:
            ren[t["name"]] = pool.pop()
    all_defaults = " ".join((a.get("default") or "") for t in desc["types"] for f in t.get("fields", [])
                            for a in ([f] + f.get("args", []))) + " ".join((a.get("default") or "") for d in desc["directives"] for a in d["args"])
    for t in desc["types"]:
        t["name"] = ren.get(t["name"], t["name"])
        if "interfaces" in t:
            t["interfaces"] = [ren.get(i, i) for i in t["interfaces"]]
        if "members" in t:
            t["members"] = [ren.get(m, m) for m in t["members"]]
        for f in t.get("fields", []):
            f["type"] = _map_type(f["type"], ren)
            for a in f.get("args", []):
                a["type"] = _map_type(a["type"], ren)
    for d in desc["directives"]:
        for a in d["args"]:
            a["type"] = _map_type(a["type"], ren)
    by_name = {t["name"]: t for t in desc["types"]}
    out_names = [t["name"] for t in desc["types"] if t["kind"] in ("object", "interface", "union") and t["name"] not in roots]
    in_names = [t["name"] for t in desc["types"] if t["kind"] in ("enum", "input", "scalar")]
    q = by_name[desc["query"]]
    for k, new in enumerate(sorted(ren.values())):
        t = by_name[new]
        if t["kind"] == "object":
            # the rare-named type references other user types (output, and input through an argument)
            others = [n for n in out_names if n != new] or [new]
            arg = [{"name": "_a", "type": ("named", rng.choice(in_names)), "default": None, "desc": None}] if in_names else []
            t["fields"].append({"name": "link_%d" % k, "type": ("named", rng.choice(others)), "args": arg, "deprecated": None, "desc": None})
        if t["kind"] in ("object", "interface", "union"):
            q["fields"].append({"name": "rare_%d" % k, "type": ("named", new), "args": [], "deprecated": None, "desc": None})
        elif t["kind"] in ("enum", "input", "scalar"):
            q["fields"].append({"name": "rare_%d" % k, "type": ("named", "Int"),
                                "args": [{"name": "v", "type": ("named", new), "default": None, "desc": None}], "deprecated": None, "desc": None})
    # fields / arguments of object types (own fields only: interface fields must keep the interface's names)
    iface_fields = {f["name"] for t in desc["types"] if t["kind"] == "interface" for f in t["fields"]}
    for t in desc["types"]:
        if t["kind"] == "object" and rng.random() < 0.5:
            names = {f["name"] for f in t["fields"]}
            pool_f = [n for n in RARE_FIELD_NAMES if n not in names]
            rng.shuffle(pool_f)
            for f in t["fields"]:
                if f["name"] in iface_fields or not pool_f or rng.random() < 0.5:
                    continue
                f["name"] = pool_f.pop()
                pool_a = [n for n in RARE_ARG_NAMES if n not in {a["name"] for a in f.get("args", [])}]
                rng.shuffle(pool_a)
                for a in f.get("args", []):
                    if pool_a and rng.random() < 0.6:
                        a["name"] = pool_a.pop()
        if t["kind"] == "enum" and rng.random() < 0.5:
            pool_v = [n for n in RARE_VALUE_NAMES if n not in {v["name"] for v in t["values"]}]
            rng.shuffle(pool_v)
            for v in t["values"]:
                if pool_v and v["name"] not in all_defaults and rng.random() < 0.6:
                    v["name"] = pool_v.pop()
    pool_d = [n for n in RARE_DIRECTIVE_NAMES]
    rng.shuffle(pool_d)
    for d in desc["directives"]:
        if pool_d and rng.random() < 0.6:
            d["name"] = pool_d.pop()
    return desc


class Funcs:
    """Resolver-like functions with a stable small identity (`_vid`)."""

    def __init__(self):
        self.n = 0
        self.calls = []     # (vid, parent type name, field name) of every call the EXECUTOR made to a field resolver
        self.depth = 0      # (a wrapper calling the resolver it wraps is one call: the wrapper's)

    def make(self, impl):
        self.n += 1
        vid = self.n
        calls = self.calls

        def fn(*a, **kw):
            if (self.depth == 0 and not getattr(impl, "_is_rtype", False) and len(a) >= 3 and hasattr(a[2], "parent_type")
                    and len(calls) < 20000):
                calls.append((vid, a[2].parent_type.name, a[2].field_definition.name))
            self.depth += 1
            try:
                return impl(*a, **kw)
            finally:
                self.depth -= 1
        fn._vid = vid
        return fn


def _value_for(schema, type_, depth=0):
    from py_gql.schema import (EnumType, InterfaceType, ListType, NonNullType, ObjectType, ScalarType, UnionType)
    if isinstance(type_, NonNullType):
        return _value_for(schema, type_.type, depth)
    if isinstance(type_, ListType):
        return [_value_for(schema, type_.type, depth + 1)] if depth < 2 else []
    if isinstance(type_, ScalarType):
        return {"Int": 7, "Float": 1.5, "String": "s", "Boolean": True, "ID": "id"}.get(type_.name, "custom")
    if isinstance(type_, EnumType):
        return type_.values[0].value
    if isinstance(type_, ObjectType):
        return {"__t": type_.name}
    if isinstance(type_, (InterfaceType, UnionType)):
        poss = schema.get_possible_types(type_)
        if not poss:
            return None
        return {"__t": sorted(p.name for p in poss)[0]}
    return None


def universal_resolver(root, ctx, info, **args):
    if info.parent_type.name.startswith("__"):
        from py_gql.execution.default_resolver import default_resolver
        return default_resolver(root, ctx, info, **args)
    return _value_for(info.schema, info.field_definition.type)


def universal_resolve_type(value, ctx, info):
    return value["__t"] if isinstance(value, dict) else None


universal_resolve_type._is_rtype = True


def object_returning_resolve_type(schema):
    """A type resolver may return the ObjectType OBJECT (`TypeResolver -> Union[ObjectType, str]`): the one of the schema it was
    written for. Used on a schema DERIVED from that one, the object it returns is not the derived schema's."""
    def resolve_type(value, ctx, info):
        name = value["__t"] if isinstance(value, dict) else None
        return schema.types.get(name, name) if name is not None else None
    resolve_type._is_rtype = True
    return resolve_type


def build_source(rng, size, funcs):
    """(description, sdl, live schema with code-built attributes)."""
    from py_gql import build_schema
    desc = snake_desc(rng, G.gen_schema(rng, size=size, with_mutation=(rng.random() < 0.4)))
    rare = rng.random() < 0.45
    schema = None
    if rare:
        try:
            rdesc = rare_names(random_fork(rng), desc)
            rsdl = G.to_sdl(rdesc)
            schema = build_schema(rsdl)
            desc, sdl = rdesc, rsdl
        except Exception:  # noqa  (a rare name the library does not accept: fall back to the plain names)
            schema = None
    if schema is None:
        rare = False
        sdl = G.to_sdl(desc)
        schema = build_schema(sdl)
    desc["rare_names"] = rare
    decorate(rng, schema, funcs)
    desc["subclassed"] = subclass_some(random_fork(rng), schema) if rng.random() < 0.2 else []
    return desc, sdl, schema


class AppScalarType(__import__("py_gql.schema", fromlist=["ScalarType"]).ScalarType):
    """The documented way to write a custom scalar: subclass ScalarType, override serialize / parse."""

    def serialize(self, value):
        return "<%s>" % (value,)

    def parse(self, value):
        return "<%s>" % (value,)


class AppEnumType(__import__("py_gql.schema", fromlist=["EnumType"]).EnumType):
    def get_name(self, value):
        return super().get_name(value)


def subclass_some(rng, schema):
    """An application may define its own subclasses of the type classes: one to three type objects of the source become
    instances of a subclass — behaviour-free for ObjectType / InterfaceType / InputObjectType / EnumType, overriding
    serialize / parse for custom scalars."""
    from py_gql.schema import EnumType, InputObjectType, InterfaceType, ObjectType, ScalarType

    class AppObjectType(ObjectType):
        pass

    class AppInterfaceType(InterfaceType):
        pass

    class AppInputObjectType(InputObjectType):
        pass
    table = {ObjectType: AppObjectType, InterfaceType: AppInterfaceType, InputObjectType: AppInputObjectType,
             ScalarType: AppScalarType, EnumType: AppEnumType}
    cand = [t for n, t in sorted(schema.types.items()) if not n.startswith("__") and n not in SCALARS and type(t) in table]
    rng.shuffle(cand)
    if rng.random() < 0.6:
        cand.sort(key=lambda t: not isinstance(t, (ScalarType, EnumType)))      # (leaf types first; the sort is stable)
    done = []
    for t in cand[:rng.randint(1, 3)]:
        t.__class__ = table[type(t)]
        done.append(t.name)
    return done


def random_fork(rng):
    import random
    return random.Random(rng.getrandbits(48))


def decorate(rng, schema, funcs):
    """Code-built attributes. About half of the object types get their resolvers / subscriptions / default resolver through
    the schema's REGISTRIES (`register_resolver`, `register_subscription`, `register_default_resolver`), the others by
    direct assignment — so that some types have registry entries at derivation time and some have none."""
    from py_gql.schema import InputObjectType, InterfaceType, ObjectType, UnionType
    for t in schema.types.values():
        if t.name.startswith("__") or t.name in SCALARS:
            continue
        via_registry = isinstance(t, ObjectType) and rng.random() < 0.5
        if isinstance(t, (InterfaceType, UnionType)):
            t.resolve_type = funcs.make(object_returning_resolve_type(schema) if rng.random() < 0.3 else universal_resolve_type)
        if isinstance(t, ObjectType):
            if rng.random() < 0.5:
                if via_registry:
                    schema.register_default_resolver(t.name, funcs.make(universal_resolver))
                else:
                    t.default_resolver = funcs.make(universal_resolver)
        if isinstance(t, (ObjectType, InterfaceType)):
            for f in t.fields:
                if rng.random() < 0.6:
                    if via_registry:
                        schema.register_resolver(t.name, f.name, funcs.make(universal_resolver))
                    else:
                        f.resolver = funcs.make(universal_resolver)
                if rng.random() < 0.25:
                    if via_registry:
                        schema.register_subscription(t.name, f.name, funcs.make(universal_resolver))
                    else:
                        f.subscription_resolver = funcs.make(universal_resolver)
                if rng.random() < 0.3:
                    f.python_name = "py_" + f.name
                for a in f.arguments:
                    if rng.random() < 0.3:
                        a.python_name = "pa_" + a.name
        if isinstance(t, InputObjectType):
            for f in t.fields:
                if rng.random() < 0.3:
                    f.python_name = "pi_" + f.name
    for d in schema.directives.values():
        for a in d.arguments:
            if d.name.startswith("dir") and rng.random() < 0.3:
                a.python_name = "pd_" + a.name
    schema.default_resolver = funcs.make(universal_resolver)
    refresh_defaults(schema)


def refresh_defaults(schema):
    """The python names of input fields were just assigned in code: the default values (coerced when the schema was built, input
    objects keyed by the OLD python names) are evaluated again from their literals, so that every default IS a value of its type
    - the invariant the library keeps (CamelCaseSchemaTransform leaves python names alone for that reason)."""
    from py_gql.schema import InputObjectType, InterfaceType, ObjectType
    from py_gql.utilities import value_from_ast
    members = []
    for n, t in schema.types.items():
        if n.startswith("__"):
            continue
        if isinstance(t, (ObjectType, InterfaceType)):
            members += [a for f in t.fields for a in f.arguments]
        elif isinstance(t, InputObjectType):
            members += list(t.fields)
    for d in schema.directives.values():
        members += list(d.arguments)
    for el in members:
        node = getattr(el, "node", None)
        if el.has_default_value and node is not None and getattr(node, "default_value", None) is not None:
            try:
                el.default_value = value_from_ast(node.default_value, el.type)
            except Exception:  # noqa
                pass


def registry_digest(schema):
    """The resolver REGISTRIES of a schema (outer keys, inner keys, identity of the callables) + the schema-level default."""
    return {
        "resolvers": {t: {f: _fid(fn) for f, fn in sorted(d.items())} for t, d in sorted(schema.resolvers.items())},
        "subscriptions": {t: {f: _fid(fn) for f, fn in sorted(d.items())} for t, d in sorted(schema.subscriptions.items())},
        "default_resolvers": {t: _fid(fn) for t, fn in sorted(schema.default_resolvers.items())},
        "default_resolver": _fid(schema.default_resolver),
    }


def field_tables(schema):
    """({object type: [field names]}, {type: {field: resolver id}}, {type: {field: subscription resolver id}}) of a schema."""
    from py_gql.schema import ObjectType
    fields, fres, fsub = {}, {}, {}
    for n, t in schema.types.items():
        if isinstance(t, ObjectType):
            fields[n] = [f.name for f in t.fields]
            fres[n] = {f.name: _fid(f.resolver) for f in t.fields if f.resolver is not None}
            fsub[n] = {f.name: _fid(f.subscription_resolver) for f in t.fields if f.subscription_resolver is not None}
    return fields, fres, fsub


def restrict_registry(digest, schema):
    """The registry entries that still name a field of `schema` (what a derived schema is expected to show)."""
    from py_gql.schema import ObjectType
    out = dict(digest)
    for k in ("resolvers", "subscriptions"):
        d = {}
        for t, by_field in digest[k].items():
            ty = schema.types.get(t)
            if isinstance(ty, ObjectType):
                kept = {f: v for f, v in by_field.items() if f in ty.field_map}
                if kept:
                    d[t] = kept
        out[k] = d
    return out


def registry_case(source, funcs, rng, cfg, kind="clone"):
    """`c = source.clone()` (or `extend_schema(source, …)`) + a few registrations on `c`: the request for the model (registries
    of the source before, what the fields of the source carry, the operations) and what the real code shows afterwards
    (registries of the source and of the derived schema, or that the derivation raised). `source` may itself be a DERIVED
    schema whose registries name fields an earlier transform renamed / removed / wrapped."""
    from py_gql.exc import SchemaError
    from py_gql.schema import ObjectType
    from py_gql.sdl import extend_schema
    before = registry_digest(source)
    fields, fres, fsub = field_tables(source)
    req = {"op": "regs", "kind": kind, "cfg": cfg, "source": before, "fields": fields, "fieldres": fres, "fieldsub": fsub, "ops": []}
    try:
        if kind == "extend":
            q = source.query_type.name
            c = extend_schema(source, "extend type %s { zz_reg_case: Int }" % q)
            fields[q] = fields.get(q, []) + ["zz_reg_case"]
        else:
            c = source.clone()
    except (SchemaError, ValueError) as e:
        return req, {"rejected": True, "why": "%s: %s" % (type(e).__name__, e), "source": registry_digest(source)}
    objs = [t for n, t in c.types.items() if isinstance(t, ObjectType) and not n.startswith("__") and t.fields]
    ops = req["ops"]
    for _ in range(rng.randint(1, 4)):
        if not objs:
            break
        t = rng.choice(objs)
        f = rng.choice(list(t.fields))
        fn = funcs.make(universal_resolver)
        k = rng.choice(["resolver", "resolver", "subscription", "default"])
        if k == "resolver":
            c.register_resolver(t.name, f.name, fn, allow_override=True)
        elif k == "subscription":
            c.register_subscription(t.name, f.name, fn, allow_override=True)
        else:
            c.register_default_resolver(t.name, fn, allow_override=True)
        ops.append({"k": k, "t": t.name, "f": f.name, "fn": fn._vid})
    return req, {"rejected": False, "source": registry_digest(source), "clone": registry_digest(c)}


def post_derivation_registrations(derived, source, funcs, rng):
    """Use the DERIVED schema the way an application does after deriving it: register resolvers, subscriptions and default
    resolvers (method and decorator forms) on object types that already had registry entries in the source at derivation
    time and on types that had none. Returns (what was done, undo) — `undo()` puts the derived schema back (the source
    must be compared BEFORE calling it)."""
    from py_gql.schema import ObjectType
    objs = [t for n, t in derived.types.items() if isinstance(t, ObjectType) and not n.startswith("__") and t.fields]
    with_entry = [t for t in objs if t.name in source.resolvers or t.name in source.subscriptions or t.name in source.default_resolvers]
    without = [t for t in objs if t not in with_entry]
    chosen = []
    if with_entry:
        chosen.append(rng.choice(with_entry))
    if without:
        chosen.append(rng.choice(without))
    done, undo = [], []

    def keep_inner(reg, t, f):
        had_outer = t in reg
        had = had_outer and f in reg[t]
        old = reg[t][f] if had else None

        def restore():
            if had:
                reg[t][f] = old
            elif t in reg:
                reg[t].pop(f, None)
                if not had_outer:
                    del reg[t]
        return restore

    for t in chosen:
        f = rng.choice(list(t.fields))
        fn1, fn2, fn3 = (funcs.make(universal_resolver) for _ in range(3))
        old = (f.resolver, f.subscription_resolver, t.default_resolver, derived.default_resolvers.get(t.name, _fid))
        undo.append(keep_inner(derived.resolvers, t.name, f.name))
        undo.append(keep_inner(derived.subscriptions, t.name, f.name))

        def restore_attrs(t=t, f=f, old=old):
            f.resolver, f.subscription_resolver, t.default_resolver = old[0], old[1], old[2]
            if old[3] is _fid:
                derived.default_resolvers.pop(t.name, None)
            else:
                derived.default_resolvers[t.name] = old[3]
        undo.append(restore_attrs)
        if rng.random() < 0.5:
            derived.register_resolver(t.name, f.name, fn1, allow_override=True)
        else:
            derived.resolver("%s.%s" % (t.name, f.name), allow_override=True)(fn1)
        if rng.random() < 0.5:
            derived.register_subscription(t.name, f.name, fn2, allow_override=True)
        else:
            derived.subscription("%s.%s" % (t.name, f.name), allow_override=True)(fn2)
        derived.register_default_resolver(t.name, fn3, allow_override=True)
        done.append("%s.%s (%s)" % (t.name, f.name, "type had registry entries in the source" if t in with_entry else "type had none"))

    def undo_all():
        for u in reversed(undo):
            u()
    return done, undo_all


# ---------------------------------------------------------------------------
# joint heap dump
# ---------------------------------------------------------------------------

def _fid(fn):
    if fn is None:
        return None
    return getattr(fn, "_vid", -1)


class Dumper:
    """Dump live schemas into one heap. Identities (id(obj)) -> addresses, stable over the Dumper's life."""

    def __init__(self):
        self.addr = {}
        self.keep = []   # keeps objects alive so that ids are not reused
        self.classes = {}   # application-defined classes of leaf type objects -> small id

    def a(self, obj):
        k = id(obj)
        if k not in self.addr:
            self.addr[k] = len(self.addr)
            self.keep.append(obj)
        return self.addr[k]

    def tref(self, t, todo):
        from py_gql.schema import ListType, NonNullType
        if isinstance(t, NonNullType):
            return {"k": "nonNull", "t": self.tref(t.type, todo)}
        if isinstance(t, ListType):
            return {"k": "list", "t": self.tref(t.type, todo)}
        todo.append(t)
        return {"k": "named", "n": t.name, "a": self.a(t)}

    def ref(self, t, todo):
        todo.append(t)
        return [t.name, self.a(t)]

    def arg(self, a, todo):
        return {"o": "arg", "name": a.name, "ty": self.tref(a.type, todo), "py": a.python_name,
                "dflt": repr(a._default_value) if a.has_default_value else None, "desc": a.description}

    def field(self, f, objs, todo):
        args = []
        for a in f.arguments:
            objs[self.a(a)] = self.arg(a, todo)
            args.append(self.a(a))
        return {"o": "field", "name": f.name, "ty": self.tref(f.type, todo), "args": args, "desc": f.description,
                "depr": f.deprecation_reason, "res": _fid(f.resolver), "sub": _fid(f.subscription_resolver),
                "py": f.python_name}

    def type_(self, t, objs, todo):
        from py_gql.schema import EnumType, InputObjectType, InterfaceType, ObjectType, ScalarType, UnionType
        o = {"o": "type", "name": t.name, "desc": t.description, "fields": [], "ifaces": [], "members": [],
             "dres": None, "rtype": None, "values": [], "prot": t.name in SCALARS, "cls": None}
        if isinstance(t, (EnumType, ScalarType)) and type(t) not in (EnumType, ScalarType) and "C14_world" in type(t).__module__:
            # (the BEHAVIOUR of a leaf type: the class of an instance of a ScalarType / EnumType subclass)
            o["cls"] = self.classes.setdefault(type(t), len(self.classes) + 1)
        if isinstance(t, ObjectType):
            o["kind"] = "object"
            o["ifaces"] = [self.ref(i, todo) for i in t.interfaces]
            o["dres"] = _fid(t.default_resolver)
        elif isinstance(t, InterfaceType):
            o["kind"] = "interface"
            o["rtype"] = _fid(t.resolve_type)
        elif isinstance(t, UnionType):
            o["kind"] = "union"
            o["members"] = [self.ref(m, todo) for m in t.types]
            o["rtype"] = _fid(t.resolve_type)
        elif isinstance(t, EnumType):
            o["kind"] = "enum"
            o["values"] = ["%s|%s|%s" % (v.name, v.deprecation_reason, v.description) for v in t.values]
        elif isinstance(t, InputObjectType):
            o["kind"] = "input"
            for f in t.fields:
                objs[self.a(f)] = self.arg(f, todo)
                o["fields"].append(self.a(f))
        elif isinstance(t, ScalarType):
            o["kind"] = "scalar"
        else:
            raise TypeError(type(t))
        if isinstance(t, (ObjectType, InterfaceType)):
            for f in t.fields:
                objs[self.a(f)] = self.field(f, objs, todo)
                o["fields"].append(self.a(f))
        return o

    def directive(self, d, objs, todo):
        args = []
        for a in d.arguments:
            objs[self.a(a)] = self.arg(a, todo)
            args.append(self.a(a))
        return {"o": "dir", "name": d.name, "args": args, "locs": list(d.locations), "desc": d.description}

    def dump(self, schemas):
        """{"objs": {addr: obj}, "schemas": [...]} for the given live schemas (joint)."""
        from py_gql.schema import SPECIFIED_DIRECTIVES
        objs = {}
        todo = []
        out = []
        for s in schemas:
            reg = []
            for name, t in s.types.items():
                if name.startswith("__"):
                    continue
                reg.append([name, self.a(t)])
                todo.append(t)
            dirs = []
            for name, d in s.directives.items():
                if d in SPECIFIED_DIRECTIVES:
                    continue
                objs[self.a(d)] = self.directive(d, objs, todo)
                dirs.append([name, self.a(d)])
            roots = {}
            for k in ("query_type", "mutation_type", "subscription_type"):
                r = getattr(s, k)
                roots[k] = None if r is None else self.ref(r, todo)
            out.append({"types": reg, "dirs": dirs, "query": roots["query_type"], "mutation": roots["mutation_type"],
                        "subscription": roots["subscription_type"], "dres": _fid(s.default_resolver)})
        while todo:
            t = todo.pop()
            if t.name.startswith("__"):
                continue
            a = self.a(t)
            if a in objs:
                continue
            objs[a] = self.type_(t, objs, todo)
        return {"objs": objs, "schemas": out}


# ---------------------------------------------------------------------------
# canonical renumbering (applied to the Python dump and to the model's answer alike)
# ---------------------------------------------------------------------------

def byname(world, si):
    """The by-name dump of schema `si` of a canon world: every address replaced by what it holds, type references by names
    (what `typeV` / `dirV` are in the model: Props/C14_refine.lean)."""
    objs = world["objs"]

    def ty(t):
        return t["n"] if t["k"] == "named" else [t["k"], ty(t["t"])]

    def arg(a):
        o = objs[a]
        return {"name": o["name"], "ty": ty(o["ty"]), "py": o["py"], "dflt": o["dflt"], "desc": o["desc"]}

    def field(a):
        o = objs[a]
        return {"name": o["name"], "ty": ty(o["ty"]), "args": [arg(x) for x in o["args"]], "desc": o["desc"], "depr": o["depr"],
                "res": o["res"], "sub": o["sub"], "py": o["py"]}

    def typ(a):
        o = objs[a]
        out = {k: o[k] for k in ("kind", "name", "desc", "dres", "rtype", "values", "prot", "cls")}
        out["ifaces"] = [n for n, _ in o["ifaces"]]
        out["members"] = [n for n, _ in o["members"]]
        out["fields"] = [field(x) for x in o["fields"]] if o["kind"] in ("object", "interface") else (
            [arg(x) for x in o["fields"]] if o["kind"] == "input" else [])
        return out

    def dr(a):
        o = objs[a]
        return {"name": o["name"], "locs": o["locs"], "desc": o["desc"], "args": [arg(x) for x in o["args"]]}
    s = world["schemas"][si]
    return {"types": {n: typ(a) for n, a in s["types"]}, "dirs": {n: dr(a) for n, a in s["dirs"]},
            "roots": [None if s[k] is None else s[k][0] for k in ("query", "mutation", "subscription")], "dres": s["dres"]}


def dump_differs(dumper, schema, raw):
    return dumper.dump([schema]) != raw


def canon(world):
    """Renumber addresses by deterministic traversal from the schemas (in order); drop unreachable objects."""
    objs = world["objs"]
    if isinstance(objs, list):
        objs = {i: o for i, o in enumerate(objs)}
    else:
        objs = {int(k): v for k, v in objs.items()}
    num = {}
    order = []

    def visit(a):
        if a is None or a in num:
            return
        num[a] = len(num)
        order.append(a)
        o = objs.get(a)
        if o is None:
            return
        if o["o"] == "type":
            for _, b in o["ifaces"]:
                visit(b)
            for _, b in o["members"]:
                visit(b)
            for f in o["fields"]:
                visit(f)
        elif o["o"] == "field":
            for g in o["args"]:
                visit(g)
            visit(base(o["ty"]))
        elif o["o"] == "arg":
            visit(base(o["ty"]))
        elif o["o"] == "dir":
            for g in o["args"]:
                visit(g)

    def base(t):
        while t["k"] != "named":
            t = t["t"]
        return t["a"]

    for s in world["schemas"]:
        for k in ("query", "mutation", "subscription"):
            if s[k] is not None:
                visit(s[k][1])
        for _, a in sorted(s["types"]):
            visit(a)
        for _, a in sorted(s["dirs"]):
            visit(a)

    def rt(t):
        if t["k"] == "named":
            return {"k": "named", "n": t["n"], "a": num[t["a"]]}
        return {"k": t["k"], "t": rt(t["t"])}

    out_objs = []
    for a in order:
        o = objs.get(a)
        if o is None:
            out_objs.append({"o": "dangling"})
            continue
        o = dict(o)
        if o["o"] == "type":
            o["ifaces"] = [[n, num[b]] for n, b in o["ifaces"]]
            o["members"] = [[n, num[b]] for n, b in o["members"]]
            o["fields"] = [num[f] for f in o["fields"]]
        elif o["o"] == "field":
            o["args"] = [num[g] for g in o["args"]]
            o["ty"] = rt(o["ty"])
        elif o["o"] == "arg":
            o["ty"] = rt(o["ty"])
        elif o["o"] == "dir":
            o["args"] = [num[g] for g in o["args"]]
        out_objs.append(o)
    out_s = []
    for s in world["schemas"]:
        out_s.append({"types": sorted([n, num[a]] for n, a in s["types"]),
                      "dirs": sorted([n, num[a]] for n, a in s["dirs"]),
                      "query": None if s["query"] is None else [s["query"][0], num[s["query"][1]]],
                      "mutation": None if s["mutation"] is None else [s["mutation"][0], num[s["mutation"][1]]],
                      "subscription": None if s["subscription"] is None else [s["subscription"][0], num[s["subscription"][1]]],
                      "dres": s.get("dres")})
    return {"objs": out_objs, "schemas": out_s}


def first_diff(a, b, path=""):
    """Human-readable first difference of two JSON values."""
    if type(a) != type(b):
        return "%s: %r vs %r" % (path, a, b)
    if isinstance(a, dict):
        for k in sorted(set(a) | set(b)):
            if k not in a or k not in b:
                return "%s.%s: missing on one side" % (path, k)
            d = first_diff(a[k], b[k], path + "." + str(k))
            if d:
                return d
        return None
    if isinstance(a, list):
        if len(a) != len(b):
            return "%s: length %d vs %d" % (path, len(a), len(b))
        for i, (x, y) in enumerate(zip(a, b)):
            d = first_diff(x, y, "%s[%d]" % (path, i))
            if d:
                return d
        return None
    return None if a == b else "%s: %r vs %r" % (path, a, b)


# ---------------------------------------------------------------------------
# closedness on the live objects
# ---------------------------------------------------------------------------

def closed_violations(schema):
    """References that are NOT the object registered under their name (list of strings)."""
    from py_gql.schema import (InputObjectType, InterfaceType, ObjectType, SPECIFIED_DIRECTIVES, UnionType, unwrap_type)
    bad = []

    def chk(where, t):
        b = unwrap_type(t)
        if schema.types.get(b.name) is not b:
            bad.append("%s -> %s (%s)" % (where, b.name, "unregistered name" if b.name not in schema.types else "stale object"))

    for name, t in schema.types.items():
        if name.startswith("__"):
            continue
        if isinstance(t, ObjectType):
            for i in t.interfaces:
                chk("interface of %s" % name, i)
        if isinstance(t, UnionType):
            for m in t.types:
                chk("member of %s" % name, m)
        if isinstance(t, (ObjectType, InterfaceType)):
            for f in t.fields:
                chk("field %s.%s" % (name, f.name), f.type)
                for a in f.arguments:
                    chk("argument %s.%s(%s)" % (name, f.name, a.name), a.type)
        if isinstance(t, InputObjectType):
            for f in t.fields:
                chk("input field %s.%s" % (name, f.name), f.type)
    for d in schema.directives.values():
        if d in SPECIFIED_DIRECTIVES:
            continue
        for a in d.arguments:
            chk("directive argument @%s(%s)" % (d.name, a.name), a.type)
    for k in ("query_type", "mutation_type", "subscription_type"):
        r = getattr(schema, k)
        if r is not None and schema.types.get(r.name) is not r:
            bad.append("root %s -> %s" % (k, r.name))
    bad += cache_violations(schema)
    return bad


def expected_possible(schema, t):
    """Possible object types of an abstract type computed from the registry alone (no cache)."""
    from py_gql.schema import ObjectType, UnionType
    if isinstance(t, UnionType):
        return list(t.types)
    return [o for o in schema.types.values() if isinstance(o, ObjectType) and any(i.name == t.name for i in o.interfaces)]


def cache_violations(schema):
    """The schema's DERIVED indexes must agree with the registry: `implementations`, `_possible_types`
    (also through `get_possible_types` / `is_possible_type`) and `_literal_types_cache`."""
    from py_gql.schema import InterfaceType, ObjectType, UnionType, unwrap_type
    bad = []
    for iface, impls in schema.implementations.items():
        for o in impls:
            if schema.types.get(o.name) is not o:
                bad.append("implementations[%s] -> %s (%s)" % (iface, o.name, "stale object" if o.name in schema.types else "unregistered name"))
    for name, t in schema.types.items():
        if name.startswith("__"):
            continue
        if isinstance(t, ObjectType):
            for i in t.interfaces:
                if t not in schema.implementations.get(i.name, []):
                    bad.append("implementations[%s] misses %s (incomplete index)" % (i.name, name))
    for key, vals in list(schema._possible_types.items()):
        if schema.types.get(key.name) is not key:
            continue        # entry of a superseded abstract type object: not reachable through closed references
        for o in vals:
            if schema.types.get(o.name) is not o:
                bad.append("_possible_types[%s] -> %s (%s)" % (key.name, o.name, "stale object" if o.name in schema.types else "unregistered name"))
        if sorted(x.name for x in vals) != sorted(x.name for x in expected_possible(schema, key)):
            bad.append("_possible_types[%s] differs from the registry (incomplete index)" % key.name)
    for name, t in schema.types.items():
        if name.startswith("__") or not isinstance(t, (InterfaceType, UnionType)):
            continue
        got = schema.get_possible_types(t)
        for o in got:
            if schema.types.get(o.name) is not o:
                bad.append("get_possible_types(%s) -> %s (%s)" % (name, o.name, "stale object" if o.name in schema.types else "unregistered name"))
        exp = expected_possible(schema, t)
        if sorted(x.name for x in got) != sorted(x.name for x in exp):
            bad.append("get_possible_types(%s) differs from the registry (incomplete index)" % name)
        for o in exp:
            if not schema.is_possible_type(t, o):
                bad.append("is_possible_type(%s, %s) is False for a registered member (incomplete index)" % (name, o.name))
    for node, t in list(schema._literal_types_cache.items()):
        b = unwrap_type(t)
        if schema.types.get(b.name) is not b:
            bad.append("_literal_types_cache -> %s (%s)" % (b.name, "stale object" if b.name in schema.types else "unregistered name"))
    return bad


def use_schema(schema, depth=2):
    """Use a schema the way a server does, so that every derived cache is populated:
    a real query with fragments on the abstract types, the `possibleTypes` introspection,
    get_possible_types / is_possible_type, get_type_from_literal. Returns the query outcome."""
    from py_gql.lang import parse_type
    from py_gql.schema import InterfaceType, ObjectType, UnionType
    out = run_query(schema, coverage_query(schema, depth))
    run_query(schema, "{ __schema { types { name kind possibleTypes { name } } } }")
    for name, t in list(schema.types.items()):
        if name.startswith("__"):
            continue
        if isinstance(t, (InterfaceType, UnionType)):
            try:
                for o in schema.get_possible_types(t):
                    schema.is_possible_type(t, o)
            except Exception:  # noqa
                pass
        try:
            schema.get_type_from_literal(parse_type("[%s!]" % name))
        except Exception:  # noqa
            pass
    return out


# ---------------------------------------------------------------------------
# coverage query
# ---------------------------------------------------------------------------

def _literal(schema, t, depth=0):
    from py_gql.schema import EnumType, InputObjectType, ListType, NonNullType, ScalarType
    if isinstance(t, NonNullType):
        return _literal(schema, t.type, depth)
    if isinstance(t, ListType):
        return "[]"
    if isinstance(t, ScalarType):
        return {"Int": "1", "Float": "1.5", "String": '"s"', "Boolean": "true", "ID": '"i"'}.get(t.name, '"c"')
    if isinstance(t, EnumType):
        return t.values[0].name
    if isinstance(t, InputObjectType):
        parts = []
        for f in t.fields:
            if f.required:
                parts.append("%s: %s" % (f.name, _literal(schema, f.type, depth + 1)))
        return "{" + ", ".join(parts) + "}"
    return "null"


def _selection(schema, t, depth, counter):
    from py_gql.schema import InterfaceType, ObjectType, UnionType, unwrap_type
    if isinstance(t, UnionType):
        parts = ["__typename"]
        for m in t.types:
            parts.append("... on %s %s" % (m.name, _selection(schema, m, depth, counter)))
        return "{ " + " ".join(parts) + " }"
    parts = ["__typename"]
    for f in t.fields:
        b = unwrap_type(f.type)
        args = ["%s: %s" % (a.name, _literal(schema, a.type)) for a in f.arguments if a.required]
        head = f.name + ("(" + ", ".join(args) + ")" if args else "")
        if isinstance(b, (ObjectType, InterfaceType, UnionType)):
            if depth <= 0:
                continue
            counter[0] += 1
            parts.append("x%d: %s %s" % (counter[0], head, _selection(schema, b, depth - 1, counter)))
        else:
            counter[0] += 1
            parts.append("x%d: %s" % (counter[0], head))
    if isinstance(t, InterfaceType):
        for o in expected_possible(schema, t):
            parts.append("... on %s { __typename }" % o.name)
    return "{ " + " ".join(parts) + " }"


def coverage_query(schema, depth=2):
    return "query " + _selection(schema, schema.query_type, depth, [0])


def run_query(schema, query):
    """Canonical outcome of a real query (data + number of errors), or 'exc:<Class>'."""
    from py_gql import graphql_blocking
    try:
        r = graphql_blocking(schema, query)
        resp = r.response()
        return {"data": resp.get("data"), "errors": sorted(str(e.get("message")) for e in resp.get("errors", []))}
    except Exception as e:  # noqa
        LAST_EXC[0] = "%s: %s" % (type(e).__name__, e)
        return "exc:" + type(e).__name__


LAST_EXC = [""]


def introspect(schema):
    """{type name: {"fields": [...], "inputFields": [...]}}, [directive names] through the REAL introspection query."""
    from py_gql import graphql_blocking
    from py_gql.utilities import introspection_query
    try:
        r = graphql_blocking(schema, introspection_query()).response()
    except Exception:  # noqa
        return None, None
    if r.get("errors"):
        return None, None
    sc = r["data"]["__schema"]
    types = {}
    for t in sc["types"]:
        types[t["name"]] = {"fields": [f["name"] for f in (t.get("fields") or [])],
                            "inputFields": [f["name"] for f in (t.get("inputFields") or [])],
                            "args": {f["name"]: [a["name"] for a in f.get("args") or []] for f in (t.get("fields") or [])},
                            "possibleTypes": None if t.get("possibleTypes") is None else sorted(p["name"] for p in t["possibleTypes"]),
                            "kind": t["kind"]}
    return types, [d["name"] for d in sc["directives"]]

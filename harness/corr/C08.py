# -*- coding: utf-8 -*-
"""
C08 — results do not depend on runtime, executor variant or completion order; execution always
completes; unexpected resolver exceptions surface.

Direct oracle on the REAL code: every generated operation is executed by
  * `BlockingExecutor` (reference), * the generic `Executor` on `BlockingRuntime`,
  * the generic `Executor` on `AsyncIORuntime` (private event loop; deferred resolvers return
    futures / coroutines the harness resolves in a chosen order),
  * the generic `Executor` on `ThreadPoolRuntime` with `_inner` replaced by a manual executor whose
    futures the harness completes in a chosen order,
under ALL schedules (<= 4 quick / <= 6 thorough deferred tasks; FIFO, LIFO and random ones beyond),
and data (ordered), the multiset of (path, kind) errors and completion are compared pairwise.
Correspondence: the same (operation, schedule) pairs are executed by the Lean model
(`PyGqlModel/Runtime.lean`, `AsyncExec.lean`; driver `drv_C08`) and compared including the
event trace, the queue sizes and the step at which the overall result completes.
"""
import json

from corr import C08_world as W

PROPERTY = "C08"
RULE = ("operations in the simplified form (tree of response-keyed fields, each resolver sync / deferred / "
        "deferred-returning-a-deferred, outcome value | null | list | object | ResolverError | unexpected exception | "
        "unserialisable value, nullable / non-null / list typing): bounded-exhaustive over 1-2 top-level fields x 3 modes x "
        "9 outcome shapes, then seeded random trees; every operation runs under all four configurations and, for the two "
        "deferred runtimes, under ALL completion orders when it has <= 4 (quick) / <= 6 (thorough) tasks, else FIFO + LIFO + "
        "random orders. distinct non-trivial = distinct (operation, schedule) with >= 1 deferred task")
ASSUMPTIONS = [
    "completions are atomic: a task's completion and all callbacks/continuations it triggers run before the next completion "
    "(manual executor; asyncio loop drained to quiescence between completions)",
    "resolver outcomes do not depend on time or on other resolvers (resolver world fixed per response path)",
    "an operation whose unexpected exception makes the overall result fail is compared on (failed, which exception class) only; "
    "the schedule is cut when the overall result completes",
]
TRUSTED = [
    "concurrent.futures.Future semantics (callbacks run synchronously at completion, exceptions in callbacks swallowed, "
    "set_result on a finished future raises InvalidStateError) and asyncio.gather/await ordering are modelled, not verified",
    "NOT exhibited by the model or the controlled scheduler: true parallel interleaving of callback *bodies* on different "
    "worker threads (the non-atomic `done += 1` read-modify-write in gather_futures). Only a short real-thread smoke run touches it.",
]

CONFIGS = ("blocking", "generic-blocking", "asyncio", "threadpool")


def dumps(x, **kw):
    """json.dumps that cannot raise on what a broken executor may put into `data` (e.g. a Future object)."""
    return json.dumps(x, default=lambda o: "<%s>" % type(o).__name__, **kw)


# ---------------------------------------------------------------------------

def unexpected_kinds(case):
    fs = W.features(case)
    ks = set()
    if "exc" in fs:
        ks.add("Boom")
    if "bad" in fs:
        ks.add("RuntimeError")
    return ks


def compare_to_reference(case, ref, obs, config):
    """None or (what, description). Asks exactly what C08 states."""
    if obs["status"] in ("pending", "hang"):
        return ("never-completes", "overall result still pending after every resolver task completed"
                if obs["status"] == "pending" else "execution blocks (watchdog)")
    if obs["status"] not in ("ok", "failed"):
        return ("bad-result-type", obs["status"])
    if ref["status"] == "failed":
        if obs["status"] != "failed":
            return ("unexpected-lost", "reference fails with an unexpected exception, %s returns a result" % config)
        if obs["exc"] not in unexpected_kinds(case):
            return ("wrong-exception", "%s fails with %s, not with a resolver's unexpected exception" % (config, obs["exc"]))
        return None
    if obs["status"] == "failed":
        return ("spurious-failure", "%s fails with %s, reference returns a result" % (config, obs["exc"]))
    if dumps(obs["data"]) != dumps(ref["data"]):
        return ("data-differs", "data differs from BlockingExecutor")
    if obs["errors"] != ref["errors"]:
        return ("errors-differ", "error multiset differs from BlockingExecutor")
    return None


def model_view(obs, with_sched=True):
    """What is compared with the Lean model."""
    v = {"status": obs["status"], "trace": [e for e in obs["trace"] if e[0] != "body"]}
    if with_sched:
        v["sizes"] = obs["sizes"]
        v["steps"] = obs["steps"]
    if obs["status"] == "ok":
        v["data"] = obs["data"]
        v["errors"] = obs["errors"]
    if obs["status"] == "failed":
        v["exc"] = obs["exc"]
    return v


def model_answer_view(ans, with_sched):
    v = {"status": ans.get("status"), "trace": ans.get("trace")}
    if with_sched:
        v["sizes"] = ans.get("sizes")
        v["steps"] = ans.get("steps")
    if v["status"] == "ok":
        v["data"] = ans.get("data")
        v["errors"] = sorted(ans.get("errors", []), key=lambda x: dumps(x))
    if v["status"] == "failed":
        v["exc"] = ans.get("exc")
    return v


class Checker:
    """Runs cases on the real code, collects model requests, reports failures."""

    def __init__(self, ctx, prop="C08", extra_oracle=None):
        self.ctx = ctx
        self.prop = prop
        self.pending = []      # (request, expected view, case, config, schedule)
        self.max_tasks_all = 4 if ctx.tier == "quick" else 6
        self.extra_oracle = extra_oracle
        self.sched_cap = 800

    # -- the four configurations on one case -------------------------------
    def observations(self, case, rng=None, cap=None, configs=("asyncio", "threadpool")):
        """yield (config, schedule, obs) for every configuration / schedule to try."""
        yield "blocking", None, W.run_blocking(case)
        yield "generic-blocking", None, W.run_blocking(case, generic=True)
        ntasks = W.count_tasks(case)
        for config in configs:
            runner = W.RUNNERS[config]
            if ntasks <= self.max_tasks_all:
                for sched, obs in W.enumerate_schedules(lambda s: runner(case, s), cap or self.sched_cap):
                    yield config, sched, obs
            else:
                scheds = [[], W.LIFO]
                if rng is not None:
                    scheds += [W.random_schedule(rng) for _ in range(4 if self.ctx.tier == "quick" else 12)]
                for s in scheds:
                    obs = runner(case, s)
                    yield config, obs["choices"], obs

    def failures_of(self, case, rng=None, cap=None, collect_model=False):
        """list of (what, config, schedule, description)."""
        out = []
        ref = None
        for config, sched, obs in self.observations(case, rng, cap):
            if config == "blocking":
                ref = obs
                if obs["status"] not in ("ok", "failed"):
                    out.append(("never-completes", config, None, "BlockingExecutor: " + obs["status"]))
                    return out
                if obs["status"] == "failed" and obs["exc"] not in unexpected_kinds(case):
                    out.append(("spurious-failure", config, None, "BlockingExecutor fails with %s" % obs["exc"]))
                    return out
            else:
                bad = compare_to_reference(case, ref, obs, config)
                if bad:
                    out.append((bad[0], config, sched, bad[1]))
                    if bad[0] == "never-completes":      # every further schedule would cost a watchdog period
                        return out
            if self.extra_oracle is not None:
                bad = self.extra_oracle(case, config, sched, obs)
                if bad:
                    out.append((bad[0], config, sched, bad[1]))
            if collect_model:
                self.collect(case, config, sched, obs)
        return out

    def collect(self, case, config, sched, obs):
        ctx = self.ctx
        ctx.count()
        ctx.stat("config=" + config)
        ctx.stat("status=" + obs["status"])
        if sched is not None:
            ctx.stat("tasks=%d" % len(obs["sizes"]))
            if obs["sizes"]:
                ctx.nontrivial((dumps(W.to_model(case), sort_keys=True), tuple(obs["choices"])))
        if not ctx.model_ok:
            return
        if sched is None:
            req = {"op": "blocking", "case": W.to_model(case)}
        else:
            req = {"op": "async", "case": W.to_model(case), "schedule": obs["choices"]}
        self.pending.append((req, model_view(obs, sched is not None), case, config, sched))
        if len(self.pending) >= 4000:
            self.flush()

    def flush(self):
        ctx = self.ctx
        if not self.pending or not ctx.model_ok:
            self.pending = []
            return
        answers = ctx.driver.ask([p[0] for p in self.pending])
        for (req, expect, case, config, sched), ans in zip(self.pending, answers):
            got = model_answer_view(ans, sched is not None)
            if dumps(got, sort_keys=False) != dumps(expect, sort_keys=False):
                diff = [k for k in expect if dumps(expect.get(k)) != dumps(got.get(k))] or ["keys"]
                ncorr = len([f for f in ctx.found if f["kind"] == "correspondence"])
                if ncorr >= 2:      # enough shrunk examples: only count further disagreements
                    ctx.fail("corr:%s:%s:%s:further" % (self.prop, config, diff[0]),
                             "Lean model and %s differ on %s" % (config, ",".join(diff)),
                             {"case": case, "config": config, "differs": diff, "schedule": sched}, kind="correspondence")
                    continue
                small = self.shrink_corr(case, config, sched, diff[0])
                ctx.fail("corr:%s:%s:%s:%s" % (self.prop, config, diff[0], "+".join(sorted(W.features(small)))),
                         "Lean model and %s differ on %s" % (config, ",".join(diff)),
                         {"case": small, "config": config, "differs": diff,
                          "original": {"case": case, "schedule": sched, "impl": expect, "model": got}},
                         kind="correspondence")
        self.pending = []

    def shrink_corr(self, case, config, sched, key):
        ctx = self.ctx

        def still(c):
            for cfg, s, obs in self.observations(c, cap=40, configs=(config,) if config in W.RUNNERS else ()):
                if cfg != config:
                    continue
                req = ({"op": "blocking", "case": W.to_model(c)} if s is None
                       else {"op": "async", "case": W.to_model(c), "schedule": obs["choices"]})
                got = model_answer_view(ctx.driver.ask([req])[0], s is not None)
                if dumps(got.get(key)) != dumps(model_view(obs, s is not None).get(key)):
                    return True
            return False
        try:
            return W.shrink(case, still, budget=40, seconds=5.0)
        except Exception:
            return case

    # -- one case, fully ----------------------------------------------------
    def enough(self):
        """stop generating once a few distinct failures are in hand (keeps a broken tree's run short)"""
        return len([f for f in self.ctx.found if f["kind"] == "property"]) >= 3

    def check(self, case, rng=None):
        ctx = self.ctx
        if self.enough():
            return True
        for f in W.features(case):
            ctx.stat("feature=" + f)
        fails = self.failures_of(case, rng, collect_model=True)
        if not fails:
            return True
        what, config = fails[0][0], fails[0][1]

        def still(c):
            return any(f[0] == what and f[1] == config for f in self.failures_of(c, cap=24))
        small = W.shrink(case, still, budget=20 if what == "never-completes" else 120)
        sf = [f for f in self.failures_of(small, cap=100) if f[0] == what and f[1] == config] or fails
        sig = "%s:%s:%s:%s" % (self.prop.lower(), what, config, "+".join(sorted(W.features(small))))
        ctx.fail(sig, "%s (%s)" % (sf[0][3], config),
                 {"case": small, "config": config, "schedule": sf[0][2], "what": what, "document": W.document(small)})
        return False


# ---------------------------------------------------------------------------
# case streams

I = {"t": "int"}


def small_outcomes():
    """(ty, rv-or-fo) shapes for the bounded-exhaustive stream."""
    sub = lambda m1, m2: {"t": "obj", "fields": [{"key": "a", "mode": m1, "ty": I}, {"key": "b", "mode": m2, "ty": {"t": "nn", "of": I}}]}  # noqa
    outs = [
        ("leaf", I, {"r": "ok", "v": 3}),
        ("null", I, {"r": "ok", "v": None}),
        ("nn-null", {"t": "nn", "of": I}, {"r": "ok", "v": None}),
        ("rerr", I, {"r": "rerr"}),
        ("exc", I, {"r": "exc"}),
        ("bad", I, {"r": "ok", "v": "bad"}),
        ("obj-dd", sub("deferred", "deferred"), {"r": "ok", "v": {"a": {"r": "ok", "v": 1}, "b": {"r": "ok", "v": None}}}),
        ("obj-sd", sub("sync", "nested"), {"r": "ok", "v": {"a": {"r": "rerr"}, "b": {"r": "ok", "v": 2}}}),
        ("list-obj", {"t": "list", "of": {"t": "obj", "fields": [{"key": "a", "mode": "deferred", "ty": I}]}},
         {"r": "ok", "v": [{"a": {"r": "ok", "v": 1}}, None, {"a": {"r": "rerr"}}]}),
    ]
    return outs


def exhaustive_cases(n_top):
    import itertools
    outs = small_outcomes()
    per_field = [(m, o) for m in W.MODES for o in outs]
    for kind in ("query", "mutation"):
        for combo in itertools.product(per_field, repeat=n_top):
            fields = []
            for i, (m, (_, ty, fo)) in enumerate(combo):
                fields.append({"key": ("m%d" if kind == "mutation" else "q%d") % (i + 1), "mode": m, "ty": ty, "out": fo})
            yield {"kind": kind, "fields": fields}


def random_case(rng, i):
    r = i % 6
    if r == 0:
        return W.gen_case(rng, depth=2, p_exc=0.08)
    if r == 1:
        return W.gen_case(rng, depth=2, p_bad=0.08, p_exc=0.04)
    if r == 2:
        return W.gen_case(rng, depth=3, p_sync=0.6, max_sub=2)
    if r == 3:
        return W.gen_case(rng, depth=2, p_sync=0.1, p_nested=0.3, n_top=rng.randint(1, 3), max_sub=2)
    return W.gen_case(rng, depth=rng.randint(1, 3))


def corpus_cases(prop):
    from common import CORPUS
    d = CORPUS / prop
    out = []
    if d.exists():
        for p in sorted(d.glob("*.json")):
            out.append(json.loads(p.read_text()))
    return out


def run_streams(ctx, chk, budget_frac=0.8, kinds=None):
    rng = ctx.rng
    t_budget = (ctx.deadline - ctx.t0) * budget_frac
    import time
    t_end = ctx.t0 + min(t_budget, 28 if ctx.tier == "quick" else 240)
    # corpus
    for c in corpus_cases(chk.prop):
        case = c.get("case", c)
        if kinds and case["kind"] not in kinds:
            continue
        ctx.stat("stream=corpus")
        chk.check(case, rng)
    # bounded exhaustive
    ex1 = [c for c in exhaustive_cases(1) if not kinds or c["kind"] in kinds]
    ex2 = [c for c in exhaustive_cases(2) if not kinds or c["kind"] in kinds]
    if ctx.tier == "quick":
        ex2 = rng.sample(ex2, min(len(ex2), 220))
    ctx.extra["exhaustive_small_ops"] = len(ex1) + len(ex2)
    for case in ex1 + ex2:
        if time.time() > t_end:
            ctx.notes.append("exhaustive stream cut by the time budget")
            break
        ctx.stat("stream=exhaustive")
        chk.check(case, rng)
    # random
    i = 0
    n = ctx.n(260, 2600)
    while i < n and time.time() < t_end:
        case = random_case(rng, i)
        if kinds:
            case = dict(case, kind=rng.choice(kinds))
            for j, f in enumerate(case["fields"]):
                f["key"] = ("m%d" if case["kind"] == "mutation" else "q%d") % (j + 1)
        ctx.stat("stream=random")
        if i < 4:
            ctx.sample({"document": W.document(case), "case": W.to_model(case)})
        chk.check(case, rng)
        i += 1
    ctx.extra["random_ops"] = i
    chk.flush()


def real_thread_smoke(ctx, n=12):
    """Smoke only: real ThreadPoolExecutor workers, all-deferred resolvers, hard timeout."""
    from py_gql import process_graphql_query
    from py_gql.execution import Executor
    from py_gql.execution.runtime import ThreadPoolRuntime
    import concurrent.futures
    rng = ctx.rng
    rt = ThreadPoolRuntime(max_workers=4)
    ran = 0
    try:
        for i in range(n):
            case = W.gen_case(rng, kind="query", depth=2, p_sync=0.0, p_nested=0.0)

            class RealWorld(W.World):
                def resolve(self, info, explicit):
                    path = tuple(info.path)
                    return self.body(path)
            ref = W.run_blocking(case)
            w = RealWorld(case)
            try:
                fut = process_graphql_query(W.build_schema(case), W.document(case), context=w, runtime=rt, executor_cls=Executor)
                res = fut.result(timeout=10)
            except concurrent.futures.TimeoutError:
                ctx.fail("c08:never-completes:threadpool-real-threads", "real thread pool run did not complete in 10 s",
                         {"case": case, "config": "threadpool-real", "schedule": None})
                break
            except Exception as err:  # noqa
                ctx.notes.append("real-thread smoke: unexpected %s" % type(err).__name__)
                continue
            ran += 1
            if ref["status"] == "ok" and (dumps(res.data) != dumps(ref["data"]) or W.canon_errors(res.errors) != ref["errors"]):
                ctx.fail("c08:data-differs:threadpool-real-threads", "real thread pool result differs from BlockingExecutor",
                         {"case": case, "config": "threadpool-real", "schedule": None})
    finally:
        rt._inner.shutdown(wait=False)
    ctx.extra["real_thread_smoke_runs"] = ran


def run(ctx):
    W.quiet()
    chk = Checker(ctx, "C08")
    try:
        run_streams(ctx, chk)
        real_thread_smoke(ctx, 12 if ctx.tier == "quick" else 60)
    finally:
        W.close_private_loop()
    ctx.extra["configurations"] = list(CONFIGS)
    ctx.extra["all_schedules_up_to_tasks"] = chk.max_tasks_all


def replay(ctx, data):
    W.quiet()
    inp = data.get("input", {})
    case = inp.get("case")
    if case is None:
        return True
    chk = Checker(ctx, "C08")
    try:
        fails = chk.failures_of(case, ctx.rng, cap=2000)
    finally:
        W.close_private_loop()
    for f in fails:
        print("  ", f)
    return not fails

# -*- coding: utf-8 -*-
"""
C08 — results do not depend on runtime, executor variant or completion order; execution always
completes; unexpected resolver exceptions surface.

Direct oracle on the REAL code: every generated operation is executed by
  * `BlockingExecutor` (reference), * the generic `Executor` on `BlockingRuntime`,
  * the generic `Executor` on `AsyncIORuntime` (private event loop; deferred resolvers return
    futures / coroutines the harness resolves in a chosen order),
  * the generic `Executor` on `ThreadPoolRuntime` with `_inner` replaced by a manual executor whose
    futures the harness completes in a chosen order,
under ALL schedules (<= 4 quick / <= 6 thorough deferred tasks; FIFO, LIFO and random ones beyond),
and data (ordered), the multiset of (path, kind) errors and completion are compared pairwise.
Correspondence: the same (operation, schedule) pairs are executed by the Lean model
(`PyGqlModel/Runtime.lean`, `AsyncExec.lean`; driver `drv_C08`) and compared including the
event trace, the queue sizes and the step at which the overall result completes.
"""
import json

from corr import C08_world as W

PROPERTY = "C08"
RULE = ("operations in the simplified form (tree of response-keyed fields, each resolver sync / deferred / "
        "deferred-returning-a-deferred / future already finished (or failed) when the executor receives it, top level written "
        "plainly, inside an inline fragment or as one fragment spread, outcome value | null | list | object | ResolverError | unexpected exception | "
        "unserialisable value, nullable / non-null / list typing): bounded-exhaustive over 1-2 top-level fields x 3 modes x "
        "19 outcome shapes, then seeded random trees; every operation runs under all four configurations and, for the two "
        "deferred runtimes, under ALL completion orders when it has <= 4 (quick) / <= 6 (thorough) tasks, else FIFO + LIFO + "
        "random orders; plus REAL ThreadPoolExecutor pools with 1 and 2 workers, resolvers still in flight when callbacks are attached, "
        "nested futures submitted from pool tasks, hard 4 s timeout = failing case. "
        "fields served either by explicit resolvers or by the library default resolver from METHODS of the root / parent objects "
        "(sync, `async def`, returning runtime.submit(...)); cross-runtime HISTORIES over user-defined awaitable / Future-subclass "
        "return values (each run compared with the same run on fresh classes, repeated by ctx.later); "
        "plus REAL schemas whose fields take arguments with awkward names (func, fn, args, kwargs, self, loop, ...) passed explicitly / by default. "
        "distinct non-trivial = distinct (operation, schedule) with >= 1 deferred task")
ASSUMPTIONS = [
    "a ResolverError raised while a value is completed, before any sub-resolver of that field ran, is the model's resolver-error event "
    "(`rerr`); completions raising AFTER sub-resolvers were started are compared by the direct oracle only and are known finding E1",
    "completions are atomic: a task's completion and all callbacks/continuations it triggers run before the next completion "
    "(manual executor; asyncio loop drained to quiescence between completions)",
    "resolver outcomes do not depend on time or on other resolvers (resolver world fixed per response path)",
    "an operation whose unexpected exception makes the overall result fail is compared on (failed, which exception class) only; "
    "the schedule is cut when the overall result completes",
]
TRUSTED = [
    "concurrent.futures.Future semantics (callbacks run synchronously at completion, exceptions in callbacks swallowed, "
    "set_result on a finished future raises InvalidStateError) and asyncio.gather/await ordering are modelled, not verified",
    "asyncio + an already finished awaitable: it is only looked at when the loop next runs, so call order and task numbering "
    "differ from the callback model; those cases are compared by the direct oracle only (data, errors, completion), not with the model trace",
    "NOT exhibited by the model or the controlled scheduler: true parallel interleaving of callback *bodies* on different "
    "worker threads (the non-atomic `done += 1` read-modify-write in gather_futures). The real 1-/2-worker pool stage exercises real threads (decisive for deadlocks, smoke for races).",
]

CONFIGS = ("blocking", "generic-blocking", "asyncio", "threadpool") + tuple(W.SUBCLASS_CONFIGS) + ("generic-blocking/SubBlocking",)


def dumps(x, **kw):
    """json.dumps that cannot raise on what a broken executor may put into `data` (e.g. a Future object)."""
    return json.dumps(x, default=lambda o: "<%s>" % type(o).__name__, **kw)


# ---------------------------------------------------------------------------

def unexpected_kinds(case):
    fs = W.features(case)
    ks = set()
    if "exc" in fs:
        ks.add("Boom")
    if "bad" in fs:
        ks.add("RuntimeError")
    return ks


def compare_to_reference(case, ref, obs, config):
    """None or (what, description). Asks exactly what C08 states."""
    if obs["status"] == "pending" and obs.get("stuck"):
        return ("never-completes", "the coroutine resolver of %r was invoked but never STARTED while an earlier sibling is pending: "
                "the schedule that completes it first cannot happen (siblings are not gathered concurrently)" % (obs["stuck"],))
    if obs["status"] in ("pending", "hang"):
        return ("never-completes", "overall result still pending after every resolver task completed"
                if obs["status"] == "pending" else "execution blocks (watchdog)")
    if obs["status"] not in ("ok", "failed"):
        return ("bad-result-type", obs["status"])
    if obs.get("raised_at_call"):
        return ("raised-at-call", "on a deferred runtime the unexpected exception (%s) is raised out of process_graphql_query itself: no Future / "
                "awaitable is returned whose failure the caller could observe" % obs.get("exc"))
    if ref["status"] == "failed":
        if obs["status"] != "failed":
            return ("unexpected-lost", "reference fails with an unexpected exception, %s returns a result" % config)
        if obs["exc"] not in unexpected_kinds(case):
            return ("wrong-exception", "%s fails with %s, not with a resolver's unexpected exception" % (config, obs["exc"]))
        return None
    if obs["status"] == "failed":
        return ("spurious-failure", "%s fails with %s, reference returns a result" % (config, obs["exc"]))
    if dumps(obs["data"]) != dumps(ref["data"]):
        return ("data-differs", "data differs from BlockingExecutor")
    if obs["errors"] != ref["errors"]:
        return ("errors-differ", "error multiset differs from BlockingExecutor")
    return None


def model_view(obs, with_sched=True):
    """What is compared with the Lean model."""
    v = {"status": obs["status"], "trace": [e for e in obs["trace"] if e[0] != "body"]}
    if with_sched:
        v["sizes"] = obs["sizes"]
        v["steps"] = obs["steps"]
    if obs["status"] == "ok":
        v["data"] = obs["data"]
        v["errors"] = obs["errors"]
    if obs["status"] == "failed":
        v["exc"] = obs["exc"]
    return v


def model_answer_view(ans, with_sched):
    v = {"status": ans.get("status"), "trace": ans.get("trace")}
    if with_sched:
        v["sizes"] = ans.get("sizes")
        v["steps"] = ans.get("steps")
    if v["status"] == "ok":
        v["data"] = ans.get("data")
        v["errors"] = sorted(ans.get("errors", []), key=lambda x: dumps(x))
    if v["status"] == "failed":
        v["exc"] = ans.get("exc")
    return v


class Checker:
    """Runs cases on the real code, collects model requests, reports failures."""

    def __init__(self, ctx, prop="C08", extra_oracle=None):
        self.ctx = ctx
        self.prop = prop
        self.pending = []      # (request, expected view, case, config, schedule)
        self.max_tasks_all = 4 if ctx.tier == "quick" else 6
        self.extra_oracle = extra_oracle
        self.sched_cap = 800

    # -- the four configurations on one case -------------------------------
    def observations(self, case, rng=None, cap=None, configs=("asyncio", "threadpool")):
        """yield (config, schedule, obs) for every configuration / schedule to try."""
        yield "blocking", None, W.run_blocking(case)
        yield "generic-blocking", None, W.run_blocking(case, generic=True)
        ntasks = W.count_tasks(case)
        if self.subclasses(case) and configs == ("asyncio", "threadpool"):
            yield "generic-blocking/SubBlocking", None, W.run_blocking(case, generic=True, subclass=True)
            configs = configs + W.SUBCLASS_CONFIGS
        for config in configs:
            runner = W.RUNNERS[config]
            if ntasks <= self.max_tasks_all:
                for sched, obs in W.enumerate_schedules(lambda s: runner(case, s), cap or self.sched_cap):
                    yield config, sched, obs
            else:
                scheds = [[], W.LIFO]
                if rng is not None:
                    scheds += [W.random_schedule(rng) for _ in range(4 if self.ctx.tier == "quick" else 12)]
                for s in scheds:
                    obs = runner(case, s)
                    yield config, obs["choices"], obs

    def failures_of(self, case, rng=None, cap=None, collect_model=False):
        """list of (what, config, schedule, description)."""
        out = []
        ref = None
        for config, sched, obs in self.observations(case, rng, cap):
            if config == "blocking":
                ref = obs
                if obs["status"] not in ("ok", "failed"):
                    out.append(("never-completes", config, None, "BlockingExecutor: " + obs["status"]))
                    return out
                if obs["status"] == "failed" and obs["exc"] not in unexpected_kinds(case):
                    out.append(("spurious-failure", config, None, "BlockingExecutor fails with %s" % obs["exc"]))
                    return out
            else:
                bad = compare_to_reference(case, ref, obs, config)
                if bad:
                    out.append((bad[0], config, sched, bad[1]))
                    if bad[0] == "never-completes":      # every further schedule would cost a watchdog period
                        return out
            if self.extra_oracle is not None:
                try:
                    bad = self.extra_oracle(case, config, sched, obs)
                except W.Watchdog:
                    raise
                except Exception as err:  # noqa  -- a result so malformed that the oracle cannot read it is a failing case
                    bad = ("malformed-result", "the result cannot be inspected: %s: %s" % (type(err).__name__, err))
                if bad:
                    out.append((bad[0], config, sched, bad[1]))
            if collect_model:
                self.collect(case, config, sched, obs)
        if not out and "exc" in W.features(case):
            out += self.class_sweep(case)
        return out

    def class_sweep(self, case):
        """every class of the unexpected exception at every position, one schedule per configuration"""
        out = []
        old = W.CLASS_SALT
        try:
            n = len(W.UNEXPECTED_CLASSES)
            start = sum(map(ord, dumps(case, sort_keys=True))) % n       # 8 consecutive classes per case, rotating over cases
            salts = [(start + i) % n for i in range(n if self.ctx.tier == "thorough" else 5)]
            # the classes that are not ordinary Exceptions always reach the first failing position
            first = next((p for p, (f, fo) in sorted(W.outcome_table(case).items(), key=lambda kv: str(kv[0])) if fo["r"] == "exc"), None)
            if first is not None:
                h = sum(map(ord, str(first)))
                for cls in (W.Fatal, StopIteration, StopAsyncIteration):
                    salt = (W.UNEXPECTED_CLASSES.index(cls) - h) % n
                    if salt not in salts:
                        salts.append(salt)
            for salt in salts:
                W.CLASS_SALT = salt
                ref = W.run_blocking(case)
                for config, obs in (("generic-blocking", W.run_blocking(case, generic=True)),
                                    ("asyncio", W.run_asyncio(case, [])), ("threadpool", W.run_threadpool(case, []))):
                    self.ctx.count()
                    bad = compare_to_reference(case, ref, obs, config)
                    if not bad and self.extra_oracle is not None:
                        try:
                            bad = self.extra_oracle(case, config, [], obs)
                        except Exception as err:  # noqa
                            bad = ("malformed-result", "%s: %s" % (type(err).__name__, err))
                    if bad:
                        cls = sorted({type(W.make_unexpected(p)).__name__ for p, (f, fo) in W.outcome_table(case).items() if fo["r"] == "exc"})
                        out.append((bad[0], config, obs.get("choices", []), "%s [unexpected exception classes: %s]" % (bad[1], ",".join(cls))))
                        self.failing_salt = salt          # shrinking / confirmation must use the same classes
                        return out
        finally:
            W.CLASS_SALT = old
        return out

    def collect(self, case, config, sched, obs):
        ctx = self.ctx
        ctx.count()
        ctx.stat("config=" + config)
        ctx.stat("status=" + obs["status"])
        if sched is not None:
            ctx.stat("tasks=%d" % len(obs["sizes"]))
            if obs["sizes"]:
                ctx.nontrivial((dumps(W.to_model(case), sort_keys=True), tuple(obs["choices"])))
        if not ctx.model_ok:
            return
        if W.to_model(case).get("nomodel"):
            ctx.stat("model-comparison-skipped(completion raises after sub-resolvers)")
            return
        if obs.get("nomodel"):
            # an `async def` method starts its body only when the loop schedules it: call order differs from the callback model
            ctx.stat("model-comparison-skipped(async-def method)")
            return
        if config.startswith("asyncio") and "ready" in W.features(case):
            # an already finished awaitable is only looked at when the loop next runs: the call order (and with it the
            # queue the schedule indexes) legitimately differs from the callback model; the direct oracle still applies
            ctx.stat("model-comparison-skipped(asyncio+ready)")
            return
        if sched is None:
            req = {"op": "blocking", "case": W.to_model(case)}
        else:
            req = {"op": "async", "case": W.to_model(case), "schedule": obs["choices"]}
        self.pending.append((req, model_view(obs, sched is not None), case, config, sched))
        if sched is not None and case["kind"] == "mutation":
            # today's LOOP form of execute_fields_serially (AsyncExecLoop.lean) must predict the same run as the recursive form
            self.ctx.stat("model-loop-form-compared")
            self.pending.append((dict(req, op="async-loop"), model_view(obs, True), case, config + "/loop-form", sched))
        if len(self.pending) >= 4000:
            self.flush()

    def flush(self):
        ctx = self.ctx
        if not self.pending or not ctx.model_ok:
            self.pending = []
            return
        answers = ctx.driver.ask([p[0] for p in self.pending])
        for (req, expect, case, config, sched), ans in zip(self.pending, answers):
            got = model_answer_view(ans, sched is not None)
            if dumps(got, sort_keys=False) != dumps(expect, sort_keys=False):
                diff = [k for k in expect if dumps(expect.get(k)) != dumps(got.get(k))] or ["keys"]
                ncorr = len([f for f in ctx.found if f["kind"] == "correspondence"])
                if ncorr >= 2:      # enough shrunk examples: only count further disagreements
                    ctx.fail("corr:%s:%s:%s:further" % (self.prop, config, diff[0]),
                             "Lean model and %s differ on %s" % (config, ",".join(diff)),
                             {"case": case, "config": config, "differs": diff, "schedule": sched}, kind="correspondence")
                    continue
                small = self.shrink_corr(case, config, sched, diff[0])
                ctx.fail("corr:%s:%s:%s:%s" % (self.prop, config, diff[0], "+".join(sorted(W.features(small)))),
                         "Lean model and %s differ on %s" % (config, ",".join(diff)),
                         {"case": small, "config": config, "differs": diff,
                          "original": {"case": case, "schedule": sched, "impl": expect, "model": got}},
                         kind="correspondence")
        self.pending = []

    def shrink_corr(self, case, config, sched, key):
        ctx = self.ctx

        def still(c):
            for cfg, s, obs in self.observations(c, cap=40, configs=(config,) if config in W.RUNNERS else ()):
                if cfg != config:
                    continue
                req = ({"op": "blocking", "case": W.to_model(c)} if s is None
                       else {"op": "async", "case": W.to_model(c), "schedule": obs["choices"]})
                got = model_answer_view(ctx.driver.ask([req])[0], s is not None)
                if dumps(got.get(key)) != dumps(model_view(obs, s is not None).get(key)):
                    return True
            return False
        try:
            return W.shrink(case, still, budget=40, seconds=5.0)
        except Exception:
            return case

    # -- one case, fully ----------------------------------------------------
    def subclasses(self, case):
        """user-runtime (subclass) configurations: every mutation in C09, every third operation in C08"""
        if self.prop == "C09":
            return case["kind"] == "mutation"
        return sum(map(ord, dumps(case, sort_keys=True))) % 3 == 0

    def enough(self):
        """stop generating once a few distinct NEW failures are in hand (keeps a broken tree's run short)"""
        import common
        if not hasattr(self, "_known"):
            self._known = common.load_known()
        new = [f for f in self.ctx.found if f["kind"] == "property"
               and not common.match_known(self.prop, f["signature"], self._known)]
        # a run that blocks costs a watchdog period per attempt (shrinking: up to 20, confirmation: 25 s): two
        # confirmed "never completes" reports end the generation
        return len(new) >= 3 or getattr(self, "hangs_reported", 0) >= 2

    def check(self, case, rng=None):
        self.failing_salt = None
        old_salt = W.CLASS_SALT
        try:
            return self._check(case, rng)
        finally:
            W.CLASS_SALT = old_salt

    def _check(self, case, rng=None):
        ctx = self.ctx
        if self.enough():
            return True
        for f in W.features(case):
            ctx.stat("feature=" + f)
        fails = self.failures_of(case, rng, collect_model=True)
        if not fails:
            return True
        if self.failing_salt is not None:
            W.CLASS_SALT = self.failing_salt
        what, config = fails[0][0], fails[0][1]
        ORPH = "completion-raises-after-sub-resolvers"
        if ORPH in W.features(case):
            # known class (finding E1): one stable signature, shrunk only the first time it is seen
            sig = "%s:%s:%s:%s" % (self.prop.lower(), what, config, ORPH)
            if any(f["signature"] == sig for f in ctx.found):
                ctx.fail(sig, "", {})
                return False

        def still(c):
            return any(f[0] == what and f[1] == config for f in self.failures_of(c, cap=24))
        small = W.shrink(case, still, budget=20 if what == "never-completes" else 120)
        sf = [f for f in self.failures_of(small, cap=100) if f[0] == what and f[1] == config] or fails
        if what == "never-completes" or "Watchdog" in str(sf[0][3]):
            # the watchdog is wall-clock: under machine load it can fire on a healthy run. Report only what a
            # run with a long timeout confirms.
            if not W.confirm_hang(small, config, sf[0][2]):
                if small is case or not W.confirm_hang(case, config, fails[0][2]):
                    ctx.notes.append("watchdog fired but the confirmation run completed (machine load): not a failure")
                    ctx.stat("watchdog-unconfirmed")
                    return True
                small, sf = case, fails
        if what == "never-completes":
            self.hangs_reported = getattr(self, "hangs_reported", 0) + 1
        sig = "%s:%s:%s:%s" % (self.prop.lower(), what, config, "+".join(sorted(W.features(small))))
        if ORPH in W.features(small):
            sig = "%s:%s:%s:%s" % (self.prop.lower(), what, config, ORPH)
        ctx.fail(sig, "%s (%s)" % (sf[0][3], config),
                 {"case": small, "config": config, "schedule": sf[0][2], "what": what, "document": W.document(small)})
        return False


# ---------------------------------------------------------------------------
# case streams

I = {"t": "int"}


def small_outcomes():
    """(ty, rv-or-fo) shapes for the bounded-exhaustive stream."""
    sub = lambda m1, m2: {"t": "obj", "fields": [{"key": "a", "mode": m1, "ty": I}, {"key": "b", "mode": m2, "ty": {"t": "nn", "of": I}}]}  # noqa
    outs = [
        ("leaf", I, {"r": "ok", "v": 3}),
        ("null", I, {"r": "ok", "v": None}),
        ("nn-null", {"t": "nn", "of": I}, {"r": "ok", "v": None}),
        ("rerr", I, {"r": "rerr"}),
        ("exc", I, {"r": "exc"}),
        ("bad", I, {"r": "ok", "v": "bad"}),
        ("obj-dd", sub("deferred", "deferred"), {"r": "ok", "v": {"a": {"r": "ok", "v": 1}, "b": {"r": "ok", "v": None}}}),
        ("obj-sd", sub("sync", "nested"), {"r": "ok", "v": {"a": {"r": "rerr"}, "b": {"r": "ok", "v": 2}}}),
        ("tonull", {"t": "int", "scalar": "trim"}, {"r": "ok", "v": "tonull"}),
        ("nn-tonull", {"t": "nn", "of": {"t": "int", "scalar": "trim"}}, {"r": "ok", "v": "tonull"}),
        ("list-nn-tonull", {"t": "list", "of": {"t": "nn", "of": {"t": "int", "scalar": "trim"}}}, {"r": "ok", "v": [1, "tonull", 2]}),
        ("cerr", {"t": "int", "scalar": "trim"}, {"r": "ok", "v": "cerr"}),
        ("nn-cerr", {"t": "nn", "of": {"t": "int", "scalar": "trim"}}, {"r": "ok", "v": "cerr"}),
        ("list-cerr-item", {"t": "list", "of": {"t": "int", "scalar": "trim"}}, {"r": "ok", "v": [1, "cerr", 2]}),
        ("lazy-fails", {"t": "list", "of": I}, {"r": "ok", "v": {"lazy": [1, 2], "fail": True}}),
        ("abstract-cerr", dict(sub("deferred", "sync"), abstract=True), {"r": "ok", "v": "cerr"}),
        ("abstract-ok", dict(sub("deferred", "sync"), abstract=True), {"r": "ok", "v": {"a": {"r": "ok", "v": 1}, "b": {"r": "ok", "v": 2}}}),
        ("obj-exc", sub("sync", "sync"), {"r": "ok", "v": {"a": {"r": "exc"}, "b": {"r": "ok", "v": 2}}}),
        ("list-obj", {"t": "list", "of": {"t": "obj", "fields": [{"key": "a", "mode": "deferred", "ty": I}]}},
         {"r": "ok", "v": [{"a": {"r": "ok", "v": 1}}, None, {"a": {"r": "rerr"}}]}),
    ]
    return outs


def exhaustive_cases(n_top):
    import itertools
    outs = small_outcomes()
    per_field = [(m, o) for m in W.MODES for o in outs]
    for kind in ("query", "mutation"):
        for combo in itertools.product(per_field, repeat=n_top):
            fields = []
            for i, (m, (_, ty, fo)) in enumerate(combo):
                fields.append({"key": ("m%d" if kind == "mutation" else "q%d") % (i + 1), "mode": m, "ty": ty, "out": fo})
            yield {"kind": kind, "fields": fields}


def random_case(rng, i):
    r = i % 6
    if r == 0:
        return W.gen_case(rng, depth=2, p_exc=0.08)
    if r == 1:
        return W.gen_case(rng, depth=2, p_bad=0.08, p_exc=0.04)
    if r == 2:
        return W.gen_case(rng, depth=3, p_sync=0.6, max_sub=2)
    if r == 3:
        return W.gen_case(rng, depth=2, p_sync=0.1, p_nested=0.3, n_top=rng.randint(1, 3), max_sub=2)
    return W.gen_case(rng, depth=rng.randint(1, 3))


def corpus_cases(prop):
    from common import CORPUS
    d = CORPUS / prop
    out = []
    if d.exists():
        for p in sorted(d.glob("*.json")):
            out.append(json.loads(p.read_text()))
    return out


def run_streams(ctx, chk, budget_frac=0.8, kinds=None):
    rng = ctx.rng
    t_budget = (ctx.deadline - ctx.t0) * budget_frac
    import time
    t_end = ctx.t0 + min(t_budget, 28 if ctx.tier == "quick" else 240)
    # corpus
    for c in corpus_cases(chk.prop):
        case = c.get("case", c)
        if kinds and case["kind"] not in kinds:
            continue
        ctx.stat("stream=corpus")
        chk.check(case, rng)
    # bounded exhaustive
    ex1 = [c for c in exhaustive_cases(1) if not kinds or c["kind"] in kinds]
    ex2 = [c for c in exhaustive_cases(2) if not kinds or c["kind"] in kinds]
    if ctx.tier == "quick":
        ex2 = rng.sample(ex2, min(len(ex2), 220))
    ctx.extra["exhaustive_small_ops"] = len(ex1) + len(ex2)
    for case in ex1 + ex2:
        if time.time() > t_end:
            ctx.notes.append("exhaustive stream cut by the time budget")
            break
        ctx.stat("stream=exhaustive")
        if rng.random() < 0.3:
            case = dict(case, serve="methods")
            ctx.stat("serve=methods")
        chk.check(case, rng)
    # random
    i = 0
    n = ctx.n(260, 2600)
    while i < n and time.time() < t_end:
        case = random_case(rng, i)
        if kinds:
            case = dict(case, kind=rng.choice(kinds))
            for j, f in enumerate(case["fields"]):
                f["key"] = ("m%d" if case["kind"] == "mutation" else "q%d") % (j + 1)
        ctx.stat("stream=random")
        if i < 4:
            ctx.sample({"document": W.document(case), "case": W.to_model(case)})
        chk.check(case, rng)
        i += 1
    ctx.extra["random_ops"] = i
    chk.flush()


def _chain_case(kind, depth, mode="deferred"):
    """{ a { b { c } } } of the given depth, every resolver pool-submitted."""
    names = "abcdef"
    ty = {"t": "int"}
    rv = depth
    for d in range(depth - 1, 0, -1):
        ty = {"t": "obj", "fields": [{"key": names[d], "mode": mode, "ty": ty}]}
        rv = {names[d]: {"r": "ok", "v": rv}}
    return {"kind": kind, "fields": [{"key": names[0], "mode": mode, "ty": ty, "out": {"r": "ok", "v": rv}}]}


def real_pool_cases(rng, n_random):
    I = {"t": "int"}
    cases = [_chain_case("query", 2), _chain_case("query", 3), _chain_case("query", 3, "nested"), _chain_case("mutation", 2)]
    cases.append({"kind": "mutation", "fields": [{"key": k, "mode": "deferred", "ty": I, "out": {"r": "ok", "v": i}}
                                                 for i, k in enumerate(("one", "two", "three"))]})
    for pos in range(3):      # a nested future whose INNER future fails, at each position
        fs = [{"key": k, "mode": "nested", "ty": I, "out": ({"r": "rerr"} if i == pos else {"r": "ok", "v": i})}
              for i, k in enumerate(("one", "two", "three"))]
        cases.append({"kind": "mutation", "fields": fs})
    for style in ("inline", "spread"):
        c = dict(cases[4], style=style)
        cases.append(c)
    for _ in range(n_random):
        cases.append(W.gen_case(rng, depth=2, p_sync=0.2, p_ready=0.0, p_nested=0.3, max_sub=2, p_methods=0.0))
    return cases


def real_pool_stage(ctx, prop, extra_oracle=None, n_random=4, kinds=None):
    """
    REAL ThreadPoolExecutor workers (max_workers = 1 and 2), resolvers still in flight when the executor
    attaches its callbacks (short sleeps), nested futures submitted from inside pool tasks. A run that does
    not complete within the hard timeout is a failing case (a worker blocked inside a callback).
    Interleavings are whatever the OS picks: smoke for races, but decisive for deadlocks.
    """
    import concurrent.futures
    import threading
    import time
    from py_gql import process_graphql_query
    from py_gql.execution import Executor
    from py_gql.execution.runtime import ThreadPoolRuntime
    lock = threading.Lock()

    class RealWorld(W.World):
        def ev(self, kind, path):
            with lock:
                self.trace.append([kind, list(path)])

        def resolve(self, info, explicit):
            path = tuple(info.path)
            f, fo = self.table[path]
            self.ev("call", path)
            if not explicit:
                return self.body(path)
            time.sleep(0.004)
            if f["mode"] == "nested":
                def inner():
                    time.sleep(0.004)
                    return self.body(path)
                return info.runtime.submit(inner)
            return self.body(path)

    def attempt(case, workers, timeout):
        """
        one run on a fresh real pool, bounded by the SIGALRM watchdog: with a callback that blocks on an already
        completed future `process_graphql_query` ITSELF never returns (the callback runs on the caller's thread), so the
        call is inside the watchdog, not only the wait for its result.  -> (status, result-or-exception, world)
        """
        rt = ThreadPoolRuntime(max_workers=workers)
        w = RealWorld(case)
        try:
            schema, doc = W.prepared(case)
            with W.watchdog(timeout + 0.5):
                fut = process_graphql_query(schema, doc, context=w, runtime=rt, executor_cls=Executor, validators=[])
                return "ok", fut.result(timeout=timeout), w
        except (concurrent.futures.TimeoutError, W.Watchdog):
            return "hang", None, w
        except KeyboardInterrupt:
            raise
        except BaseException as err:  # noqa
            return "failed", err, w
        finally:
            try:
                rt._inner.shutdown(wait=False, cancel_futures=True)
            except TypeError:
                rt._inner.shutdown(wait=False)

    ran = 0
    hangs = 0
    for case in real_pool_cases(ctx.rng, n_random):
        if kinds and case["kind"] not in kinds:
            continue
        ref = W.run_blocking(case)
        for workers in (1, 2):
            if ctx.out_of_time() or hangs >= 1:       # every confirmed hang costs ~30 s of wall clock: one is enough
                break
            cfg = "threadpool-real-w%d" % workers
            detail = {"case": case, "config": cfg, "schedule": None, "document": W.document(case)}
            feats = "+".join(sorted(W.features(case)))
            if "completion-raises-after-sub-resolvers" in W.features(case):
                feats = "completion-raises-after-sub-resolvers"      # the known class keeps one stable signature
            status, res, w = attempt(case, workers, 4)
            if status == "hang":
                # wall-clock timeout: confirm with a fresh pool and a long timeout before reporting (machine load)
                status2, _, _ = attempt(case, workers, 12 if hangs else 25)
                if status2 != "hang":
                    ctx.stat("watchdog-unconfirmed")
                    ctx.notes.append("real pool: 4 s timeout not confirmed by the long run (machine load)")
                    continue
                hangs += 1
                ctx.fail("%s:never-completes:%s:%s" % (prop.lower(), cfg, feats),
                         "real pool with %d worker(s): no result within 4 s (a worker is blocked / the result future is never set)" % workers,
                         detail)
                continue
            obs = W.obs_of_result(w, result=res, status="ok") if status == "ok" else W.obs_of_result(w, exc=res, status="failed")
            ran += 1
            ctx.count()
            ctx.stat("config=" + cfg)
            bad = compare_to_reference(case, ref, obs, cfg)
            if not bad and extra_oracle is not None:
                bad = extra_oracle(case, cfg, None, obs)
            if bad:
                ctx.fail("%s:%s:%s:%s" % (prop.lower(), bad[0], cfg, feats), "%s (%s)" % (bad[1], cfg), detail)
    W.release_stuck_workers(ctx)
    ctx.extra["real_pool_runs"] = ran


ARG_NAMES = ("func", "fn", "args", "kwargs", "self", "timeout", "loop", "future", "callback", "runtime", "info", "root",
             "ctx", "value", "executor", "context", "then", "else_", "x")


def _args_resolver(root, ctx, info, **kw):
    return 100 + sum(v for v in kw.values() if isinstance(v, int))


def args_cases(rng, n_random):
    """(sdl, query) pairs: REAL schemas whose fields take arguments with awkward names, passed explicitly / by default."""
    out = []
    for name in ARG_NAMES:
        sdl = ("type Query { f(%s: Int = 7, plain: Int): Int o: O } type O { g(%s: Int = 2, %s2: Int): Int } "
               "type Mutation { m(%s: Int = 1): Int n(%s: Int): Int }" % (name, name, name, name, name))
        out.append((sdl, "{ f(%s: 1) o { g } }" % name))
        out.append((sdl, "{ f o { g(%s: 5, %s2: 1) } }" % (name, name)))
        out.append((sdl, "mutation { m n(%s: 3) m2: m(%s: 4) }" % (name, name)))
    for _ in range(n_random):
        names = rng.sample(ARG_NAMES, rng.randint(2, 4))
        decl = ", ".join("%s: Int%s" % (n, " = %d" % rng.randint(0, 9) if rng.random() < 0.5 else "") for n in names)
        sdl = "type Query { f(%s): Int o: O } type O { g(%s): Int } type Mutation { m(%s): Int }" % (decl, decl, decl)
        use = ", ".join("%s: %d" % (n, rng.randint(0, 9)) for n in names if rng.random() < 0.6)
        call = "(%s)" % use if use else ""
        out.append((sdl, "{ f%s o { g%s } }" % (call, call)))
        out.append((sdl, "mutation { m%s b: m%s }" % (call, call)))
    return out


def args_stream(ctx, n_random):
    """
    Field ARGUMENTS (not part of the simplified operation form / the Lean model): the four configurations must agree on
    (status, data, errors, exception class) for resolvers `def r(root, ctx, info, **kw)` whatever the arguments are called.
    """
    import asyncio
    from concurrent.futures import Future
    from py_gql import build_schema, process_graphql_query
    from py_gql.execution import BlockingExecutor, Executor
    from py_gql.execution.runtime import AsyncIORuntime, BlockingRuntime, ThreadPoolRuntime

    class ArgWorld:
        def __init__(self):
            self.queue, self.table, self.trace = [], {}, []

        def ev(self, *a):
            pass

    def canon(status, res=None, exc=None):
        if status == "ok":
            return ["ok", dumps(res.data), W.canon_errors(res.errors)]
        return [status, type(exc).__name__ if exc is not None else None]

    def run_cfg(cfg, schema, query, lifo):
        # every configuration here is single-threaded (manual executor / private loop, no worker threads): a blocking wait of
        # the code under test is detected deterministically, also when the code swallowed the detector's exception
        wd = W.watchdog(single_threaded=True)
        got = _run_cfg(cfg, schema, query, lifo, wd)
        return ["hang"] if wd.blocked else got

    def _run_cfg(cfg, schema, query, lifo, wd):
        try:
            with wd:
                if cfg == "blocking":
                    return canon("ok", process_graphql_query(schema, query, runtime=BlockingRuntime(), executor_cls=BlockingExecutor))
                if cfg == "generic-blocking":
                    return canon("ok", process_graphql_query(schema, query, runtime=BlockingRuntime(), executor_cls=Executor))
                if cfg == "threadpool":
                    w = ArgWorld()
                    rt = ThreadPoolRuntime(max_workers=1)
                    rt._inner.shutdown(wait=False)
                    rt._inner = W.ManualExecutor(w)
                    fut = process_graphql_query(schema, query, runtime=rt, executor_cls=Executor)
                    if not isinstance(fut, Future):
                        return ["not-a-future"]
                    while not fut.done() and w.queue:
                        e = w.queue.pop(-1 if lifo else 0)
                        try:
                            r = e.fn(*e.args, **e.kwargs)
                        except W.Watchdog:
                            raise
                        except BaseException as err:  # noqa
                            e.fut.set_exception(err)
                        else:
                            e.fut.set_result(r)
                    if not fut.done():
                        return ["pending"]
                    if fut.exception() is not None:
                        return canon("failed", exc=fut.exception())
                    return canon("ok", fut.result())
                loop = W.private_loop()
                rt = AsyncIORuntime(loop=loop, execute_blocking_functions_in_thread=False)
                aw = process_graphql_query(schema, query, runtime=rt, executor_cls=Executor)
                task = asyncio.ensure_future(aw, loop=loop)
                W.drain(loop)
                if not task.done():
                    task.cancel()
                    W.drain(loop)
                    return ["pending"]
                if task.exception() is not None:
                    return canon("failed", exc=task.exception())
                return canon("ok", task.result())
        except W.Watchdog:
            return ["hang"]
        except Exception as err:  # noqa
            return canon("failed", exc=err)

    n = 0
    hangs = 0
    for sdl, query in args_cases(ctx.rng, n_random):
        if ctx.out_of_time() or hangs >= 2:          # a tree that blocks: two reports are enough
            break
        try:
            schema = build_schema(sdl)
            for tname, fields in (("Query", ("f",)), ("O", ("g",)), ("Mutation", ("m", "n"))):
                for fname in fields:
                    if fname in schema.types[tname].field_map:
                        schema.register_resolver(tname, fname, _args_resolver)
            schema.register_resolver("Query", "o", lambda *a, **k: {})
        except Exception as err:  # noqa
            ctx.notes.append("args stream: schema not built (%s)" % type(err).__name__)
            continue
        ref = run_cfg("blocking", schema, query, False)
        ctx.stat("args-stream:" + ref[0])
        for cfg, lifo in (("generic-blocking", False), ("asyncio", False), ("threadpool", False), ("threadpool", True)):
            got = run_cfg(cfg, schema, query, lifo)
            ctx.count()
            n += 1
            if got != ref:
                if got[0] == "hang":       # wall-clock watchdog: confirm with the long timeout before reporting
                    old = W.WATCHDOG_S
                    W.WATCHDOG_S = W.CONFIRM_S
                    try:
                        got = run_cfg(cfg, schema, query, lifo)
                    finally:
                        W.WATCHDOG_S = old
                    if got == ref:
                        ctx.stat("watchdog-unconfirmed")
                        continue
                import re
                hangs += got[0] == "hang"
                argn = sorted(set(re.findall(r"(\w+):", query)))
                ctx.fail("c08:args:%s:%s-vs-%s:%s" % (cfg, ref[0], got[0], "+".join(a for a in argn if a in ARG_NAMES)[:60]),
                         "field arguments: %s gives %s, BlockingExecutor gives %s" % (cfg, got, ref),
                         {"sdl": sdl, "query": query, "config": cfg, "blocking": ref, "got": got, "stream": "args"})
    ctx.extra["args_stream_runs"] = n


# ---------------------------------------------------------------------------
# runtime API used from INSIDE resolvers (outside the Lean model: direct oracle only)

def _plain_value(x):
    return x * 2


def _plain_fail(x):
    raise W._resolver_error_cls()("inner failure %r" % (x,))


def _plain_kw(x, key=1, *, only=0, **more):
    if key < 0:
        raise W._resolver_error_cls()("negative key %r" % (key,))
    return x * key + only + sum(more.values())


def _r_submit(root, ctx, info, **kw):
    return info.runtime.submit(_plain_value, 21)


def _r_submit_kw(root, ctx, info, **kw):
    # positional + keyword + keyword-only + extra keyword arguments: 3*7 + 100 + 1000
    return info.runtime.submit(_plain_kw, 3, key=7, only=100, extra=1000)


def _r_submit_kw_fail(root, ctx, info, **kw):
    return info.runtime.submit(_plain_kw, 3, key=-1)       # the keyword argument decides: ResolverError


def _r_wrap_callable_kw(root, ctx, info, **kw):
    return info.runtime.wrap_callable(_plain_kw)(2, key=5, only=1)


def _r_stop(root, ctx, info, **kw):
    return next(x for x in () if x)          # the classic lookup bug: StopIteration out of a plain resolver


def _r_stop_submit(root, ctx, info, **kw):
    return info.runtime.submit(next, iter(()))


def _r_fatal(root, ctx, info, **kw):
    import time
    time.sleep(0.02)          # still running when the executor attaches its callbacks (on a pool)
    raise W.Fatal("not an Exception")


def _r_submit_all_kw(root, ctx, info, **kw):
    return info.runtime.submit(_plain_kw, x=4, key=2)


def _r_submit_fail(root, ctx, info, **kw):
    return info.runtime.submit(_plain_fail, 1)


def _r_wrapped(root, ctx, info, **kw):
    return info.runtime.ensure_wrapped(5)


def _r_wrap_callable(root, ctx, info, **kw):
    return info.runtime.wrap_callable(_plain_value)(4)


def _r_gather(root, ctx, info, **kw):
    rt = info.runtime
    return rt.map_value(rt.gather_values([rt.submit(_plain_value, 1), 7, rt.ensure_wrapped(3)]), sum)


def _r_obj(root, ctx, info, **kw):
    return {}


def _r_plain(root, ctx, info, **kw):
    return 1


RUNTIME_API_SDL = ("type Query { s: Int f: Int w: Int c: Int g: Int p: Int k: Int e: Int d: Int a: Int t: Int u: Int x: Int o: O } "
                   "type O { s: Int f: Int w: Int c: Int g: Int p: Int k: Int e: Int d: Int a: Int t: Int u: Int x: Int } "
                   "type Mutation { s: Int f: Int w: Int c: Int g: Int p: Int k: Int e: Int d: Int a: Int t: Int u: Int x: Int }")
RUNTIME_API_QUERIES = (
    "{ s }", "{ f }", "{ w }", "{ c }", "{ g }", "{ p s f w c g }", "{ o { s f w c g p } p }", "{ o { f } s o2: o { s w } }",
    "mutation { s f w }", "mutation { f p c g s }", "mutation { ...T } fragment T on Mutation { w f s }",
    "{ k }", "{ e }", "{ d }", "{ a }", "{ k e d a }", "{ o { k e d a } s }", "mutation { k e d a }",
    "{ t }", "{ o { t } p }", "{ u }", "{ x }", "mutation { p x }",
)


def runtime_api_stream(ctx):
    """
    Plain (non-coroutine) resolvers that call `info.runtime.submit / ensure_wrapped / wrap_callable / gather_values /
    map_value` themselves. Configurations: BlockingExecutor (reference); generic Executor on BlockingRuntime;
    `py_gql.graphql()` itself, i.e. a DEFAULT-constructed `AsyncIORuntime()` whose plain resolvers run on the loop's
    worker threads; `AsyncIORuntime(execute_blocking_functions_in_thread=False)`; a real 2-worker `ThreadPoolRuntime`.
    All on a private event loop; hard timeouts (confirmed by a long re-run before anything is reported).
    """
    import asyncio
    import concurrent.futures
    import py_gql
    from py_gql import build_schema, process_graphql_query
    from py_gql.execution import BlockingExecutor, Executor
    from py_gql.execution.runtime import AsyncIORuntime, BlockingRuntime, ThreadPoolRuntime

    schema = build_schema(RUNTIME_API_SDL)
    table = {"s": _r_submit, "f": _r_submit_fail, "w": _r_wrapped, "c": _r_wrap_callable, "g": _r_gather, "p": _r_plain,
             "k": _r_submit_kw, "e": _r_submit_kw_fail, "d": _r_wrap_callable_kw, "a": _r_submit_all_kw,
             "t": _r_stop, "u": _r_stop_submit, "x": _r_fatal}
    for tname in ("Query", "O", "Mutation"):
        for fname, fn in table.items():
            schema.register_resolver(tname, fname, fn)
    schema.register_resolver("Query", "o", _r_obj)

    def canon(res):
        return ["ok", dumps(res.data), W.canon_errors(res.errors)]

    def failed(err):
        if isinstance(err, RuntimeError) and isinstance(err.__cause__, StopIteration):
            return ["failed", "StopIteration"]          # PEP 479: the same exception after crossing a coroutine
        return ["failed", type(err).__name__]

    def on_loop(make_coro, timeout):
        loop = W.private_loop()
        try:
            return canon(loop.run_until_complete(asyncio.wait_for(make_coro(), timeout)))
        except asyncio.TimeoutError:
            return ["timeout"]
        except BaseException as err:  # noqa
            if isinstance(err, (W.Watchdog, KeyboardInterrupt)):
                raise
            return failed(err)

    def run_cfg(cfg, query, timeout):
        try:
            if cfg == "blocking":
                return canon(process_graphql_query(schema, query, runtime=BlockingRuntime(), executor_cls=BlockingExecutor))
            if cfg == "generic-blocking":
                return canon(process_graphql_query(schema, query, runtime=BlockingRuntime(), executor_cls=Executor))
            if cfg == "asyncio-graphql()":
                return on_loop(lambda: py_gql.graphql(schema, query), timeout)
            if cfg == "asyncio-inline":
                async def main():
                    return await process_graphql_query(
                        schema, query, runtime=AsyncIORuntime(execute_blocking_functions_in_thread=False), executor_cls=Executor)
                return on_loop(main, timeout)
            rt = ThreadPoolRuntime(max_workers=2)
            try:
                with W.watchdog(timeout + 0.5):      # the call itself may block (a callback that waits, run on the caller's thread)
                    fut = process_graphql_query(schema, query, runtime=rt, executor_cls=Executor)
                    return canon(fut.result(timeout=timeout))
            except (concurrent.futures.TimeoutError, W.Watchdog):
                return ["timeout"]
            finally:
                try:
                    rt._inner.shutdown(wait=False, cancel_futures=True)
                except TypeError:
                    rt._inner.shutdown(wait=False)
        except BaseException as err:  # noqa
            if isinstance(err, (W.Watchdog, KeyboardInterrupt)):
                raise
            return failed(err)

    n = 0
    for query in RUNTIME_API_QUERIES:
        if ctx.out_of_time():
            break
        ref = run_cfg("blocking", query, 5)
        ctx.stat("runtime-api:" + ref[0])
        for cfg in ("generic-blocking", "asyncio-graphql()", "asyncio-inline", "threadpool-real-w2"):
            got = run_cfg(cfg, query, 4)
            if got == ["timeout"]:
                got = run_cfg(cfg, query, 12)          # wall-clock: confirm before reporting
                if got != ["timeout"]:
                    ctx.stat("watchdog-unconfirmed")
            ctx.count()
            n += 1
            if got != ref:
                ctx.fail("c08:runtime-api:%s:%s-vs-%s:%s" % (cfg, ref[0], got[0], "+".join(sorted(set(c for c in query if c in "sfwcgpokedatux")))),
                         "runtime API used inside plain resolvers: %s gives %s, BlockingExecutor gives %s" % (cfg, got, ref),
                         {"query": query, "config": cfg, "blocking": ref, "got": got, "stream": "runtime-api"})
    ctx.extra["runtime_api_runs"] = n


# ---------------------------------------------------------------------------
# cross-runtime HISTORIES in one process (outside the Lean model: direct oracle + ctx.later)

HISTORY_SDL = "type Query { dummy: Int } type Mutation { m1: O m2: O m3: Int } type O { x: Int }"


def _history_classes():
    """fresh user-defined classes (type-keyed caches of the runtimes see them for the first time)"""
    import asyncio
    from concurrent.futures import Future

    class Plain:
        def __init__(self, x):
            self.x = x

    class Box:
        """awaitable but NOT a concurrent Future: deferred under asyncio, a plain object under the thread pool"""

        def __init__(self, log, name, x, fail=False):
            self.log, self.name, self.x, self.fail = log, name, x, fail

        def __await__(self):
            self.log.append("await-start " + self.name)
            yield from asyncio.sleep(0).__await__()
            self.log.append("await-end " + self.name)
            if self.fail:
                raise W._resolver_error_cls()("write %s failed" % self.name)
            return Plain(self.x)

    class Fut(Future):
        """a Future subclass: deferred under the thread pool, a plain (attribute-bearing) object under asyncio"""
        x = 77

    return Plain, Box, Fut


def history_stream(ctx, prop):
    """
    Sequences of executions in ONE process that alternate runtimes over resolver return values of user-defined classes on
    which the runtimes' deferred-value predicates disagree. Each (configuration, class kind) outcome must equal the
    outcome of the same run in isolation = with classes no runtime has seen yet; `ctx.later` repeats the calls at the end.
    """
    import asyncio
    from concurrent.futures import Future
    from py_gql import build_schema, process_graphql_query
    from py_gql.execution import Executor
    from py_gql.execution.runtime import AsyncIORuntime, ThreadPoolRuntime

    def make_schema(classes, kind, log):
        Plain, Box, Fut = classes
        schema = build_schema(HISTORY_SDL)

        def value(name, x, fail=False):
            if kind == "box":
                return Box(log, name, x, fail)
            f = Fut()
            if fail:
                f.set_exception(W._resolver_error_cls()("write %s failed" % name))
            else:
                f.set_result(Plain(x))
            return f

        def m1(root, ctx_, info, **kw):
            log.append("call m1")
            return value("m1", 1)

        def m2(root, ctx_, info, **kw):
            log.append("call m2")
            return value("m2", 2, fail=True)

        def m3(root, ctx_, info, **kw):
            log.append("call m3")
            return 3

        async def am1(root, ctx_, info, **kw):
            return m1(root, ctx_, info)

        async def am2(root, ctx_, info, **kw):
            return m2(root, ctx_, info)

        async def am3(root, ctx_, info, **kw):
            return m3(root, ctx_, info)
        return schema, (m1, m2, m3), (am1, am2, am3)

    def run_cfg(cfg, classes, kind):
        log = []
        schema, plain, coros = make_schema(classes, kind, log)
        fns = coros if cfg == "asyncio" else plain
        for name, fn in zip(("m1", "m2", "m3"), fns):
            schema.register_resolver("Mutation", name, fn)
        query = "mutation { m1 { x } m2 { x } m3 }"
        try:
            with W.watchdog():
                if cfg == "asyncio":
                    loop = W.private_loop()

                    async def main():
                        return await process_graphql_query(
                            schema, query, runtime=AsyncIORuntime(execute_blocking_functions_in_thread=False), executor_cls=Executor)
                    res = loop.run_until_complete(asyncio.wait_for(main(), 20))
                else:
                    class _W:
                        queue, table, trace = [], {}, []

                        def ev(self, *a):
                            pass
                    w = _W()
                    w.queue = []
                    rt = ThreadPoolRuntime(max_workers=1)
                    rt._inner.shutdown(wait=False)
                    rt._inner = W.ManualExecutor(w)
                    fut = process_graphql_query(schema, query, runtime=rt, executor_cls=Executor)
                    while not fut.done() and w.queue:
                        e = w.queue.pop(0)
                        try:
                            r = e.fn(*e.args, **e.kwargs)
                        except W.Watchdog:
                            raise
                        except BaseException as err:  # noqa
                            e.fut.set_exception(err)
                        else:
                            e.fut.set_result(r)
                    if not fut.done():
                        return ["pending", log]
                    res = fut.result()
            return ["ok", dumps(res.data), W.canon_errors(res.errors), log]
        except W.Watchdog:
            return ["hang", log]
        except Exception as err:  # noqa
            return ["failed", type(err).__name__, log]

    isolated = {}
    n = 0
    orders = (("asyncio", "threadpool", "asyncio", "threadpool"), ("threadpool", "asyncio", "threadpool", "asyncio"))
    for kind in ("box", "fut"):
        for order in orders:
            classes = _history_classes()
            for step, cfg in enumerate(order):
                got = run_cfg(cfg, classes, kind)
                ctx.count()
                n += 1
                key = (cfg, kind)
                if step == 0 and key not in isolated:
                    isolated[key] = got                   # first contact of fresh classes with this runtime
                    ctx.stat("history:isolated:%s:%s:%s" % (cfg, kind, got[0]))
                    continue
                if key not in isolated:
                    fresh = run_cfg(cfg, _history_classes(), kind)
                    isolated[key] = fresh
                if got != isolated[key]:
                    ctx.fail("%s:history-dependent:%s:%s:after-%s" % (prop.lower(), cfg, kind, "+".join(order[:step]) or "nothing"),
                             "the same mutation on %s gives another outcome after the other runtime has seen the same resolver "
                             "value classes (%s)" % (cfg, kind),
                             {"stream": "history", "config": cfg, "kind": kind, "order": list(order[:step + 1]),
                              "in_isolation": isolated[key], "got": got})
            # repeat at the very end of the run as well
            for cfg in ("asyncio", "threadpool"):
                ctx.later("%s-history:%s:%s" % (prop, cfg, kind),
                          (lambda cfg=cfg, classes=classes, kind=kind: run_cfg(cfg, classes, kind)),
                          isolated[(cfg, kind)], {"config": cfg, "kind": kind, "order": list(order)})
    ctx.extra["history_runs"] = n


# ---------------------------------------------------------------------------
# named probes (fixed cases)

def probe_many_root_fields(ctx, prop, kinds=("query", "mutation"), counts=(100, 400, 1000)):
    """
    NAMED PROBE (scale limit, like C01's P1): `{ a1: m a2: m ... aN: m }` with synchronous resolvers must be answered alike
    by BlockingExecutor and by the generic Executor. Finding E4: `execute_fields_serially._next` recursed per field.
    """
    import sys
    from py_gql import build_schema, process_graphql_query
    from py_gql.execution import BlockingExecutor, Executor
    from py_gql.execution.runtime import BlockingRuntime
    schema = build_schema("type Query { m: Int } type Mutation { m: Int }")
    schema.register_resolver("Query", "m", lambda *a, **k: 1)
    schema.register_resolver("Mutation", "m", lambda *a, **k: 1)

    def one(kind, n, cls):
        q = kind + " { " + " ".join("a%d: m" % i for i in range(n)) + " }"
        try:
            r = process_graphql_query(schema, q, runtime=BlockingRuntime(), executor_cls=cls)
            return ["ok", len(r.data or {}), list(r.data or {})[:1] + list(r.data or {})[-1:], len(r.errors)]
        except RecursionError:
            return ["RecursionError"]
        except Exception as err:  # noqa
            return ["failed", type(err).__name__]

    for kind in kinds:
        first_bad = None
        for n in counts:
            ref, got = one(kind, n, BlockingExecutor), one(kind, n, Executor)
            ctx.count()
            ctx.stat("probe:%d-root-fields:%s:%s" % (n, kind, got[0]))
            if got != ref and first_bad is None:
                first_bad = (n, ref, got)
        if first_bad:
            n, ref, got = first_bad
            ctx.fail("%s:scale:%s-root-fields:%s" % (prop.lower(), kind, got[0]),
                     "%s with %d aliased root fields: generic Executor gives %s, BlockingExecutor gives %s (recursion limit %d)"
                     % (kind, n, got, ref, sys.getrecursionlimit()),
                     {"probe": "many-root-fields", "kind": kind, "count": n, "counts_tried": list(counts)})


def probe_resolver_raises_execution_error(ctx):
    """
    NAMED PROBE (findings E5, hunt C08/2): a resolver raising one of the exception classes the ENTRY POINT itself handles
    (`ExecutionError`, `InvalidOperationError`, `VariablesCoercionError`) must be reported alike by all configurations.
    """
    import asyncio
    from py_gql import build_schema, process_graphql_query
    from py_gql import exc
    from py_gql.execution import BlockingExecutor, Executor
    from py_gql.execution.runtime import AsyncIORuntime, BlockingRuntime, ThreadPoolRuntime

    makers = {
        "ExecutionError": lambda: exc.ExecutionError("raised by a resolver"),
        "InvalidOperationError": lambda: exc.InvalidOperationError("raised by a resolver"),
        "VariablesCoercionError": lambda: exc.VariablesCoercionError([exc.VariableCoercionError("raised by a resolver")]),
    }
    for cls_name, make in makers.items():
        for query in ("{ n m }", "{ o { m } n }"):
            schema = build_schema("type Query { n: Int m: Int o: O } type O { m: Int }")

            def boom(*a, **k):
                raise make()

            async def aboom(*a, **k):
                raise make()
            schema.register_resolver("Query", "n", lambda *a, **k: 1)
            schema.register_resolver("Query", "o", lambda *a, **k: {})

            def canon(fn):
                try:
                    r = fn()
                    return ["response", dumps(r.data), sorted(type(e).__name__ for e in r.errors)]
                except Exception as err:  # noqa
                    return ["raises", type(err).__name__]

            def with_resolver(fn_):
                schema.register_resolver("Query", "m", fn_, allow_override=True)
                schema.register_resolver("O", "m", fn_, allow_override=True)

            def on_loop(coroutine_resolvers):
                loop = W.private_loop()

                async def main():
                    return await process_graphql_query(schema, query, runtime=AsyncIORuntime(), executor_cls=Executor)
                with_resolver(aboom if coroutine_resolvers else boom)
                return loop.run_until_complete(asyncio.wait_for(main(), 20))

            def on_pool():
                with_resolver(boom)
                rt = ThreadPoolRuntime(max_workers=2)
                try:
                    with W.watchdog(21):
                        return process_graphql_query(schema, query, runtime=rt, executor_cls=Executor).result(timeout=20)
                except W.Watchdog:
                    raise TimeoutError("the call blocks (watchdog)")
                finally:
                    try:
                        rt._inner.shutdown(wait=False, cancel_futures=True)
                    except TypeError:
                        rt._inner.shutdown(wait=False)

            def blocking(cls):
                with_resolver(boom)
                return process_graphql_query(schema, query, runtime=BlockingRuntime(), executor_cls=cls)

            ref = canon(lambda: blocking(BlockingExecutor))
            for cfg, fn in (("generic-blocking", lambda: blocking(Executor)), ("asyncio-graphql()", lambda: on_loop(False)),
                            ("asyncio-coroutine-resolvers", lambda: on_loop(True)), ("threadpool-real-w2", on_pool)):
                got = canon(fn)
                ctx.count()
                if got != ref:
                    ctx.fail("c08:resolver-raises-%s:%s" % (cls_name, cfg),
                             "a resolver raising %s in `%s`: %s gives %s, BlockingExecutor gives %s" % (cls_name, query, cfg, got, ref),
                             {"probe": "resolver-raises-ExecutionError", "class": cls_name, "query": query, "config": cfg,
                              "blocking": ref, "got": got})


def probe_generator_history(ctx, first):
    """
    NAMED PROBE (hunt C08/1): resolvers returning PLAIN generators (lazy iterables for list fields) and GENERATOR-BASED
    coroutines (`types.coroutine`) under asyncio, in the order given by `first` (alternates with the seed; the rest of the run
    returns many plain generators in between). Each result must be what the other configurations give; `ctx.later` repeats both.
    """
    import asyncio
    import types
    from py_gql import build_schema, process_graphql_query
    from py_gql.execution import BlockingExecutor, Executor
    from py_gql.execution.runtime import AsyncIORuntime, BlockingRuntime
    schema = build_schema("type Query { nums: [Int] one: Int }")
    schema.register_resolver("Query", "nums", lambda *a, **k: (i for i in range(3)))

    @types.coroutine
    def legacy():
        yield from asyncio.sleep(0)
        return 1
    schema.register_resolver("Query", "one", lambda *a, **k: legacy())

    def run(query):
        loop = W.private_loop()

        async def main():
            rt = AsyncIORuntime(execute_blocking_functions_in_thread=False)
            return await process_graphql_query(schema, query, runtime=rt, executor_cls=Executor)
        try:
            r = loop.run_until_complete(asyncio.wait_for(main(), 20))
            return ["ok", dumps(r.data), W.canon_errors(r.errors)]
        except Exception as err:  # noqa
            return ["failed", type(err).__name__]

    rb = process_graphql_query(schema, "{ nums }", runtime=BlockingRuntime(), executor_cls=BlockingExecutor)
    expected = {"{ nums }": ["ok", dumps(rb.data), W.canon_errors(rb.errors)], "{ one }": ["ok", dumps({"one": 1}), []]}
    order = ["{ one }", "{ nums }"] if first == "one" else ["{ nums }", "{ one }"]
    for i, query in enumerate(order + order):
        got = run(query)
        ctx.count()
        if got != expected[query]:
            ctx.fail("c08:generator-history:asyncio:%s" % ("lazy-list" if "nums" in query else "generator-based-coroutine"),
                     "asyncio: `%s` gives %s instead of %s after the runtime has seen the other kind of generator object "
                     "(order %s)" % (query, got, expected[query], " ".join(order)),
                     {"probe": "generator-history", "first": first, "query": query, "got": got, "expected": expected[query]})
        ctx.later("C08-generator-history:%s" % query, (lambda q=query: run(q)), expected[query], {"query": query, "first": first})


def probe_deep_nesting(ctx, depths=(20, 60, 80)):
    """
    NAMED PROBE (hunt2 C08/3): a valid `{o{o{...{x}...}}}` nested `d` levels (lists of non-null objects) that BlockingExecutor
    answers must COMPLETE - with the same data - on every runtime (hard timeout, confirmed once). On the thread pool every
    combinator settles its outer future from inside the inner done-callback: completion nests on the stack and past the recursion
    limit the RecursionError is swallowed by `Future._invoke_callbacks`.
    """
    import asyncio
    import concurrent.futures
    import sys
    import time
    from py_gql import build_schema, process_graphql_query
    from py_gql.execution import BlockingExecutor, Executor
    from py_gql.execution.runtime import AsyncIORuntime, BlockingRuntime, ThreadPoolRuntime
    schema = build_schema("type Query { o: [O!]! } type O { o: [O!]! x: Int! }")

    def res_o(root, c, info):
        time.sleep(0.001)
        return [{"x": 1}]

    async def ares_o(root, c, info):
        await asyncio.sleep(0)
        return [{"x": 1}]

    def set_resolvers(fn):
        schema.register_resolver("Query", "o", fn, allow_override=True)
        schema.register_resolver("O", "o", fn, allow_override=True)

    def query(d):
        return "{ " + "o { " * d + "x" + " }" * d + " }"

    def canon(fn):
        try:
            r = fn()
            return ["ok", dumps(r.data), len(r.errors)]
        except (asyncio.TimeoutError, concurrent.futures.TimeoutError):
            return ["never-completes"]
        except RecursionError:
            return ["RecursionError"]
        except Exception as err:  # noqa
            return ["failed", type(err).__name__]

    def run(cfg, d, timeout):
        q = query(d)
        if cfg == "asyncio-coroutine-resolvers":
            set_resolvers(ares_o)
            loop = W.private_loop()

            async def main():
                return await process_graphql_query(schema, q, runtime=AsyncIORuntime(), executor_cls=Executor)
            return canon(lambda: loop.run_until_complete(asyncio.wait_for(main(), timeout)))
        set_resolvers(res_o)
        if cfg == "blocking":
            return canon(lambda: process_graphql_query(schema, q, runtime=BlockingRuntime(), executor_cls=BlockingExecutor))
        if cfg == "generic-blocking":
            return canon(lambda: process_graphql_query(schema, q, runtime=BlockingRuntime(), executor_cls=Executor))
        rt = ThreadPoolRuntime(max_workers=2)
        try:
            def pool():
                try:
                    with W.watchdog(timeout + 0.5):
                        return process_graphql_query(schema, q, runtime=rt, executor_cls=Executor).result(timeout=timeout)
                except W.Watchdog:
                    raise concurrent.futures.TimeoutError()
            return canon(pool)
        finally:
            try:
                rt._inner.shutdown(wait=False, cancel_futures=True)
            except TypeError:
                rt._inner.shutdown(wait=False)

    for cfg in ("generic-blocking", "asyncio-coroutine-resolvers", "threadpool-real-w2"):
        for d in depths:
            ref = run("blocking", d, 3)
            if ref[0] != "ok":
                break
            got = run(cfg, d, 3)
            if got == ["never-completes"]:
                got = run(cfg, d, 7)
            ctx.count()
            ctx.stat("probe:deep-nesting:%s:%d:%s" % (cfg, d, got[0]))
            if got != ref:
                ctx.fail("c08:deep-nesting:%s:%s" % (cfg, got[0]),
                         "a valid query nested %d levels that BlockingExecutor answers: %s gives %s (recursion limit %d; first failing depth "
                         "among %s)" % (d, cfg, got[:2], sys.getrecursionlimit(), list(depths)),
                         {"probe": "deep-nesting", "config": cfg, "depth": d, "got": got[:2]})
                break


def abort_order_stage(ctx):
    """
    (hunt2 C08/2) `{ a b }`, both deferred, each either ABORTING the request (resolver raises ExecutionError -> data-null response),
    raising an unexpected exception, or fine; BOTH completion orders under the controlled thread pool and asyncio. The outcome
    (response with WHICH error / failure) must be BlockingExecutor's whatever completes first.
    """
    import asyncio
    from concurrent.futures import Future
    from py_gql import build_schema, process_graphql_query
    from py_gql.exc import ExecutionError
    from py_gql.execution import BlockingExecutor, Executor
    from py_gql.execution.runtime import AsyncIORuntime, BlockingRuntime, ThreadPoolRuntime
    kinds = {"abort": lambda name: ExecutionError("abort-" + name), "unexpected": lambda name: KeyError("unexpected-" + name), "ok": None}

    def canon(fn):
        try:
            r = fn()
            return ["response", dumps(r.data), sorted(str(e) for e in r.errors)]
        except BaseException as err:  # noqa
            if isinstance(err, (W.Watchdog, KeyboardInterrupt)):
                raise
            return ["raises", type(err).__name__, str(err)]

    for ka in ("abort", "unexpected", "ok"):
        for kb in ("abort", "unexpected"):
            if (ka, kb) in (("ok", "unexpected"), ("unexpected", "unexpected")):
                continue

            def outcome(name, kind):
                mk = kinds[kind]
                if mk is None:
                    return 1
                raise mk(name)

            def blocking():
                schema = build_schema("type Query { a: Int b: Int }")
                schema.register_resolver("Query", "a", lambda *x, **k: outcome("a", ka))
                schema.register_resolver("Query", "b", lambda *x, **k: outcome("b", kb))
                return process_graphql_query(schema, "{ a b }", runtime=BlockingRuntime(), executor_cls=BlockingExecutor)
            ref = canon(blocking)
            for order in ((0, 1), (1, 0)):
                # thread pool, manual executor
                def pool():
                    class _W:
                        table, trace = {}, []

                        def ev(self, *a):
                            pass
                    w = _W()
                    w.queue = []
                    schema = build_schema("type Query { a: Int b: Int }")
                    schema.register_resolver("Query", "a", lambda *x, **k: outcome("a", ka))
                    schema.register_resolver("Query", "b", lambda *x, **k: outcome("b", kb))
                    rt = ThreadPoolRuntime(max_workers=1)
                    rt._inner.shutdown(wait=False)
                    rt._inner = W.ManualExecutor(w)
                    wd = W.watchdog(single_threaded=True)       # single-threaded world: a blocking wait is a deadlock
                    try:
                        with wd:
                            fut = process_graphql_query(schema, "{ a b }", runtime=rt, executor_cls=Executor)
                            entries = list(w.queue)
                            for i in order:
                                e = entries[i]
                                if e.fut.done():
                                    continue
                                try:
                                    r = e.fn(*e.args, **e.kwargs)
                                except BaseException as err:  # noqa
                                    e.fut.set_exception(err)
                                else:
                                    e.fut.set_result(r)
                            if W._Deadlock.blocked:
                                raise TimeoutError("blocks")
                            if not fut.done():
                                raise TimeoutError("pending")
                            return fut.result()
                    except W.Watchdog:
                        raise TimeoutError("blocks")

                def aio():
                    loop = W.private_loop()
                    gates = {}
                    schema = build_schema("type Query { a: Int b: Int }")

                    def mk(name, kind):
                        async def r(*x, **k):
                            gates[name] = loop.create_future()
                            await gates[name]
                            return outcome(name, kind)
                        return r
                    schema.register_resolver("Query", "a", mk("a", ka))
                    schema.register_resolver("Query", "b", mk("b", kb))

                    async def main():
                        rt = AsyncIORuntime(execute_blocking_functions_in_thread=False)
                        task = asyncio.ensure_future(process_graphql_query(schema, "{ a b }", runtime=rt, executor_cls=Executor))
                        for _ in range(5):
                            await asyncio.sleep(0)
                        for i in order:
                            g = gates.get("ab"[i])
                            if g is not None and not g.done():
                                g.set_result(None)
                            for _ in range(10):
                                await asyncio.sleep(0)
                        return await asyncio.wait_for(task, 10)
                    return loop.run_until_complete(main())

                for cfg, fn in (("threadpool", pool), ("asyncio", aio)):
                    got = canon(fn)
                    ctx.count()
                    if got != ref:
                        ctx.fail("c08:abort-order:%s:%s+%s" % (cfg, ka, kb),
                                 "`{ a b }` with a=%s, b=%s, completion order %s: %s gives %s, BlockingExecutor gives %s"
                                 % (ka, kb, "".join("ab"[i] for i in order), cfg, got, ref),
                                 {"stream": "abort-order", "a": ka, "b": kb, "order": list(order), "config": cfg, "blocking": ref, "got": got})


# ---------------------------------------------------------------------------
# abandoned resolvers under graphql()'s default AsyncIORuntime (thread off-loading on)

def abandoned_cases():
    I = {"t": "int"}
    sub = {"t": "obj", "fields": [{"key": "a", "mode": "deferred", "ty": I}, {"key": "b", "mode": "deferred", "ty": I}]}
    item = {"a": {"r": "ok", "v": 1}, "b": {"r": "ok", "v": 2}}
    tail = [{"key": "m2", "mode": "deferred", "ty": I, "out": {"r": "ok", "v": 7}},
            {"key": "m3", "mode": "deferred", "ty": I, "out": {"r": "ok", "v": 8}}]
    out = []
    for n_items in (1, 2):
        out.append({"kind": "mutation", "fields": [
            {"key": "m1", "mode": "deferred", "ty": {"t": "list", "of": sub},
             "out": {"r": "ok", "v": {"lazy": [item] * n_items, "fail": True}}}] + tail})
    out.append({"kind": "mutation", "fields": [
        {"key": "m1", "mode": "deferred", "ty": {"t": "list", "of": dict(sub, abstract=True)},
         "out": {"r": "ok", "v": [item, "cerr", item]}}] + tail})
    out.append(dict(out[0], style="spread"))
    return out


def abandoned_stage(ctx, prop):
    """
    `py_gql.graphql()` = a DEFAULT `AsyncIORuntime()`: plain `def` resolvers are off-loaded to the loop's worker threads, lazily
    (nothing runs before the executor awaits the wrapped call). A top-level list field whose completion raises ResolverError
    after earlier items' sub-field resolvers were CALLED abandons those calls: they must not run during / after the next
    top-level mutation field (on the unchanged tree they never run at all). Oracle: no `body`/`done` event of an earlier
    top-level field's subtree after the `call` of a later top-level field; data / errors equal to BlockingExecutor's.
    """
    import asyncio
    import threading
    import time
    import py_gql
    lock = threading.Lock()

    class W2(W.World):
        def ev(self, kind, path):
            with lock:
                self.trace.append([kind, list(path)])

        def resolve(self, info, explicit):
            path = tuple(info.path)
            self.ev("call", path)
            if len(path) > 1:
                time.sleep(0.03)            # a sub-field write that is still running when the next root field starts
            return self.body(path)

    n = 0
    for case in abandoned_cases():
        ref = W.run_blocking(case)
        w = W2(case)
        schema = W.build_schema(case, all_explicit=True)
        loop = W.private_loop()
        try:
            res = loop.run_until_complete(asyncio.wait_for(py_gql.graphql(schema, W.document(case), context=w), 30))
            loop.run_until_complete(asyncio.sleep(0.15))          # let stragglers finish and record their events
            obs = W.obs_of_result(w, result=res, status="ok")
        except asyncio.TimeoutError:
            obs = W.obs_of_result(w, status="pending")
        except BaseException as err:  # noqa
            if isinstance(err, (W.Watchdog, KeyboardInterrupt)):
                raise
            obs = W.obs_of_result(w, exc=err, status="failed")
        ctx.count()
        n += 1
        detail = {"stream": "abandoned", "case": case, "document": W.document(case), "config": "asyncio-graphql()"}
        keys = [f["key"] for f in case["fields"]]
        started = -1
        late = None
        with lock:
            trace = list(w.trace)
        for kind, path in trace:
            top = keys.index(path[0])
            if kind == "call" and len(path) == 1:
                started = max(started, top)
            elif top < started and late is None:
                late = (kind, path, keys[started])
        if late:
            ctx.fail("%s:abandoned-resolver-ran:asyncio-graphql():%s" % (prop.lower(), "/".join(str(x) for x in late[1])),
                     "the %s of resolver %r happened after top-level field %r had started, although its field had been abandoned "
                     "(its list failed while being completed)" % (late[0], late[1], late[2]), dict(detail, trace=trace))
            continue
        bad = compare_to_reference(case, ref, obs, "asyncio-graphql()")
        if bad:
            ctx.fail("%s:%s:asyncio-graphql():abandoned-list-field" % (prop.lower(), bad[0]), bad[1], detail)
    ctx.extra["abandoned_stage_runs"] = n


def probe_gather_lost_update(ctx):
    """
    NAMED PROBE - the Lean refutation witness `gather_nonatomic_lost_update_preempted` replayed on the REAL
    `gather_futures`: two pending futures; worker 0 (this thread) runs `on_finish(f0)` under an opcode tracer
    (`sys.settrace`, `f_trace_opcodes`) that, at the `STORE_DEREF done` of `done += 1` - i.e. AFTER the LOAD, BEFORE the
    STORE - lets worker 1 (a real second thread) complete `f1` and run its whole `on_finish(f1)`; then worker 0 goes on.
    Model schedule: LOAD0 | LOAD1 STORE1 TEST1 | STORE0 TEST0 = [0, 1, 1, 1, 0, 0] (RuntimeRace.lean). If one increment
    is lost, both callbacks have returned, every future is complete and the aggregate Future is never set: "execution
    always completes once all resolvers have completed" is false for that interleaving. With a lock around the increment
    (theorems gather_locked_sets_outer / gather_atomic_sets_outer; proposed_fixes/C08-gather-counter-lock.patch) worker 1
    waits at the lock, nothing is lost and the probe stays silent. The preemption is FORCED: stock CPython 3.12 with the GIL
    switches threads only at eval-breaker checks, none of which lies between the LOAD and the STORE.
    """
    import dis
    import sys
    import threading
    from concurrent.futures import Future
    from py_gql.execution.runtime import threadpool as tp

    def find(code, name):
        for c in code.co_consts:
            if hasattr(c, "co_name"):
                if c.co_name == name:
                    return c
                r = find(c, name)
                if r is not None:
                    return r
        return None
    gather = getattr(tp, "gather_futures", None)
    code = find(gather.__code__, "on_finish") if gather is not None else None
    if code is None:
        ctx.notes.append("gather-lost-update probe: gather_futures.on_finish not found (shape changed): probe skipped")
        return True
    ins_at = {i.offset: i for i in dis.get_instructions(code)}
    rmw = [i.opname for i in ins_at.values() if i.argval == "done" and i.opname in ("LOAD_DEREF", "STORE_DEREF")]
    ctx.extra["gather_counter_bytecode"] = rmw          # LOAD_DEREF, STORE_DEREF, ...: the increment is not one instruction
    f0, f1 = Future(), Future()
    outer = gather([f0, f1])
    st = {"fired": False, "inside": None, "t1": None}

    def local(frame, event, arg):
        if event == "opcode" and not st["fired"]:
            ins = ins_at.get(frame.f_lasti)
            if ins is not None and ins.opname == "STORE_DEREF" and ins.argval == "done":
                st["fired"] = True
                t1 = threading.Thread(target=lambda: f1.set_result(1), daemon=True)
                st["t1"] = t1
                t1.start()
                t1.join(0.5)          # with a lock around the increment worker 1 blocks here: go on after the window
                st["inside"] = not t1.is_alive()
        return local

    def tracer(frame, event, arg):
        if event == "call" and frame.f_code is code and not st["fired"]:
            frame.f_trace_opcodes = True
            sys.settrace(tracer)          # CPython 3.12: re-instrument so that opcode events are delivered for this frame
            return local
        return None
    old = sys.gettrace()
    sys.settrace(tracer)
    try:
        f0.set_result(0)
    finally:
        sys.settrace(old)
    ctx.count()
    if not st["fired"]:
        ctx.notes.append("gather-lost-update probe: no opcode event at the increment (tracing unavailable): probe skipped")
        return True
    st["t1"].join(5)
    ctx.stat("probe:gather-lost-update:" + ("interleaved" if st["inside"] else "worker-1-waited"))
    if st["t1"].is_alive() or not (f0.done() and f1.done()):
        return True                      # did not run to the end: nothing to judge
    if not outer.done():
        ctx.fail("c08:gather-lost-update:forced-preemption-between-load-and-store",
                 "gather_futures over two futures, worker 1's on_finish interleaved between the LOAD and the STORE of worker 0's "
                 "`done += 1`: both futures complete, both callbacks returned, the aggregate Future is never set "
                 "(Lean: gather_nonatomic_lost_update_preempted)",
                 {"probe": "gather-lost-update", "model_schedule": [0, 1, 1, 1, 0, 0], "bytecode": rmw})
        return False
    return True


def stages(ctx, chk):
    return [
        ("gather-lost-update", lambda: probe_gather_lost_update(ctx)),
        ("generator-history", lambda: probe_generator_history(ctx, "one" if ctx.seed % 2 == 0 else "nums")),     # before anything else touches the runtimes
        ("streams", lambda: run_streams(ctx, chk)),
        ("real-pool", lambda: real_pool_stage(ctx, "C08", n_random=6 if ctx.tier == "quick" else 40)),
        ("args", lambda: args_stream(ctx, 12 if ctx.tier == "quick" else 120)),
        ("runtime-api", lambda: runtime_api_stream(ctx)),
        ("history", lambda: history_stream(ctx, "C08")),
        ("many-root-fields", lambda: probe_many_root_fields(ctx, "C08", kinds=("query",))),
        ("resolver-raises-execution-error", lambda: probe_resolver_raises_execution_error(ctx)),
        ("deep-nesting", lambda: probe_deep_nesting(ctx)),
        ("abort-order", lambda: abort_order_stage(ctx)),
        ("e2-model", lambda: __import__("corr.C08_e2", fromlist=["e2_stage"]).e2_stage(ctx, "C08")),
    ]


GENERATED_FILES = ["PyGqlModel/Generated/GatherLock.lean"]


def extract(ctx):
    """Which counter `gather_futures.on_finish` has (Generated/GatherLock.lean; theorem gather_shipped_variant): is `done += 1` inside
    `with lock:` together with a local copy, and does the last-one test read that local copy?"""
    import ast
    from common import REPO
    src = (REPO / "src/py_gql/execution/runtime/threadpool.py").read_text()
    tree = ast.parse(src)
    gather = next((n for n in ast.walk(tree) if isinstance(n, ast.FunctionDef) and n.name == "gather_futures"), None)
    if gather is None:
        raise ValueError("threadpool.py no longer defines gather_futures")
    on_finish = next((n for n in ast.walk(gather) if isinstance(n, ast.FunctionDef) and n.name == "on_finish"), None)
    if on_finish is None:
        raise ValueError("gather_futures no longer defines on_finish")
    incs = [n for n in ast.walk(on_finish) if isinstance(n, ast.AugAssign) and isinstance(n.target, ast.Name) and n.target.id == "done"]
    if len(incs) != 1:
        raise ValueError("gather_futures.on_finish: expected exactly one `done += 1`, found %d" % len(incs))
    locked = False
    local = None
    for w in ast.walk(on_finish):
        if isinstance(w, ast.With) and any(isinstance(it.context_expr, ast.Name) and it.context_expr.id == "lock" for it in w.items):
            inside = list(ast.walk(w))
            if incs[0] in inside:
                locked = True
                for a in inside:
                    if (isinstance(a, ast.Assign) and len(a.targets) == 1 and isinstance(a.targets[0], ast.Name)
                            and isinstance(a.value, ast.Name) and a.value.id == "done"):
                        local = a.targets[0].id
    tests_local = False
    for n in ast.walk(on_finish):
        if isinstance(n, ast.If) and isinstance(n.test, ast.Compare) and len(n.test.comparators) == 1:
            names = {x.id for x in (n.test.left, n.test.comparators[0]) if isinstance(x, ast.Name)}
            if "target_count" in names:
                tests_local = local is not None and local in names
    b = lambda x: "true" if x else "false"   # noqa: E731
    return {"PyGqlModel/Generated/GatherLock.lean": (
        "/- GENERATED by harness/corr/C08.py: extract() from src/py_gql/execution/runtime/threadpool.py — do not edit. -/\n"
        "namespace PyGql.Generated.GatherLock\n\n"
        "/-- `gather_futures.on_finish` increments the shared counter inside `with lock:` (fix 6013951) -/\n"
        "def gatherCounterLocked : Bool := %s\n\n"
        "/-- … and copies it to a local (`count = done`) inside the same `with lock:`; the last-one test reads the LOCAL copy\n"
        "    (`if count == target_count`) -/\n"
        "def testsLocalCount : Bool := %s\n\n"
        "end PyGql.Generated.GatherLock\n" % (b(locked), b(tests_local)))}


def run(ctx):
    W.quiet()
    chk = Checker(ctx, "C08")
    try:
        W.run_stages(ctx, "C08", stages(ctx, chk))
    finally:
        W.close_private_loop()
        W.release_stuck_workers(ctx)
    ctx.extra["configurations"] = list(CONFIGS)
    ctx.extra["all_schedules_up_to_tasks"] = chk.max_tasks_all


def replay(ctx, data):
    W.quiet()
    inp = data.get("input", {})
    if inp.get("probe") == "gather-lost-update":
        return probe_gather_lost_update(ctx)
    if inp.get("stream") == "e2-model":
        from corr import C08_e2
        before = len(ctx.found)
        C08_e2.e2_stage(ctx, "C08", only=inp.get("case"))
        return len(ctx.found) == before
    if inp.get("probe") == "stage":
        before = len(ctx.found)
        try:
            W.run_stages(ctx, "C08", stages(ctx, Checker(ctx, "C08")), replaying=inp.get("stage"))
        finally:
            W.close_private_loop()
            W.release_stuck_workers(ctx)
        return len(ctx.found) == before
    if inp.get("probe"):
        before = len(ctx.found)
        try:
            if inp["probe"] == "many-root-fields":
                probe_many_root_fields(ctx, "C08", kinds=(inp.get("kind", "query"),))
            elif inp["probe"] == "deep-nesting":
                probe_deep_nesting(ctx)
            elif inp["probe"] == "generator-history":
                probe_generator_history(ctx, inp.get("first", "one"))
            else:
                probe_resolver_raises_execution_error(ctx)
        finally:
            W.close_private_loop()
        return len(ctx.found) == before
    if inp.get("stream") == "abort-order":
        before = len(ctx.found)
        try:
            abort_order_stage(ctx)
        finally:
            W.close_private_loop()
        return len(ctx.found) == before
    if inp.get("stream") == "history":
        before = len(ctx.found)
        try:
            history_stream(ctx, "C08")
        finally:
            W.close_private_loop()
        return len([f for f in ctx.found[before:] if f["kind"] == "property"]) == 0
    if inp.get("stream") == "runtime-api":
        before = len(ctx.found)
        saved = globals()["RUNTIME_API_QUERIES"]
        try:
            globals()["RUNTIME_API_QUERIES"] = (inp["query"],)
            runtime_api_stream(ctx)
        finally:
            globals()["RUNTIME_API_QUERIES"] = saved
            W.close_private_loop()
        return len(ctx.found) == before
    if inp.get("stream") == "args":
        before = len(ctx.found)
        saved = args_cases
        try:
            globals()["args_cases"] = lambda rng, n: [(inp["sdl"], inp["query"])]
            args_stream(ctx, 0)
        finally:
            globals()["args_cases"] = saved
            W.close_private_loop()
        return len(ctx.found) == before
    case = inp.get("case")
    if case is None:
        return True
    chk = Checker(ctx, "C08")
    try:
        fails = chk.failures_of(case, ctx.rng, cap=2000)
    finally:
        W.close_private_loop()
    for f in fails:
        print("  ", f)
    return not fails

# -*- coding: utf-8 -*-
"""
C13 — schema validation: verdict + rule attribution of the real `SchemaValidator` vs the Lean model,
and the direct oracle (labelled expectations) on the real code.

Streams
  A  generated VALID schemas (code-built with resolvers of various signatures, and SDL-built)      -> accepted
  B  labelled violations injected at every / random positions, one or several at a time             -> rejected, each
     injected rule reported (all together)
  C  covariance: object field types derived from the interface field type, labelled by the
     specification's subtype relation (through list / non-null, interface / union possible types)
  D  all type orders of small schemas                                                                -> same verdict
  E  histories of register_* / validate calls                                                         -> validate() never
     returns on a schema that a fresh validation rejects
  F  `_is_valid_name` on generated strings; `is_subtype` on all small type pairs
  G  ONE resolver callable shared by >= 2 fields (same type / different types) whose arguments have equal names but
     different nullability / defaults / extras, in every order of the types (fields)                  -> same verdict and
     report in every order, every offending field reported (expectation from the calling convention)
  H  derived schemas: validate(source) -> clone() / clone().clone() / clone-based transform / extend_schema -> validate the
     DERIVED schema: same verdict and rule multiset as the source (extend: as the same schema built from scratch), the
     source unchanged; edits through public setters (field.arguments, type.fields, object.interfaces, union.types,
     enum.values) between two validations + a cache reset (replace request / fresh Schema over the same objects): the
     second verdict is that of the CURRENT description, undo -> valid again. Interface fields there take enum /
     input-object / custom-scalar typed arguments. Verdicts of kept schema objects are repeated at the end (ctx.later).
  K  resolver signatures against the calling convention `resolver(root, ctx, info, **arguments)`: random parameter lists
     (positional-only, defaults, *args, keyword-only, **kwargs) x arguments whose names collide with parameter names;
     the generated callables are REALLY CALLED with every admissible keyword set: reported iff some call does not bind
  J  interface vs implementing object: ALL pairs of type expressions with <= 3 wrappers over the same and over different
     named types, as argument types (must be EQUAL) and as field types (must be covariant); and in F: `==` / `!=` on all
     such pairs against structural equality, `is_subtype` on all pairs against the spec relation (exhaustive, no sampling)
  I  2-4 elements appended to ONE member list (same field / type / union / enum / directive) from a pool of two names x
     {well-formed, ill-formed} x {right, wrong position}: several violations on the same element and name, in every order
On EVERY schema of every stream: (i) the report contains every violation instance of the dump (`spec_rules`, the Python
transcription of Spec `Violation`, one clause per rule); (ii) the public option `enable_resolver_validation=True` reports
what the default call reports, `=False` exactly its non-resolver rules (model asked with the flag as well).
Every schema sent to the model is the DUMP OF THE LIVE OBJECT (`dump_schema(..., include_builtin, resolvers)`).
"""
import copy
import itertools
import json
from collections import Counter

from gen import schema as gs
import canon_schema
from corr import C13_extract as X
from corr.C13_extract import extract  # noqa: F401  (framework entry point)

PROPERTY = "C13"
RULE = ("schemas from gen/schema.py (+ an interface/implementer/union cluster) built in code (resolvers with generated "
        "signatures) and from SDL; every labelled injection (bad names, empty types, duplicates, wrong position, "
        "implementation, union/root kinds, resolver signatures) at every position of small schemas and random positions "
        "of larger ones, 1-3 at a time; all type orders of <=4-type schemas; histories of <=8 register/validate ops. "
        "non-trivial = distinct (dump of the live schema) that is rejected, or accepted with >=1 interface implementation "
        "or resolver; distinct histories with >=1 registration between two validate() calls")
ASSUMPTIONS = [
    "schemas are created through Schema()/build_schema (validate_schema's documented precondition): type names are unique, references are closed",
    "model follows the tree WITH proposed_fixes/C13-S4-S6.patch; on the unfixed tree the labelled injections "
    "`implements_object` (S4), `bad_name_input_field` (S6) and names with a trailing newline (S7) are reported as property failures",
    "the cached verdict is recomputed after resolvers are registered / reassigned AND after `field.arguments = [...]` (fix C13-HHH3: the rule relates a "
    "resolver to the arguments); types, names and members edited IN PLACE (`field.type = T`, `field.name = n`, `type.fields = [...]`) followed by "
    "`Schema.validate()` on the same Schema object are outside the statement ('recomputed after ... resolvers are reassigned'): covered only through "
    "a cache reset (replace request / fresh Schema), stream H; stream L executes every kind of structural plain assignment between two "
    "validate() calls and compares outcome / cache flag with the cache machine (op assignStructure): the stale verdicts it meets for the untracked "
    "kinds are COUNTED in the evidence (`outside_statement_stale_after_structural_setter`, Lean: cache_unsound_unseen_structural_setter, "
    "cache_sound_all_mutators_fails_today), not reported; for the tracked kinds (argument type / default, number of fields) they are failures. "
    "WITH proposed_fixes/C13-S12.patch (flag cfgCacheTracksStructure re-extracted from `_current_resolvers`) every kind is tracked: the model "
    "resets the verdict after ANY structural assignment (Lean: cache_sound_all_mutators) and a stale verdict is a failure",
    "resolver identities recorded with the cached verdict stay alive (the fingerprint holds references): stream M drops a resolver, allocates replacements "
    "until one lands on the freed address (evidence `address_reuse_collisions`: 0 everywhere on a tree that keeps references) and requires the fresh verdict",
    "plain assignment of resolvers (`schema.default_resolver = f`, `type.default_resolver = f`, `field.resolver = f`, "
    "`field.subscription_resolver = f`: documented in docs/usage/defining-resolvers.rst) is part of the histories; the model follows fix C13-HH1",
    "limit of any signature-based rule: `functools.partial(f, v)` hides the positionally bound parameter from `inspect.signature` although "
    "an argument of that name still collides at call time — such (argument, partial) pairs are left out of the call oracle",
    "resolver callables enter the model as the signature of the callable ITSELF (`follow_wrapped=False`): fix C13-HH2",
    "model and spec follow the tree WITH proposed_fixes C13-H7, C13-H1-H2-H3-H9, C13-H4-H5-H6, C13-H8 (each behind a flag re-extracted "
    "from the source: the model stays exact on trees where only some are applied); on the unpatched tree the hunt findings are reported as property failures",
    "model follows the tree WITH proposed_fixes/C13-T3b.patch (refusals of _replace_types_and_directives before any mutation, directives bust the caches); "
    "what fix_type_references removes after a DELETION is taken from the live object (`healed`), not modelled",
]
TRUSTED = [
    "py2lean.py translation of Schema.is_subtype (isinstance(GraphQLAbstractType/ObjectType) and is_possible_type as parameters)",
    "inspect.signature (resolver signatures enter the model as data dumped with it)",
    "re._parser (character classes of VALID_NAME_RE)",
    "the resolver-signature clauses (Lean `ResolverCompatible` / `ResolverViol`, Python `spec_resolver_rules_data`) are tied to Python's "
    "call binding by REALLY CALLING the generated callables with every admissible keyword set (stream K and every code-built schema); since "
    "Props.C13.compatible_iff_binds the clause is PROVED equivalent to `bindOk` (an explicit model of Python's call binding, Spec/SchemaValidSpec.lean) "
    "binding every admissible call, and `bindOk` is compared with CPython on 576 signatures x 16 keyword sets in every run (stream N): what stays trusted "
    "is that CPython's binding on other signatures follows the same three rules",
    "message attribution: templates read from the source (static: literals reaching add_error through %, .format, local / "
    "module / class constants, literal sequences iterated by a for); when a message expression is not recognised (evidence key "
    "`extraction: dynamic`) the templates are LEARNED by running the real validator on 2x30 single-violation schemas "
    "(each modelled rule violated alone) — assumed: a violation of one rule alone produces only that rule's message",
    "by-name abstraction of object identity (dump of schema.types in registry order)",
]

BAD_NAMES = ["__x", "1a", "a-b", "", "a b", "été", "a.b"[:1] + "$"]
LEXABLE_BAD = {"__x"}


# ---------------------------------------------------------------------------------------------
# building live schemas from generator descriptions
# ---------------------------------------------------------------------------------------------

NOT_CALLABLE = "!not-callable"


def make_resolver(sig):
    """A callable described by `sig`:
         "<params>"                      a plain function with exactly that parameter list
         "wraps:<outer>|<inner>"         `functools.wraps(inner)(outer)`: the executor calls OUTER
         "partial:<params>|<n>|<kw,..>"  `functools.partial(f, *n values, **kw)`
         "method:<params>"               a bound method `obj.m` of `def m(self, <params>)`
         "instance:<params>"             an object whose class defines `__call__(self, <params>)`
         "class:<params>"                a class whose `__init__(self, <params>)` is what a call runs
         NOT_CALLABLE                    a plain string object
       Every generated callable is marked `_c13_generated` (safe to call: the semantic oracle really calls it)."""
    import functools
    if sig.startswith(NOT_CALLABLE):
        return {"": "not callable", "int": 42, "str": "resolve_f", "object": object(), "dict": {"a": 1}, "tuple": (1, 2)}[sig[len(NOT_CALLABLE) + 1:]]
    kind, _, rest = sig.partition(":")
    if kind == "wraps":
        outer_s, inner_s = rest.split("|")
        inner = eval("lambda %s: None" % inner_s, {})
        fn = functools.wraps(inner)(eval("lambda %s: None" % outer_s, {}))
    elif kind == "partial":
        params, n, kws = rest.split("|")
        base = eval("lambda %s: None" % params, {})
        fn = functools.partial(base, *([0] * int(n)), **{k: 0 for k in kws.split(",") if k})
    elif kind in ("method", "instance", "class"):
        ns = {}
        name = {"method": "m", "instance": "__call__", "class": "__init__"}[kind]
        exec("class K:\n    def %s(self%s): return None\n" % (name, (", " + rest) if rest.strip() else ""), ns)
        K = ns["K"]
        if kind == "class":
            K._c13_generated = True
            return K
        obj = K() if kind == "instance" or "__init__" not in K.__dict__ else K()
        if kind == "instance":
            obj._c13_generated = True
            return obj
        K.m._c13_generated = True
        return obj.m
    else:
        fn = eval("lambda %s: None" % sig, {})
    fn._c13_generated = True
    return fn


def build_code(desc, order=None):
    """Build `desc` (gen/schema.py format + resolver signatures) with the library's type classes."""
    from py_gql import schema as S
    builtin = {t.name: t for t in S.SPECIFIED_SCALAR_TYPES}
    reg = {}
    shared = {}    # "resolver_key" -> ONE callable object used by every field that names the key

    def resolver_of(f):
        if f.get("resolver") is None:
            return None
        k = f.get("resolver_key")
        if k is None:
            return make_resolver(f["resolver"])
        if k not in shared:
            shared[k] = make_resolver(f["resolver"])
        return shared[k]

    def ref(n):
        return reg[n] if n in reg else builtin[n]

    def ty(t):
        if t[0] == "named":
            return ref(t[1])
        return (S.ListType if t[0] == "list" else S.NonNullType)(ty(t[1]))

    def conforming(t):
        """A Python value every position of type `t` accepts (the code-built counterpart of the SDL literal)."""
        if t[0] == "nonNull":
            return conforming(t[1])
        if t[0] == "list":
            return []
        n = t[1]
        td = gs.desc_type(desc, n)
        if td is None or td["kind"] == "scalar":
            return {"Int": 1, "Float": 1.5, "String": "s", "Boolean": True, "ID": "id"}.get(n, 1)
        if td["kind"] == "enum":
            return td["values"][0]["name"] if td["values"] else None
        if td["kind"] == "input":
            return {}
        return None

    def arg(a, cls):
        kw = {}
        if "default_py" in a:
            kw["default_value"] = a["default_py"]            # an explicit Python value (labelled violations)
        elif a.get("default") is not None:
            kw["default_value"] = conforming(a["type"])
        if a.get("python_name"):
            kw["python_name"] = a["python_name"]
        return cls(a["name"], (lambda t=a["type"]: ty(t)), **kw)

    def field(f):
        return S.Field(f["name"], (lambda t=f["type"]: ty(t)), args=[arg(a, S.Argument) for a in f.get("args") or []],
                       deprecation_reason=f.get("deprecated"),
                       resolver=resolver_of(f),
                       subscription_resolver=make_resolver(f["subscription_resolver"]) if f.get("subscription_resolver") else None)

    for t in desc["types"]:
        k, n = t["kind"], t["name"]
        if k == "scalar":
            reg[n] = S.ScalarType(n, serialize=lambda x: x, parse=lambda x: x)
        elif k == "enum":
            reg[n] = S.EnumType(n, [S.EnumValue(v["name"], deprecation_reason=v.get("deprecated"),
                                                **({"value": v["py_value"]} if "py_value" in v else {})) for v in t["values"]])
        elif k == "input":
            reg[n] = S.InputObjectType(n, (lambda t=t: [arg(a, S.InputField) for a in t["fields"]]))
        elif k == "interface":
            reg[n] = S.InterfaceType(n, (lambda t=t: [field(f) for f in t["fields"]]))
        elif k == "object":
            reg[n] = S.ObjectType(n, (lambda t=t: [field(f) for f in t["fields"]]),
                                  interfaces=(lambda t=t: [ref(i) for i in t.get("interfaces") or []]),
                                  default_resolver=make_resolver(t["default_resolver"]) if t.get("default_resolver") else None)
        elif k == "union":
            reg[n] = S.UnionType(n, (lambda t=t: [ref(m) for m in t["members"]]))
    names = [t["name"] for t in desc["types"]]
    if order is not None:
        names = [names[i] for i in order]
    dirs = [S.Directive(d["name"], d["locations"], [arg(a, S.Argument) for a in d.get("args") or []]) for d in desc["directives"]]
    sch = S.Schema(query_type=ref(desc["query"]) if desc.get("query") else None,
                   mutation_type=ref(desc["mutation"]) if desc.get("mutation") else None,
                   subscription_type=ref(desc["subscription"]) if desc.get("subscription") else None,
                   types=[reg[n] for n in names], directives=dirs)
    if desc.get("default_resolver"):
        sch.default_resolver = make_resolver(desc["default_resolver"])
    return sch


def build_sdl(desc, order=None):
    from py_gql import build_schema
    return build_schema(gs.to_sdl(desc, order=order, descriptions=False))


def dump(schema):
    return canon_schema.dump_schema(schema, include_builtin=True, resolvers=True)


# ---------------------------------------------------------------------------------------------
# running the real validator, attribution of messages to call sites
# ---------------------------------------------------------------------------------------------

_MATCHERS = None


_MODE = [None]


def attribution_mode():
    if _MODE[0] is None:
        try:
            _MODE[0] = X.extraction_mode()
        except Exception:  # noqa
            _MODE[0] = "dynamic"
    return _MODE[0]


def safe_fix_applied():
    try:
        return X.fix_applied()
    except Exception:  # noqa  (the source changed shape: reported as a broken obligation by the framework)
        return True


def safe_replace_atomic():
    try:
        return X.replace_flags()[1]
    except Exception:  # noqa
        return True


def attribute(msg):
    global _MATCHERS
    if _MATCHERS is None:
        _MATCHERS = X.matchers()
    hits = [(r, m.groups()) for r, rx in _MATCHERS for m in [rx.match(msg)] if m]
    rules = {r for r, _ in hits}
    if len(rules) != 1:
        return ("?unattributed" if not hits else "?ambiguous:" + "+".join(sorted(rules))), ()
    return hits[0]


def real_validate(schema, resolver_validation=None):
    """(verdict, [(rule, groups)]) of `validate_schema` (None: the default call, else the public option
    `enable_resolver_validation` given explicitly); anything but SchemaValidationError = internal."""
    from py_gql.schema.validation import validate_schema
    from py_gql.exc import SchemaValidationError
    try:
        if resolver_validation is None:
            validate_schema(schema)
        else:
            validate_schema(schema, enable_resolver_validation=resolver_validation)
        return "valid", []
    except SchemaValidationError as e:
        return "invalid", [attribute(str(x)) for x in e.errors]
    except Exception as e:  # noqa
        return "internal:" + type(e).__name__, []


def canon_errs(errs, arity=None):
    out = []
    for r, g in errs:
        # learned (dynamic) matchers do not split compound operands: only the rule is compared then
        g = list(g) if attribution_mode() == "static" else []
        if arity is not None and r in arity:
            g = g[:arity[r]]
        out.append([r, g])
    return sorted(out)


# ---------------------------------------------------------------------------------------------
# specification-side helpers used for LABELS (independent of the code under test)
# ---------------------------------------------------------------------------------------------

def kind_of(desc, n):
    if n in gs.SCALARS:
        return "scalar"
    t = gs.desc_type(desc, n)
    return t["kind"] if t else None


def spec_subtype(desc, a, b):
    """IsValidImplementationFieldType / graphql-js isTypeSubTypeOf on tuples."""
    if a == b:
        return True
    if a[0] == "nonNull":
        return spec_subtype(desc, a[1], b[1] if b[0] == "nonNull" else b)
    if b[0] == "nonNull":
        return False
    if a[0] == "list":
        return b[0] == "list" and spec_subtype(desc, a[1], b[1])
    if b[0] == "list":
        return False
    ka, kb = kind_of(desc, a[1]), kind_of(desc, b[1])
    if ka != "object":
        return False
    if kb == "interface":
        return b[1] in (gs.desc_type(desc, a[1]).get("interfaces") or [])
    if kb == "union":
        return a[1] in gs.desc_type(desc, b[1])["members"]
    return False


def type_variants(desc, t):
    """Type expressions near `t`: wrappers dropped/added at every depth, base replaced."""
    out = []

    def rebuild(path, new):
        # path: list of constructors from the outside
        for c in reversed(path):
            if c == "nonNull" and new[0] == "nonNull":
                continue
            new = (c, new)
        return new
    path, cur = [], t
    while True:
        # drop this wrapper / add a wrapper here
        if cur[0] != "named":
            out.append(rebuild(path, cur[1]))
        if cur[0] != "nonNull" and not (path and path[-1] == "nonNull"):
            out.append(rebuild(path, ("nonNull", cur)))
        out.append(rebuild(path, ("list", cur)))
        if cur[0] == "named":
            break
        path.append(cur[0])
        cur = cur[1]
    base = cur[1]
    names = [x["name"] for x in desc["types"] if x["kind"] in ("object", "interface", "union", "enum", "scalar")] + ["Int", "String"]
    for n in names:
        if n != base:
            out.append(rebuild(path, ("named", n)))
    seen, res = set(), []
    for v in out:
        if v not in seen and v != t and wf(v):
            seen.add(v)
            res.append(v)
    return res


def wf(t):
    if t[0] == "named":
        return True
    if t[0] == "nonNull" and t[1][0] == "nonNull":
        return False
    return wf(t[1])



# ---------------------------------------------------------------------------------------------
# SPECIFICATION SIDE: the violation instances of a description (Spec/SchemaValidSpec.lean `Violation`,
# one clause per rule), written against the type-system rules - not against validation.py. Input: the
# dump of the live schema. Output: multiset of rule ids that must be reported (all together).
# ---------------------------------------------------------------------------------------------

RESOLVER_RULES = {"resMissingParam", "resPosOnly", "resNeedsDefault", "resPositional", "resExtraRequired", "resCollides", "resNotCallable"}
_NAME = None


def spec_valid_name(n):
    import re as _re
    return bool(_re.fullmatch(r"[_A-Za-z][_0-9A-Za-z]*", n)) and not n.startswith("__")


def spec_resolver_rules_data(args, params):
    """Rules a resolver (parameters as data) breaks for a field with `args`, from the calling convention
    `resolver(root, ctx, info, **arguments)`: the three values fill the first three positional parameters (or *args);
    an argument reaches, by keyword, a positional-or-keyword parameter after those or a keyword-only one, else **kwargs;
    arguments that may be absent need a parameter default; every parameter the call does not fill needs a default."""
    var_kw = any(p["kind"] == "varKw" for p in params)
    var_pos = any(p["kind"] == "varPos" for p in params)
    positional = [p for p in params if p["kind"] in ("posOnly", "posOrKw")]
    leading = [p["name"] for p in positional[:3]]
    by_kw = {}
    for p in params:
        if p["kind"] in ("posOrKw", "kwOnly") and p["name"] not in leading:
            by_kw.setdefault(p["name"], p)
    by_name = {}
    for p in params:
        by_name.setdefault(p["name"], p)
    out = Counter()
    if not var_pos and len(positional) < 3:
        out["resPositional"] += 1
    provided = set()
    for a in args:
        n = a.get("python_name") or a["name"]
        required = a["type"]["k"] == "nonNull" and not a["has_default"]
        p = by_kw.get(n)
        if p is None:
            cl = by_name.get(n)
            if cl is not None and cl["name"] in leading and cl["kind"] == "posOrKw":
                out["resCollides"] += 1
            elif cl is not None and cl["kind"] == "posOnly" and not var_kw:
                out["resPosOnly"] += 1
            elif not var_kw:
                out["resMissingParam"] += 1
        else:
            provided.add(p["name"])
            if not p["has_default"] and not a["has_default"] and not required:
                out["resNeedsDefault"] += 1
    for p in params:
        if p["kind"] in ("varKw", "varPos") or p["name"] in leading or p["name"] in provided:
            continue
        if not p["has_default"]:
            out["resExtraRequired"] += 1
    return +out


def spec_default_bad(by, ty, v):
    """Does a declared default (canonical JSON of the Python value) break what its position promises?
    no null under non-null (any depth); a list under a list type; a 32-bit integer (not a bool) under Int; one of the
    enum's own values under an enum; a mapping under an input object (values under a field's python name only)."""
    if ty["k"] == "nonNull":
        return v is None or spec_default_bad(by, ty["t"], v)
    if v is None:
        return False
    if ty["k"] == "list":
        return not isinstance(v, list) or any(spec_default_bad(by, ty["t"], x) for x in v)
    t = by.get(ty["n"])
    if t is None:
        return False
    if t["kind"] == "scalar":
        if ty["n"] == "Int" and t.get("builtin"):
            return isinstance(v, bool) or not isinstance(v, int) or not (-2**31 <= v <= 2**31 - 1)
        return False
    if t["kind"] == "enum":
        return not any(x["value"] == v and type(x["value"]) is type(v) for x in t["values"])
    if t["kind"] == "input":
        if not isinstance(v, dict) or "$float" in v or "$repr" in v:
            return True
        return any((f.get("python_name") or f["name"]) in v and spec_default_bad(by, f["type"], v[f.get("python_name") or f["name"]])
                   for f in t["input_fields"])
    return False


def spec_rules(d, rv=True):
    out = Counter()
    by = {}
    for t in d["types"]:
        by.setdefault(t["name"], t)

    def kind(n):
        return by[n]["kind"] if n in by else None

    def base(ty):
        return ty["n"] if ty["k"] == "named" else base(ty["t"])

    def is_in(ty):
        return kind(base(ty)) in ("scalar", "enum", "input")

    def is_out(ty):
        return kind(base(ty)) in ("scalar", "enum", "object", "interface", "union")

    def sub(a, b):
        return spec_subtype({"types": d["types"]}, canon_schema.ty_tuple(a), canon_schema.ty_tuple(b))

    def last(xs, n):
        r = None
        for x in xs:
            if x["name"] == n:
                r = x
        return r

    def args(xs, dup, notin):
        pre = []
        for a in xs:
            if not spec_valid_name(a["name"]):
                out["invalidName"] += 1
            if a["name"] in pre:
                out[dup] += 1          # a repeated name is a uniqueness violation AND the element is examined
            if not is_in(a["type"]):
                out[notin] += 1
            elif a["has_default"] and spec_default_bad(by, a["type"], a["default_value"]):
                out[{"dupArg": "argDefault", "dirDupArg": "dirArgDefault"}[dup]] += 1
            pre.append(a["name"])

    def fields(t):
        if not t["fields"]:
            out["noFields"] += 1
        pre = []
        for f in t["fields"]:
            if not spec_valid_name(f["name"]):
                out["invalidName"] += 1
            if f["name"] in pre:
                out["dupField"] += 1
            if not is_out(f["type"]):
                out["fieldNotOutput"] += 1
            args(f["args"], "dupArg", "argNotInput")
            r = f.get("resolver") or (t.get("default_resolver") if t["kind"] == "object" else None) or d.get("default_resolver")
            for rr in (r, f.get("subscription_resolver")):
                if not rr or not rv or t["kind"] != "object":     # only the fields of object types are ever resolved
                    continue
                if rr.get("not_callable"):
                    out["resNotCallable"] += 1
                elif not rr.get("uninspectable"):
                    out.update(spec_resolver_rules_data(f["args"], rr["params"]))
            pre.append(f["name"])

    def impl(t, it):
        for f in it["fields"]:
            of = last(t["fields"], f["name"])
            if of is None:
                out["ifaceFieldMissing"] += 1
            else:
                if not sub(of["type"], f["type"]):
                    out["ifaceFieldType"] += 1
                for a in f["args"]:
                    oa = last(of["args"], a["name"])
                    if oa is None:
                        out["ifaceArgMissing"] += 1
                    elif oa["type"] != a["type"]:
                        out["ifaceArgType"] += 1
                for a in of["args"]:
                    # additional arguments "must not be required": non-null WITHOUT a default
                    if last(f["args"], a["name"]) is None and a["type"]["k"] == "nonNull" and not a["has_default"]:
                        out["extraRequiredArg"] += 1

    if d["query"] is None:
        out["noQuery"] += 1
    for key, rule in (("query", "queryNotObject"), ("mutation", "mutationNotObject"), ("subscription", "subscriptionNotObject")):
        if d[key] is not None and kind(d[key]) != "object":
            out[rule] += 1
    for t in d["types"]:
        if not (t.get("builtin") or spec_valid_name(t["name"])):
            out["invalidTypeName"] += 1      # ... and the type is examined like any other
        k = t["kind"]
        if k in ("object", "interface"):
            fields(t)
        if k == "object":
            pre = []
            for i in t["interfaces"]:
                if kind(i) != "interface":
                    out["notInterface"] += 1
                elif i in pre:
                    out["dupInterface"] += 1
                else:
                    impl(t, by[i])
                pre.append(i)
        elif k == "union":
            if not t["members"]:
                out["unionEmpty"] += 1
            pre = []
            for m in t["members"]:
                if kind(m) != "object":
                    out["unionMemberNotObject"] += 1
                elif m in pre:
                    out["unionDup"] += 1
                pre.append(m)
        elif k == "enum":
            if not t["values"]:
                out["enumEmpty"] += 1
            for v in t["values"]:
                if not spec_valid_name(v["name"]):
                    out["invalidName"] += 1
                if v["value"] is None:
                    out["enumValueNone"] += 1     # None is how a resolver says null: never serialisable
        elif k == "input":
            if not t["input_fields"]:
                out["noFields"] += 1
            pre = []
            for f in t["input_fields"]:
                if not spec_valid_name(f["name"]):
                    out["invalidName"] += 1
                if f["name"] in pre:
                    out["dupField"] += 1
                if not is_in(f["type"]):
                    out["inputFieldNotInput"] += 1
                elif f["has_default"] and spec_default_bad(by, f["type"], f["default_value"]):
                    out["inputFieldDefault"] += 1
                pre.append(f["name"])
    for dd in d["directives"]:
        if not spec_valid_name(dd["name"]):
            out["invalidName"] += 1
        args(dd["args"], "dirDupArg", "dirArgNotInput")
    return +out


def uncallable_resolvers(schema):
    """[(path, exception)] for generated resolver / subscription-resolver callables that some admissible call
    `resolver(root, ctx, info, **arguments)` does not bind. None when the schema carries foreign callables."""
    import itertools as it
    from py_gql.schema import ObjectType, InterfaceType
    bad = []
    for t in schema.types.values():
        if not isinstance(t, ObjectType) or t.name.startswith("__"):
            continue                         # interface fields are never resolved
        for f in t.fields:
            picked = f.resolver or t.default_resolver or schema.default_resolver
            for fn in (picked, f.subscription_resolver):
                if not fn:
                    continue
                if not getattr(fn, "_c13_generated", False):
                    if callable(fn):
                        return None
                    bad.append(("%s.%s" % (t.name, f.name), "not callable"))
                    continue
                try:
                    import inspect
                    inspect.signature(fn, follow_wrapped=False)
                except (ValueError, TypeError):
                    continue                 # nothing to inspect (e.g. an ill-formed partial): the rule is silent by design
                import functools
                if isinstance(fn, functools.partial) and fn.args:
                    # `inspect.signature` of a partial HIDES the parameters bound positionally, yet a keyword of that
                    # name still collides at call time: no signature-based rule can see it (limit of the rule, stated)
                    try:
                        hidden = [p.name for p in inspect.signature(fn.func, follow_wrapped=False).parameters.values()
                                  if p.kind in (p.POSITIONAL_ONLY, p.POSITIONAL_OR_KEYWORD)][:len(fn.args)]
                    except (ValueError, TypeError):
                        hidden = []
                    if any(a.python_name in hidden for a in f.arguments):
                        return None          # no judgement on this schema
                always = [a.python_name for a in f.arguments if a.required or a.has_default_value]
                optional = [a.python_name for a in f.arguments if not (a.required or a.has_default_value)]
                if len(set(always + optional)) != len(always + optional) or len(optional) > 6:
                    return None
                for k in range(len(optional) + 1):
                    for sub in it.combinations(optional, k):
                        try:
                            fn(1, 2, 3, **{n: 1 for n in always + list(sub)})
                        except TypeError as e:
                            bad.append(("%s.%s" % (t.name, f.name), str(e)[:120]))
                            break
                    else:
                        continue
                    break
    return bad

# ---------------------------------------------------------------------------------------------
# base schemas
# ---------------------------------------------------------------------------------------------

def add_cluster(desc):
    """An interface with arguments, two implementers, a union: guarantees positions for every injection."""
    d = desc
    d["types"] += [
        {"kind": "interface", "name": "IfX", "desc": None, "fields": [
            {"name": "ix", "type": ("list", ("nonNull", ("named", "IfX"))), "deprecated": None, "desc": None,
             "args": [{"name": "p", "type": ("named", "Int"), "default": None, "desc": None},
                      {"name": "q", "type": ("list", ("nonNull", ("named", "String"))), "default": None, "desc": None}]},
            {"name": "iy", "type": ("named", "UnX"), "args": [], "deprecated": None, "desc": None},
            {"name": "iz", "type": ("nonNull", ("named", "ID")), "args": [], "deprecated": None, "desc": None}]},
    ]
    for nm in ("ObX", "ObY"):
        d["types"].append({"kind": "object", "name": nm, "desc": None, "interfaces": ["IfX"], "fields": [
            {"name": "ix", "type": ("list", ("nonNull", ("named", "IfX"))), "deprecated": None, "desc": None,
             "args": [{"name": "p", "type": ("named", "Int"), "default": None, "desc": None},
                      {"name": "q", "type": ("list", ("nonNull", ("named", "String"))), "default": None, "desc": None}]},
            {"name": "iy", "type": ("named", "UnX"), "args": [], "deprecated": None, "desc": None},
            {"name": "iz", "type": ("nonNull", ("named", "ID")), "args": [], "deprecated": None, "desc": None},
            {"name": "own", "type": ("named", "String"), "args": [], "deprecated": None, "desc": None}]})
    d["types"].append({"kind": "union", "name": "UnX", "desc": None, "members": ["ObX", "ObY"]})
    q = gs.desc_type(d, "Query")
    q["fields"].append({"name": "qx", "type": ("named", "IfX"), "args": [], "deprecated": None, "desc": None})
    return d


def base_schema(rng, size, cluster=True):
    d = gs.gen_schema(rng, size=size, with_descriptions=False, with_defaults=rng.random() < 0.5)
    for t in d["types"]:
        if t["kind"] == "enum":   # EnumValue forbids these names; the generator does not produce them
            pass
    if cluster:
        add_cluster(d)
    # the generator gives inputs the key "fields" already; objects need "interfaces"
    return d


GOOD_TAILS = ["**kw", "*a, **kw"]


def good_sig(rng, f):
    """A resolver signature compatible with field description `f` (or None: only **kwargs works)."""
    args = f.get("args") or []
    names = [a.get("python_name") or a["name"] for a in args]
    if not all(n.isidentifier() and not n.startswith("__") for n in names) or len(set(names)) != len(names):
        return rng.choice(["root, ctx, info, **kw", "*a, **kw"])
    style = rng.randint(0, 4)
    if style == 0:
        return "root, ctx, info, **kw"
    if style == 1:
        return "*a, **kw"
    req = [n for a, n in zip(args, names) if a["type"][0] == "nonNull" and a.get("default") is None]
    opt = [n for n in names if n not in req]
    if style == 2:
        return ", ".join(["root", "ctx", "info"] + req + ["%s=None" % n for n in opt])
    if style == 3:
        kw = req + ["%s=None" % n for n in opt]
        return "root, ctx, info" + (", *, " + ", ".join(kw) if kw else "")
    return ", ".join(["root", "ctx", "info"] + ["%s=None" % n for n in names] + ["extra=1", "**kw"])


def add_resolvers(rng, desc, p=0.4):
    for t in desc["types"]:
        if t["kind"] in ("object", "interface"):
            for f in t["fields"]:
                if rng.random() < p:
                    f["resolver"] = good_sig(rng, f)
                if rng.random() < p / 4:
                    f["subscription_resolver"] = good_sig(rng, f)
                if t["kind"] == "interface" and rng.random() < 0.15:
                    f["resolver"] = rng.choice(["root, ctx", "root", "root, ctx, info"])   # never resolved: any signature is fine
            if t["kind"] == "object" and rng.random() < 0.15:
                t["default_resolver"] = rng.choice(["root, ctx, info, **kw", "*a, **kw"])
    if rng.random() < 0.1:
        desc["default_resolver"] = "root, ctx, info, **kw"
    return desc


# ---------------------------------------------------------------------------------------------
# labelled injections.  Each: positions(desc) -> list of positions; apply(desc, pos, rng) -> expected rule
# (or None = the edit keeps the schema valid).  All ADD fresh elements, so that labels do not mask each other.
# ---------------------------------------------------------------------------------------------

def _composites(d, kinds=("object", "interface")):
    return [t["name"] for t in d["types"] if t["kind"] in kinds]


def _fields(d, kinds=("object", "interface"), need_args=False):
    return [(t["name"], i) for t in d["types"] if t["kind"] in kinds for i, f in enumerate(t["fields"])
            if (f.get("args") or not need_args)]


_fresh = itertools.count()


def fresh(prefix):
    return "%s%d" % (prefix, next(_fresh))


def _f(name, t, args=None):
    return {"name": name, "type": t, "args": args or [], "deprecated": None, "desc": None}


def _a(name, t, default=None):
    return {"name": name, "type": t, "default": default, "desc": None}


def _add_arg(f, a):
    """Add an argument; an explicit resolver of the field is replaced by one that accepts any keyword."""
    f["args"].append(a)
    for key in ("resolver", "subscription_resolver"):
        if f.get(key) is not None:
            f[key] = "root, ctx, info, **kw"


def _wrap(rng, n):
    return gs.wrap_random(rng, n)


def _first(d, kind):
    for t in d["types"]:
        if t["kind"] == kind:
            return t["name"]
    return None


def _ref_from_query(d, tname, as_arg=False):
    q = gs.desc_type(d, "Query")
    if as_arg:
        q["fields"].append(_f(fresh("qr"), ("named", "Int"), [_a("i", ("named", tname))]))
    else:
        q["fields"].append(_f(fresh("qr"), ("named", tname)))


def _fresh_type(d, kind, name, empty=False):
    if kind == "object":
        t = {"kind": kind, "name": name, "interfaces": [], "fields": [] if empty else [_f("a", ("named", "Int"))]}
    elif kind == "interface":
        t = {"kind": kind, "name": name, "fields": [] if empty else [_f("a", ("named", "Int"))]}
    elif kind == "input":
        t = {"kind": kind, "name": name, "fields": [] if empty else [_a("a", ("named", "Int"))]}
    elif kind == "enum":
        t = {"kind": kind, "name": name, "values": [] if empty else [{"name": "V", "deprecated": None, "desc": None}]}
    elif kind == "union":
        t = {"kind": kind, "name": name, "members": [] if empty else ["ObX"]}
    else:
        t = {"kind": "scalar", "name": name}
    t["desc"] = None
    d["types"].append(t)
    _ref_from_query(d, name, as_arg=(kind == "input"))
    return t


class Inj:
    def __init__(self, name, positions, apply, code_only=False):
        self.name, self.positions, self.apply, self.code_only = name, positions, apply, code_only


def _mk_injections():
    L = []

    def add(name, positions, code_only=False):
        def deco(fn):
            L.append(Inj(name, positions, fn, code_only))
            return fn
        return deco

    @add("bad_name_field", lambda d: [(t, n) for t in _composites(d) for n in BAD_NAMES])
    def _(d, pos, rng):
        gs.desc_type(d, pos[0])["fields"].append(_f(pos[1], ("named", "Int")))
        return "invalidName"

    @add("bad_name_arg", lambda d: [(t, i, n) for (t, i) in _fields(d) for n in BAD_NAMES])
    def _(d, pos, rng):
        _add_arg(gs.desc_type(d, pos[0])["fields"][pos[1]], _a(pos[2], ("named", "Int")))
        return "invalidName"

    @add("bad_name_enum_value", lambda d: [(t, n) for t in _composites(d, ("enum",)) for n in BAD_NAMES])
    def _(d, pos, rng):
        gs.desc_type(d, pos[0])["values"].append({"name": pos[1], "deprecated": None, "desc": None})
        return "invalidName"

    @add("bad_name_input_field", lambda d: [(t, n) for t in _composites(d, ("input",)) for n in BAD_NAMES])
    def _(d, pos, rng):
        gs.desc_type(d, pos[0])["fields"].append(_a(pos[1], ("named", "Int")))
        return "invalidName"

    @add("bad_name_directive", lambda d: [(n,) for n in BAD_NAMES])
    def _(d, pos, rng):
        d["directives"].append({"name": pos[0], "locations": ["FIELD"], "args": [], "desc": None})
        return "invalidName"

    @add("bad_name_directive_arg", lambda d: [(n,) for n in BAD_NAMES])
    def _(d, pos, rng):
        d["directives"].append({"name": fresh("dq"), "locations": ["FIELD"], "args": [_a(pos[0], ("named", "Int"))], "desc": None})
        return "invalidName"

    @add("bad_type_name", lambda d: [(k, n) for k in ("object", "interface", "input", "enum", "union", "scalar") for n in BAD_NAMES if n])
    def _(d, pos, rng):
        _fresh_type(d, pos[0], pos[1] + str(next(_fresh)))   # unique, still ill-formed
        return "invalidTypeName"

    @add("empty_type", lambda d: [(k,) for k in ("object", "interface", "input", "enum", "union")])
    def _(d, pos, rng):
        _fresh_type(d, pos[0], fresh("Em"), empty=True)
        return {"object": "noFields", "interface": "noFields", "input": "noFields", "enum": "enumEmpty", "union": "unionEmpty"}[pos[0]]

    @add("dup_field", lambda d: _fields(d))
    def _(d, pos, rng):
        t = gs.desc_type(d, pos[0])
        t["fields"].append(copy.deepcopy(t["fields"][pos[1]]))
        return "dupField"

    @add("dup_arg", lambda d: _fields(d, need_args=True))
    def _(d, pos, rng):
        f = gs.desc_type(d, pos[0])["fields"][pos[1]]
        f["args"].append(copy.deepcopy(rng.choice(f["args"])))
        return "dupArg"

    @add("dup_input_field", lambda d: _composites(d, ("input",)))
    def _(d, pos, rng):
        t = gs.desc_type(d, pos)
        t["fields"].append(copy.deepcopy(rng.choice(t["fields"])))
        return "dupField"

    @add("dup_directive_arg", lambda d: [()])
    def _(d, pos, rng):
        d["directives"].append({"name": fresh("dd"), "locations": ["FIELD"], "desc": None,
                                "args": [_a("x", ("named", "Int")), _a("y", ("named", "Int")), _a("x", ("named", "String"))]})
        return "dirDupArg"

    @add("dup_union_member", lambda d: _composites(d, ("union",)))
    def _(d, pos, rng):
        t = gs.desc_type(d, pos)
        t["members"].append(rng.choice(t["members"]))
        return "unionDup"

    @add("dup_interface", lambda d: [t["name"] for t in d["types"] if t["kind"] == "object" and t.get("interfaces")])
    def _(d, pos, rng):
        t = gs.desc_type(d, pos)
        t["interfaces"].append(rng.choice(t["interfaces"]))
        return "dupInterface"

    @add("field_input_type", lambda d: [(t, i) for t in _composites(d) for i in _composites(d, ("input",))])
    def _(d, pos, rng):
        gs.desc_type(d, pos[0])["fields"].append(_f(fresh("fi"), _wrap(rng, pos[1])))
        return "fieldNotOutput"

    @add("arg_output_type", lambda d: [(t, i, o) for (t, i) in _fields(d) for o in _composites(d, ("object", "interface", "union"))[:4]])
    def _(d, pos, rng):
        _add_arg(gs.desc_type(d, pos[0])["fields"][pos[1]], _a(fresh("ao"), _wrap(rng, pos[2])))
        return "argNotInput"

    @add("input_field_output_type", lambda d: [(t, o) for t in _composites(d, ("input",)) for o in _composites(d, ("object", "interface", "union"))[:4]])
    def _(d, pos, rng):
        gs.desc_type(d, pos[0])["fields"].append(_a(fresh("io"), _wrap(rng, pos[1])))
        return "inputFieldNotInput"

    @add("directive_arg_output_type", lambda d: [(o,) for o in _composites(d, ("object", "interface", "union"))[:4]])
    def _(d, pos, rng):
        d["directives"].append({"name": fresh("do"), "locations": ["FIELD"], "args": [_a("x", _wrap(rng, pos[0]))], "desc": None})
        return "dirArgNotInput"

    def impls(d):
        return [(t["name"], i) for t in d["types"] if t["kind"] == "object" for i in (t.get("interfaces") or [])
                if kind_of(d, i) == "interface"]

    def impl_fields(d, need_args=False):
        return [(o, i, f["name"]) for (o, i) in impls(d) for f in gs.desc_type(d, i)["fields"] if (f.get("args") or not need_args)]

    def _of(d, o, fname):
        return [f for f in gs.desc_type(d, o)["fields"] if f["name"] == fname][0]

    @add("iface_field_missing", lambda d: impl_fields(d))
    def _(d, pos, rng):
        t = gs.desc_type(d, pos[0])
        t["fields"] = [f for f in t["fields"] if f["name"] != pos[2]]
        return "ifaceFieldMissing"

    @add("iface_field_type", lambda d: impl_fields(d))
    def _(d, pos, rng):
        itype = [f for f in gs.desc_type(d, pos[1])["fields"] if f["name"] == pos[2]][0]["type"]
        # other interfaces of the object declaring the same field name would add constraints: label with all of them
        cands = type_variants(d, itype)
        new = rng.choice(cands)
        _of(d, pos[0], pos[2])["type"] = new
        ok = True
        for i in gs.desc_type(d, pos[0])["interfaces"]:
            for f in gs.desc_type(d, i)["fields"]:
                if f["name"] == pos[2] and not spec_subtype(d, new, f["type"]):
                    ok = False
        if ok and not is_output(d, new):
            return "fieldNotOutput"
        return None if ok else "ifaceFieldType"

    @add("iface_arg_missing", lambda d: impl_fields(d, need_args=True))
    def _(d, pos, rng):
        f = _of(d, pos[0], pos[2])
        ia = rng.choice([f2 for f2 in gs.desc_type(d, pos[1])["fields"] if f2["name"] == pos[2]][0]["args"])
        f["args"] = [a for a in f["args"] if a["name"] != ia["name"]]
        return "ifaceArgMissing"

    @add("iface_arg_type", lambda d: impl_fields(d, need_args=True))
    def _(d, pos, rng):
        f = _of(d, pos[0], pos[2])
        ia = rng.choice([f2 for f2 in gs.desc_type(d, pos[1])["fields"] if f2["name"] == pos[2]][0]["args"])
        for a in f["args"]:
            if a["name"] == ia["name"]:
                cands = [v for v in type_variants(d, a["type"]) if is_input(d, v)]
                a["type"] = rng.choice(cands)
                a["default"] = None
        return "ifaceArgType"

    @add("extra_required_arg", lambda d: impl_fields(d))
    def _(d, pos, rng):
        _add_arg(_of(d, pos[0], pos[2]), _a(fresh("xr"), ("nonNull", ("named", "Int"))))
        return "extraRequiredArg"

    @add("extra_optional_arg", lambda d: impl_fields(d))
    def _(d, pos, rng):
        _add_arg(_of(d, pos[0], pos[2]), _a(fresh("xo"), ("list", ("nonNull", ("named", "Int")))))
        return None

    @add("extra_nonnull_default_arg", lambda d: impl_fields(d))
    def _(d, pos, rng):
        # `Int! = 3` is non-null but NOT required (spec 3.6: additional arguments "must not be required")
        _add_arg(_of(d, pos[0], pos[2]), _a(fresh("xd"), ("nonNull", ("named", "Int")), default="3"))
        return None

    def bad_default_for(d, rng):
        """(type, python value) pairs the default-value rule must refuse"""
        en = _first(d, "enum")
        inp = _first(d, "input")
        c = [(("nonNull", ("named", "Int")), None), (("named", "Int"), "1"), (("named", "Int"), 2 ** 40), (("named", "Int"), True),
             (("named", "Int"), 1.5), (("list", ("nonNull", ("named", "Int"))), [1, None]), (("list", ("named", "Int")), 3),
             (("nonNull", ("list", ("list", ("nonNull", ("named", "String"))))), [["a"], [None]])]
        if en:
            c += [(("named", en), "NOT_A_MEMBER"), (("list", ("named", en)), ["NOT_A_MEMBER"])]
        if inp:
            c += [(("named", inp), 5), (("named", inp), ["x"])]
        return rng.choice(c)

    @add("bad_default_arg", lambda d: _fields(d, kinds=("object",)))
    def _(d, pos, rng):
        t, v = bad_default_for(d, rng)
        a = _a(fresh("bd"), t, default="1")
        a["default_py"] = v
        _add_arg(gs.desc_type(d, pos[0])["fields"][pos[1]], a)
        return "argDefault"

    @add("bad_default_input_field", lambda d: _composites(d, ("input",)))
    def _(d, pos, rng):
        t, v = bad_default_for(d, rng)
        if gs.ty_base(t) == pos:
            t, v = ("named", "Int"), "1"
        a = _a(fresh("bi"), t, default="1")
        a["default_py"] = v
        gs.desc_type(d, pos)["fields"].append(a)
        return "inputFieldDefault"

    @add("bad_default_directive_arg", lambda d: [()])
    def _(d, pos, rng):
        t, v = bad_default_for(d, rng)
        a = _a("x", t, default="1")
        a["default_py"] = v
        d["directives"].append({"name": fresh("db"), "locations": ["FIELD"], "args": [a], "desc": None})
        return "dirArgDefault"

    @add("good_python_defaults", lambda d: _fields(d, kinds=("object",)))
    def _(d, pos, rng):
        en = _first(d, "enum")
        f = gs.desc_type(d, pos[0])["fields"][pos[1]]
        for t, v in [(("named", "Int"), -2 ** 31), (("list", ("named", "Int")), [1, None, 2 ** 31 - 1]), (("named", "Float"), "anything"),
                     (("nonNull", ("list", ("named", "String"))), []), (("named", "Int"), None)] + ([(("named", en), gs.desc_type(d, en)["values"][0]["name"])] if en else []):
            a = _a(fresh("gd"), t, default="1")
            a["default_py"] = v
            _add_arg(f, a)
        return None

    @add("enum_none_value", lambda d: _composites(d, ("enum",)))
    def _(d, pos, rng):
        gs.desc_type(d, pos)["values"].append({"name": fresh("NONE"), "deprecated": None, "desc": None, "py_value": None})
        return "enumValueNone"

    @add("union_member_kind", lambda d: [(u, k) for u in _composites(d, ("union",)) for k in ("scalar", "interface", "enum", "input", "union")], code_only=False)
    def _(d, pos, rng):
        n = _first(d, pos[1]) if pos[1] != "scalar" else rng.choice(["Int", _first(d, "scalar") or "String"])
        if n is None or n == pos[0]:
            n = "Int"
        gs.desc_type(d, pos[0])["members"].append(n)
        return "unionMemberNotObject"

    @add("no_query", lambda d: [()], code_only=True)
    def _(d, pos, rng):
        d["query"] = None
        return "noQuery"

    @add("root_not_object", lambda d: [(w, k) for w in ("query", "mutation", "subscription") for k in ("interface", "union", "enum", "input", "scalar")], code_only=True)
    def _(d, pos, rng):
        n = _first(d, pos[1]) or "Int"
        if pos[0] == "query":
            # keep the old Query type registered
            pass
        d[pos[0]] = n
        return {"query": "queryNotObject", "mutation": "mutationNotObject", "subscription": "subscriptionNotObject"}[pos[0]]

    @add("implements_object", lambda d: [t["name"] for t in d["types"] if t["kind"] == "object" and t["name"] != "Query"])
    def _(d, pos, rng):
        a = gs.desc_type(d, pos)
        nm = fresh("Imp")
        d["types"].append({"kind": "object", "name": nm, "desc": None, "interfaces": [pos], "fields": copy.deepcopy(a["fields"])})
        for f in d["types"][-1]["fields"]:
            f.pop("resolver", None)
        _ref_from_query(d, nm)
        return "notInterface"

    # ---- resolver signatures (code-built) -------------------------------------------------
    def plain_fields(d, need_args=False):
        out = []
        for (t, i) in _fields(d, kinds=("object",), need_args=need_args):     # only object fields are ever resolved
            f = gs.desc_type(d, t)["fields"][i]
            names = [a["name"] for a in f.get("args") or []]
            if all(n.isidentifier() and not n.startswith("__") for n in names) and len(set(names)) == len(names):
                out.append((t, i))
        return out

    def sig_with(f, drop=None, posonly=None, nodefault=None, extra=None, two=False):
        parts = ["root", "ctx"] if two else ["root", "ctx", "info"]
        po = []
        for a in f.get("args") or []:
            n = a["name"]
            if n == drop:
                continue
            if n == posonly:
                po.append(n)
                continue
            required = a["type"][0] == "nonNull" and a.get("default") is None
            parts.append(n if (required or n == nodefault) else n + "=None")
        # python: no non-default parameter after a default one -> put bare ones first
        bare = [p for p in parts if "=" not in p]
        dfl = [p for p in parts if "=" in p]
        if extra:
            bare.append(extra)
        s = ", ".join(bare + dfl)
        if po:
            s = ", ".join(po) + ", /, " + s
        return s

    @add("res_missing_param", lambda d: plain_fields(d, need_args=True), code_only=True)
    def _(d, pos, rng):
        f = gs.desc_type(d, pos[0])["fields"][pos[1]]
        f["resolver"] = sig_with(f, drop=rng.choice(f["args"])["name"])
        return "resMissingParam"

    @add("res_missing_param_kwargs_ok", lambda d: plain_fields(d, need_args=True), code_only=True)
    def _(d, pos, rng):
        f = gs.desc_type(d, pos[0])["fields"][pos[1]]
        f["resolver"] = sig_with(f, drop=rng.choice(f["args"])["name"]) + ", **kwargs"
        return None

    @add("res_pos_only", lambda d: plain_fields(d, need_args=True), code_only=True)
    def _(d, pos, rng):
        f = gs.desc_type(d, pos[0])["fields"][pos[1]]
        f["resolver"] = sig_with(f, posonly=rng.choice(f["args"])["name"])
        return "resPosOnly"

    @add("res_needs_default", lambda d: [(t, i) for (t, i) in plain_fields(d, need_args=True)
                                         if any(a["type"][0] != "nonNull" and a.get("default") is None
                                                for a in gs.desc_type(d, t)["fields"][i]["args"])], code_only=True)
    def _(d, pos, rng):
        f = gs.desc_type(d, pos[0])["fields"][pos[1]]
        a = rng.choice([a for a in f["args"] if a["type"][0] != "nonNull" and a.get("default") is None])
        f["resolver"] = sig_with(f, nodefault=a["name"])
        return "resNeedsDefault"

    @add("res_two_positional", lambda d: plain_fields(d), code_only=True)
    def _(d, pos, rng):
        f = gs.desc_type(d, pos[0])["fields"][pos[1]]
        f["resolver"] = sig_with(f, two=True) + rng.choice(["", ", **kw"])
        # with arguments the third positional value lands on the first argument's parameter: a collision
        return "resCollides" if f.get("args") else "resPositional"

    @add("res_extra_required", lambda d: plain_fields(d), code_only=True)
    def _(d, pos, rng):
        f = gs.desc_type(d, pos[0])["fields"][pos[1]]
        f["resolver"] = sig_with(f, extra="zz_extra") + rng.choice(["", ", **kw"])
        return "resExtraRequired"

    @add("res_subscription_bad", lambda d: plain_fields(d), code_only=True)
    def _(d, pos, rng):
        f = gs.desc_type(d, pos[0])["fields"][pos[1]]
        f["subscription_resolver"] = sig_with(f, two=True)
        return "resCollides" if f.get("args") else "resPositional"

    @add("res_kwonly_required", lambda d: plain_fields(d), code_only=True)
    def _(d, pos, rng):
        f = gs.desc_type(d, pos[0])["fields"][pos[1]]
        f["resolver"] = rng.choice(["*a, zz_kw, **kw", "root, *a, zz_kw", "root, ctx, *a, zz_kw, **kw"])
        return "resExtraRequired"

    @add("res_collides", lambda d: plain_fields(d), code_only=True)
    def _(d, pos, rng):
        f = gs.desc_type(d, pos[0])["fields"][pos[1]]
        f["args"].append(_a(rng.choice(["root", "ctx", "info"]), ("named", "Int")))
        f["resolver"] = rng.choice(["root, ctx, info, **kw", "root, ctx, info, *a, **kw"])
        return "resCollides"

    @add("res_var_named_kwargs_ok", lambda d: [p for p in plain_fields(d) if p[0] == "Query"], code_only=True)
    def _(d, pos, rng):
        f = gs.desc_type(d, pos[0])["fields"][pos[1]]
        _add_arg(f, _a("kwargs", ("named", "Int")))
        f["resolver"] = "root, ctx, info, **kwargs"
        return None

    @add("res_not_callable", lambda d: plain_fields(d, ) and [p for p in plain_fields(d) if kind_of(d, p[0]) == "object"], code_only=True)
    def _(d, pos, rng):
        f = gs.desc_type(d, pos[0])["fields"][pos[1]]
        f[rng.choice(["resolver", "resolver", "subscription_resolver"])] = NOT_CALLABLE + ":" + rng.choice(["int", "str", "object", "dict", "tuple"])
        return "resNotCallable"

    @add("res_type_default_not_callable", lambda d: [t["name"] for t in d["types"] if t["kind"] == "object" and any(not f.get("resolver") for f in t["fields"])], code_only=True)
    def _(d, pos, rng):
        gs.desc_type(d, pos)["default_resolver"] = NOT_CALLABLE + ":" + rng.choice(["object", "dict", "str"])
        return "resNotCallable"

    @add("iface_field_unused_resolver", lambda d: [(t, i) for (t, i) in _fields(d) if kind_of(d, t) == "interface"], code_only=True)
    def _(d, pos, rng):
        # an interface field is never resolved: whatever sits in its resolver slot cannot break a call
        gs.desc_type(d, pos[0])["fields"][pos[1]]["resolver"] = rng.choice(["root, ctx", "root", NOT_CALLABLE + ":int"])
        return None

    @add("strict_default_with_own_resolvers", lambda d: [()] if any(t["kind"] == "interface" for t in d["types"]) else [], code_only=True)
    def _(d, pos, rng):
        # schema-wide default resolver without **kwargs; every OBJECT field with arguments has its own compatible resolver
        d["default_resolver"] = "root, ctx, info"
        for t in d["types"]:
            if t["kind"] == "object":
                t["default_resolver"] = None
                for f in t["fields"]:
                    if f.get("args") and not f.get("resolver"):
                        f["resolver"] = "root, ctx, info, **kw"
                    if f.get("resolver") and f["resolver"].startswith("root, ctx") and "**" not in f["resolver"] and f.get("args"):
                        f["resolver"] = "root, ctx, info, **kw"
        return None

    @add("res_type_default_bad", lambda d: [t["name"] for t in d["types"] if t["kind"] == "object" and t["name"] != "Query"
                                            and any(not f.get("resolver") for f in t["fields"])], code_only=True)
    def _(d, pos, rng):
        gs.desc_type(d, pos)["default_resolver"] = "root, ctx"
        return "resPositional"

    return L


INJECTIONS = _mk_injections()
INJ = {i.name: i for i in INJECTIONS}
FIX_DEPENDENT = {"implements_object", "bad_name_input_field"}


def is_output(d, t):
    return kind_of(d, gs.ty_base(t)) in ("scalar", "enum", "object", "interface", "union")


def is_input(d, t):
    return kind_of(d, gs.ty_base(t)) in ("scalar", "enum", "input")


def touched_type(inj, pos):
    """The existing type an injection edits (None: only fresh elements) — used to keep labels independent."""
    if isinstance(pos, str):
        return pos
    if isinstance(pos, tuple) and pos and isinstance(pos[0], str) and inj.name not in (
            "bad_name_directive", "bad_name_directive_arg", "bad_type_name", "empty_type", "directive_arg_output_type",
            "root_not_object"):
        return pos[0]
    return None



# ---------------------------------------------------------------------------------------------
# shrinking (only runs on failures)
# ---------------------------------------------------------------------------------------------

def failure_class(verdict, errs, labels):
    """None = the labelled expectation holds; else a short class name."""
    rules = Counter(r for r, _ in errs)
    expected = Counter(r for _, r in labels if r)
    if verdict.startswith("internal"):
        return verdict
    if not expected:
        return None if verdict == "valid" else "rejected:" + "+".join(sorted(rules))
    if verdict == "valid":
        return "accepted"
    missing = expected - rules
    return ("missing:" + "+".join(sorted(missing))) if missing else None


def smaller_descs(d):
    """Descriptions one step smaller than `d` (removing one element / one wrapper / one resolver)."""
    def without(path_fn):
        c = copy.deepcopy(d)
        path_fn(c)
        return c
    for i, t in reversed(list(enumerate(d["types"]))):
        if t["name"] != d.get("query"):
            yield without(lambda c, i=i: c["types"].pop(i))
    for i in range(len(d["directives"])):
        yield without(lambda c, i=i: c["directives"].pop(i))
    for key in ("mutation", "subscription", "default_resolver"):
        if d.get(key):
            yield without(lambda c, key=key: c.__setitem__(key, None))
    for i, t in enumerate(d["types"]):
        for key in ("fields", "values", "members", "interfaces"):
            for j in range(len(t.get(key) or [])):
                yield without(lambda c, i=i, key=key, j=j: c["types"][i][key].pop(j))
        if t.get("default_resolver"):
            yield without(lambda c, i=i: c["types"][i].__setitem__("default_resolver", None))
        if t["kind"] in ("object", "interface"):
            for j, f in enumerate(t["fields"]):
                for k in range(len(f.get("args") or [])):
                    yield without(lambda c, i=i, j=j, k=k: c["types"][i]["fields"][j]["args"].pop(k))
                if f.get("resolver") is not None:
                    yield without(lambda c, i=i, j=j: c["types"][i]["fields"][j].__setitem__("resolver", None))
                if f["type"][0] != "named":
                    yield without(lambda c, i=i, j=j: c["types"][i]["fields"][j].__setitem__("type", c["types"][i]["fields"][j]["type"][1]))
                elif f["type"][1] not in ("Int",) and kind_of(d, f["type"][1]) != "input":
                    yield without(lambda c, i=i, j=j: c["types"][i]["fields"][j].__setitem__("type", ("named", "Int")))
    for i, dd in enumerate(d["directives"]):
        for k in range(len(dd.get("args") or [])):
            yield without(lambda c, i=i, k=k: c["directives"][i]["args"].pop(k))


def quiet_build(builder, desc):
    try:
        return builder(desc)
    except BaseException as e:  # noqa  (anything: the candidate is simply not usable)
        if isinstance(e, (KeyboardInterrupt, SystemExit)):
            raise
        return None


def model_guard(ctx, labels):
    """A candidate is only kept if the MODEL (independent of validation.py) still sees what the labels say:
    the injected rules are violated / the schema is valid. None when the model cannot be asked."""
    if not ctx.model_ok or ctx.broken_obligations:
        return None
    expected = Counter(r for _, r in labels if r)

    def guard(schema):
        try:
            ans = ctx.driver.ask([{"op": "validate", "schema": dump(schema)}])[0]
        except Exception:  # noqa
            return False
        rules = Counter(e["rule"] for e in ans.get("errors", []))
        return (not (expected - rules)) if expected else ans.get("valid") is True
    return guard


def shrink_desc(builder, desc, labels, cls, guard, budget=300):
    """Greedy one-step reduction keeping the failure class AND the labelled fact (guard). Returns (desc, steps)."""
    cur, steps = desc, 0
    if guard is None:
        return cur, 0
    progress = True
    while progress and budget > 0:
        progress = False
        for cand in smaller_descs(cur):
            budget -= 1
            if budget <= 0:
                break
            s = quiet_build(builder, cand)
            if s is None:
                continue
            v, e = real_validate(s)
            if failure_class(v, e, labels) == cls and guard(s):
                cur, steps, progress = cand, steps + 1, True
                break
    return cur, steps


def shrink_pred(builder, desc, pred, budget=250):
    """Greedy one-step reduction keeping `pred(schema)` (a statement about the real code AND the spec side)."""
    cur, steps = desc, 0
    progress = True
    while progress and budget > 0:
        progress = False
        for cand in smaller_descs(cur):
            budget -= 1
            if budget <= 0:
                break
            s = quiet_build(builder, cand)
            if s is None:
                continue
            try:
                ok = pred(s)
            except Exception:  # noqa
                ok = False
            if ok:
                cur, steps, progress = cand, steps + 1, True
                break
    return cur, steps


def missing_instances(schema, opt=None):
    """rules of violation instances of the current dump that the real report (default call / with the option) lacks"""
    v, e = real_validate(schema, resolver_validation=opt)
    if v.startswith("internal"):
        return Counter()
    return spec_rules(dump(schema), opt is not False) - Counter(r for r, _ in e)


def shape_of(desc):
    """Minimal structural feature of a shrunk description: kinds present (user types) with member counts."""
    parts = []
    for t in desc["types"]:
        n = len(t.get("fields") or t.get("values") or t.get("members") or [])
        parts.append("%s%d%s" % (t["kind"][:3], n, "i%d" % len(t["interfaces"]) if t.get("interfaces") else ""))
    return ",".join(sorted(parts)) + (";d%d" % len(desc["directives"]) if desc["directives"] else "")


def shrink_history(builder, desc, ops):
    """Drop operations while a validate() still accepts a schema that a fresh validation rejects."""
    def stale(ops_):
        s = quiet_build(builder, desc)
        if s is None:
            return None
        try:
            trace, _ = run_history_real(s, ops_)
        except Exception:  # noqa
            return None
        for idx, (o, t) in enumerate(zip(ops_, trace)):
            if o["op"] == "validate" and t["outcome"] == "ok" and t["fresh_valid"] is False:
                return idx, trace
        return None
    cur = list(ops)
    progress = True
    while progress:
        progress = False
        for i in range(len(cur)):
            cand = cur[:i] + cur[i + 1:]
            if cand and stale(cand) is not None:
                cur, progress = cand, True
                break
        if not progress:
            # shrink the entries of replace requests
            for i, o in enumerate(cur):
                if o["op"] != "replace_types":
                    continue
                for key in ("entries", "dir_entries"):
                    for j in range(len(o.get(key) or [])):
                        o2 = dict(o)
                        o2[key] = o[key][:j] + o[key][j + 1:]
                        cand = cur[:i] + [o2] + cur[i + 1:]
                        if stale(cand) is not None:
                            cur, progress = cand, True
                            break
                    if progress:
                        break
                if progress:
                    break
    r = stale(cur)
    return (cur, r[0], r[1]) if r else (list(ops), None, None)

# ---------------------------------------------------------------------------------------------
# one case: build, run the real validator, compare with the labels and with the model
# ---------------------------------------------------------------------------------------------

class Batch:
    """Collects model requests so that the driver is called once per few hundred cases."""

    def __init__(self, ctx):
        self.ctx = ctx
        self.items = []

    def add(self, req, cont):
        self.items.append((req, cont))
        if len(self.items) >= 150:
            self.flush()

    def flush(self):
        if not self.items:
            return
        if self.ctx.model_ok:
            answers = self.ctx.driver.ask([r for r, _ in self.items])
            for (r, cont), a in zip(self.items, answers):
                cont(a)
        self.items = []


def sig_of(labels):
    return "+".join(sorted({"%s>%s" % (n, r) for n, r in labels})) or "none"


def check_schema(ctx, batch, schema, labels, how, info, desc=None):
    """labels: [(injection name, expected rule or None)] or None (no labelled expectation: the expectation is the
    set of violation instances of the dump). Direct oracles + queue the model comparison."""
    ctx.count()
    no_labels = labels is None
    labels = labels or []
    verdict, errs = real_validate(schema)
    try:
        dmp = dump(schema)
    except Exception as e:  # noqa
        ctx.stat("dump-failed:" + type(e).__name__)
        return verdict, errs
    rules = Counter(r for r, _ in errs)
    ctx.stat("verdict:" + verdict)
    for r in rules:
        ctx.stat("rule:" + r, rules[r])
    expected = Counter(r for _, r in labels if r)
    key = canon_schema.canon(dmp)
    if verdict == "invalid" or any(t.get("interfaces") for t in dmp["types"]) or '"resolver": {' in key:
        ctx.nontrivial(key)
    detail = {"how": how, "labels": labels, "info": info, "schema": dmp,
              "real": {"verdict": verdict, "errors": canon_errs(errs)}}
    if desc is not None:
        detail["desc"] = desc
    # --- all violation instances of the CURRENT description are reported together (spec side, Python) -----
    spec_fail = False
    builder0 = {"code": build_code, "sdl": build_sdl, "perm": build_code}.get(how)

    def shrunk(pred, tag):
        """detail of the failure, on a reduced description when the case can be rebuilt"""
        seen_sigs = ctx.extra.setdefault("_shrunk", set())
        if desc is None or builder0 is None or tag in seen_sigs:
            return detail
        seen_sigs.add(tag)
        small, steps = shrink_pred(builder0, desc, pred)
        s2 = quiet_build(builder0, small) if steps else None
        if s2 is None:
            return detail
        v2, e2 = real_validate(s2)
        return {"how": how, "labels": None, "info": info, "desc": small, "shrunk_steps": steps, "schema": dump(s2),
                "real": {"verdict": v2, "errors": canon_errs(e2)}}
    if not verdict.startswith("internal"):
        want = spec_rules(dmp, True)
        missing, extra = want - rules, rules - want
        if missing:
            spec_fail = True
            mset = set(missing)
            dd = shrunk(lambda s2: set(missing_instances(s2)) == mset, ("missing", tuple(sorted(mset))))
            ctx.fail("violation-instance-not-reported:%s" % "+".join(sorted(missing)),
                     "a violation instance of the schema has no error of its rule in the report (not all violations reported together)",
                     dict(dd, missing=sorted(missing.items())))
        elif extra and not want:
            spec_fail = True
            ctx.fail("valid-schema-rejected:%s:spec" % "+".join(sorted(extra)), "a schema without any violation instance is rejected",
                     dict(detail, expected_rules=[]))
        elif extra:
            ctx.fail("corr:spec-extra:%s" % "+".join(sorted(extra)), "errors reported beyond the violation instances of the schema",
                     dict(detail, expected_rules=sorted(want.items())), kind="correspondence")
        # --- the resolver-signature rule is about CALLABILITY: reported iff some admissible call does not bind ----
        unc = uncallable_resolvers(schema)
        if unc is not None and bool(unc) != any(r in RESOLVER_RULES for r in rules):
            kind_ = "accepts-uncallable" if unc else "rejects-callable"
            res_rules = sorted(r for r in rules if r in RESOLVER_RULES)

            def pred_c(s2, want_unc=bool(unc)):
                u2 = uncallable_resolvers(s2)
                v2, e2 = real_validate(s2)
                return u2 is not None and bool(u2) == want_unc and any(r in RESOLVER_RULES for r, _ in e2) != want_unc
            dd = shrunk(pred_c, ("callable", kind_))
            ctx.fail("resolver-rule:%s%s" % (kind_, (":" + "+".join(res_rules)) if res_rules else ""),
                     "the resolver-signature rule %s" % ("accepts a resolver that cannot be called with the declared arguments" if unc
                                                         else "rejects a resolver that every admissible call binds"),
                     dict(dd, uncallable=unc[:3] if unc else []))
        # --- public option enable_resolver_validation: True = default; False only drops the resolver rules -----
        for opt in (True, False):
            vo, eo = real_validate(schema, resolver_validation=opt)
            ro = Counter(r for r, _ in eo)
            exp_o = rules if opt else Counter({r: c for r, c in rules.items() if r not in RESOLVER_RULES})
            lost = exp_o - ro
            if not lost and not spec_fail:
                lost = (want if opt else spec_rules(dmp, False)) - ro
            if vo.startswith("internal") or lost or (ro - exp_o):
                lset = set(lost)

                def pred(s2, opt=opt, lset=lset):
                    v1, e1 = real_validate(s2)
                    r1 = Counter(r for r, _ in e1)
                    v3, e3 = real_validate(s2, resolver_validation=opt)
                    r3 = Counter(r for r, _ in e3)
                    ex = r1 if opt else Counter({r: c for r, c in r1.items() if r not in RESOLVER_RULES})
                    return set((ex - r3) + missing_instances(s2, opt)) >= lset and bool(lset or (r3 - ex))
                dd = shrunk(pred, ("option", opt, tuple(sorted(lset)))) if lset else detail
                ctx.fail("option-enable_resolver_validation=%s:%s" % (opt, ("lost=" + "+".join(sorted(lset))) if lset else ("extra=" + "+".join(sorted(ro - exp_o)) or vo)),
                         "validate_schema(schema, enable_resolver_validation=%s) does not report the default call's %s" % (opt, "rules" if opt else "non-resolver rules"),
                         dict(dd, option=opt))
            elif not opt and ctx.model_ok:
                def cont_o(ans, ro=ro, dmp=dmp):
                    mo = Counter(e["rule"] for e in ans.get("errors", []))
                    if mo != ro:
                        ctx.fail("corr:validate:option-false", "model (resolver validation off) and validator differ",
                                 {"schema": dmp, "real": sorted(ro.items()), "model": sorted(mo.items())}, kind="correspondence")
                if any(r in RESOLVER_RULES for r in rules) or ctx.rng.random() < 0.15:
                    batch.add({"op": "validate", "schema": dmp, "resolver_validation": False}, cont_o)
    cls = None if (no_labels or spec_fail) else failure_class(verdict, errs, labels)
    if cls is not None:
        builder = {"code": build_code, "sdl": build_sdl, "perm": build_code}.get(how)
        flabels = labels
        if cls.startswith("missing:"):
            miss = set(cls[len("missing:"):].split("+"))
            flabels = [l for l in labels if l[1] in miss]
        elif cls == "accepted":
            flabels = sorted(set(l for l in labels if l[1]))
        else:
            flabels = []
        pre_sig = (cls, tuple(map(tuple, flabels)), how)
        seen_sigs = ctx.extra.setdefault("_shrunk", set())
        if desc is not None and builder is not None and pre_sig not in seen_sigs:
            seen_sigs.add(pre_sig)
            # shrink: keep only the labels that fail, then reduce the description while the class stays
            small, steps = shrink_desc(builder, desc, [tuple(l) for l in flabels], cls, model_guard(ctx, flabels))
            s2 = quiet_build(builder, small)
            if s2 is not None and steps:
                v2, e2 = real_validate(s2)
                detail = {"how": how, "labels": flabels, "info": info, "desc": small, "shrunk_steps": steps,
                          "schema": dump(s2), "real": {"verdict": v2, "errors": canon_errs(e2)}}
            else:
                detail = dict(detail, labels=flabels)
            shp = shape_of(detail.get("desc") or desc) if steps else "unshrunk"
        else:
            shp = "unshrunk"
        if cls.startswith("internal"):
            ctx.fail("validator-raises:%s:%s" % (cls, shp), "validate_schema raises something else than SchemaValidationError", detail)
        elif cls.startswith("rejected:"):
            ctx.fail("valid-schema-rejected:%s:%s" % (cls[len("rejected:"):], shp),
                     "a schema satisfying the type-system rules is rejected", detail)
        elif cls == "accepted":
            ctx.fail("violation-accepted:%s" % sig_of(flabels), "a schema breaking an implemented rule is accepted", detail)
        else:
            ctx.fail("violation-not-reported:%s" % sig_of(flabels),
                     "rejected, but an injected violation has no error attributable to its rule (not all reported together)", detail)
    if any(r.startswith("?") for r in rules):
        ctx.fail("corr:unattributed-message", "an error message matches no extracted format string", detail, kind="correspondence")

    def cont(ans):
        m_errs = sorted([[e["rule"], e["args"] if attribution_mode() == "static" else []] for e in ans.get("errors", [])])
        arity = {}
        for r, a in m_errs:
            arity[r] = len(a)
        r_errs = canon_errs(errs, arity)
        if (ans.get("valid") is not True) != (verdict != "valid") or m_errs != r_errs:
            extra_m = [e for e in m_errs if e not in r_errs]
            extra_r = [e for e in r_errs if e not in m_errs]
            cls = sorted({e[0] for e in extra_m} | {e[0] for e in extra_r}) or ["count"]
            d2 = dict(detail)
            d2["model"] = {"valid": ans.get("valid"), "only_model": extra_m, "only_real": extra_r}
            ctx.fail("corr:validate:%s" % "+".join(cls), "model and validator report different (rule, subject) sets", d2, kind="correspondence")
    batch.add({"op": "validate", "schema": dmp}, cont)
    return verdict, errs


def try_build(ctx, builder, desc, order=None):
    from py_gql.exc import GraphQLError
    try:
        return builder(desc, order)
    except (GraphQLError, ValueError, TypeError, SyntaxError, KeyError) as e:
        ctx.stat("build-refused:%s:%s" % (builder.__name__, type(e).__name__))
        return None
    except RecursionError:
        ctx.stat("build-refused:%s:RecursionError" % builder.__name__)
        return None


def apply_injections(rng, desc, k, only=None, allowed=None):
    """Apply k injections on distinct existing types. Returns (desc', labels, code_only)."""
    d = copy.deepcopy(desc)
    labels, used, code_only = [], set(), False
    original = {t["name"] for t in desc["types"]}
    sdl_ok = True
    tries = 0
    while len(labels) < k and tries < 20:
        tries += 1
        inj = only if only is not None else rng.choice(allowed or INJECTIONS)
        poss = inj.positions(d)
        poss = [p for p in poss if touched_type(inj, p) is None
                or (touched_type(inj, p) in original and touched_type(inj, p) not in used)]
        if labels and inj.name in ("no_query", "root_not_object", "iface_field_missing", "iface_field_type", "iface_arg_missing",
                                   "iface_arg_type", "dup_interface", "implements_object", "strict_default_with_own_resolvers"):
            continue   # these interact with other labels (shared interface / root); used alone
        if not poss:
            if only is not None:
                break
            continue
        pos = rng.choice(poss)
        t = touched_type(inj, pos)
        if t in used:
            continue
        rule = inj.apply(d, pos, rng)
        labels.append((inj.name, rule))
        code_only = code_only or inj.code_only
        if inj.name.startswith("bad_default") or inj.name in ("good_python_defaults", "enum_none_value"):
            code_only = True        # Python values: not expressible in SDL
        elif inj.name.startswith("bad_") and pos[-1] not in LEXABLE_BAD:
            sdl_ok = False
        if t:
            used.add(t)
            # implementers / interfaces of a touched type are related: keep them out of later injections
            td = gs.desc_type(d, t)
            if td:
                used.update(td.get("interfaces") or [])
                used.update(x["name"] for x in d["types"] if t in (x.get("interfaces") or []))
        if only is not None or inj.name == "strict_default_with_own_resolvers":
            break           # that edit fixes the resolvers of every field: nothing is added after it
    return d, labels, code_only or not sdl_ok


def strip_resolvers(desc):
    d = copy.deepcopy(desc)
    d.pop("default_resolver", None)
    for t in d["types"]:
        t.pop("default_resolver", None)
        for f in t.get("fields") or []:
            f.pop("resolver", None)
            f.pop("subscription_resolver", None)
    return d


# ---------------------------------------------------------------------------------------------
# streams
# ---------------------------------------------------------------------------------------------

def stream_valid_and_injected(ctx, batch):
    rng = ctx.rng
    fixed = safe_fix_applied()
    n = ctx.n(60, 500)
    for i in range(n):
        if ctx.time_left() < 25:
            break
        size = rng.choice([0, 0, 1, 1, 2, 3])
        base = base_schema(rng, size, cluster=(i % 4 != 3))
        with_res = add_resolvers(rng, copy.deepcopy(base))
        # A: valid, both builders
        s = try_build(ctx, build_code, with_res)
        if s is not None:
            check_schema(ctx, batch, s, [], "code", {"size": size}, desc=with_res)
            if i < 3:
                ctx.sample({"stream": "valid", "sdl": gs.to_sdl(base, descriptions=False)[:400]})
        s = try_build(ctx, build_sdl, base)
        if s is not None:
            check_schema(ctx, batch, s, [], "sdl", {"size": size}, desc=base)
        # B: injections
        for j in range(ctx.n(6, 8)):
            k = rng.choice([1, 1, 2, 3])
            d, labels, code_only = apply_injections(rng, with_res, k)
            if not labels:
                continue
            ctx.stat("injections:%d" % len(labels))
            for nme, _ in labels:
                ctx.stat("inj:" + nme)
            s = try_build(ctx, build_code, d)
            if s is not None:
                check_schema(ctx, batch, s, labels, "code", {"size": size}, desc=d)
            if not code_only and rng.random() < 0.5:
                s = try_build(ctx, build_sdl, strip_resolvers(d))
                if s is not None:
                    check_schema(ctx, batch, s, [l for l in labels if not l[0].startswith("res_")], "sdl", {"size": size}, desc=strip_resolvers(d))
    ctx.extra["fix_C13_S4_S6_present"] = fixed


def stream_every_position(ctx, batch):
    """Bounded-exhaustive: every injection at every position of a few small schemas."""
    rng = ctx.rng
    total = 0
    for b in range(ctx.n(2, 6)):
        base = add_resolvers(rng, base_schema(rng, 0 if b % 2 == 0 else 1, cluster=True), p=0.2)
        for inj in INJECTIONS:
            poss = inj.positions(base)
            if len(poss) > ctx.n(12, 60):
                poss = rng.sample(poss, ctx.n(12, 60))
            for pos in poss:
                if ctx.time_left() < 20:
                    return
                d = copy.deepcopy(base)
                rule = inj.apply(d, pos, rng)
                s = try_build(ctx, build_code, d)
                if s is None:
                    continue
                total += 1
                check_schema(ctx, batch, s, [(inj.name, rule)], "code", {"pos": repr(pos)}, desc=d)
    ctx.extra["every_position_cases"] = total


def stream_permutations(ctx, batch):
    rng = ctx.rng
    done = 0
    for i in range(ctx.n(6, 30)):
        if ctx.time_left() < 20:
            break
        base = gs.gen_schema(rng, size=0, with_descriptions=False, with_directives=False)
        if rng.random() < 0.6:
            base, labels, _ = apply_injections(rng, base, 1, allowed=[x for x in INJECTIONS if not x.name.startswith("res_")
                                                                        and x.name not in ("no_query", "root_not_object", "union_member_kind")])
        n = len(base["types"])
        if n > 5:
            continue
        perms = list(itertools.permutations(range(n)))
        if len(perms) > ctx.n(24, 120):
            perms = [perms[0]] + rng.sample(perms[1:], ctx.n(24, 120) - 1)
        for builder in (build_code, build_sdl):
            ref = None
            for p in perms:
                if builder is build_sdl:
                    order = list(p) + list(range(n, gs.n_definitions(base)))
                    s = try_build(ctx, lambda d, o: build_sdl(d, o), base, order)
                else:
                    s = try_build(ctx, build_code, base, list(p))
                if s is None:
                    continue
                ctx.count()
                verdict, errs = real_validate(s)
                cur = (verdict, sorted(Counter(r for r, _ in errs).items()))
                if ref is None:
                    ref = (cur, p)
                    check_schema(ctx, batch, s, [], "perm", {}, desc=base) if verdict == "valid" else None
                elif cur[0] != ref[0][0]:
                    ctx.fail("verdict-depends-on-type-order", "the verdict changes with the order in which types are supplied",
                             {"how": "perm:" + builder.__name__, "desc": base, "order_a": list(ref[1]), "order_b": list(p),
                              "verdict_a": ref[0], "verdict_b": cur})
                elif cur != ref[0]:
                    ctx.fail("corr:perm-rules", "same verdict but different rule multiset under type permutation",
                             {"desc": base, "a": ref[0], "b": cur}, kind="correspondence")
                done += 1
                # model on the permuted dump
                if builder is build_code:
                    dmp = dump(s)

                    def cont(ans, verdict=verdict, dmp=dmp):
                        if (ans.get("valid") is True) != (verdict == "valid"):
                            ctx.fail("corr:validate:perm", "model verdict differs on a permuted schema", {"schema": dmp, "real": verdict}, kind="correspondence")
                    batch.add({"op": "validate", "schema": dmp}, cont)
    ctx.extra["permutation_cases"] = done


def shuffle_deep(rng, d):
    """the same description with EVERY list reordered (Lean: Props.C13.perm_deep): types, fields, arguments, enum
    values, input fields, union members, implemented interfaces, directive arguments"""
    n = copy.deepcopy(d)
    rng.shuffle(n["types"])
    for t in n["types"]:
        for key in ("fields", "input_fields", "values", "members", "interfaces"):
            if isinstance(t.get(key), list):
                rng.shuffle(t[key])
        for f in t.get("fields", []) or []:
            if isinstance(f.get("args"), list):
                rng.shuffle(f["args"])
    for dd in n.get("directives", []) or []:
        if isinstance(dd.get("args"), list):
            rng.shuffle(dd["args"])
    return n


def stream_deep_permutations(ctx, batch):
    """fixed quota in every run (own PRNG per case): valid schemas and schemas with one labelled violation, every list of
    the description reordered: same verdict from the real validator, and the model agrees on the reordered dump"""
    import random
    done = 0
    for i in range(ctx.n(10, 60)):
        if ctx.time_left() < 15:
            break
        rng = random.Random(0xDEE9 + 7907 * i)
        base = add_arg_cluster(base_schema(rng, rng.choice([0, 1]), cluster=True))
        if i % 2:
            base, labels, _ = apply_injections(rng, base, 1, allowed=[x for x in INJECTIONS if not x.name.startswith("res_")
                                                                        and x.name not in ("no_query", "root_not_object", "union_member_kind")])
        s0 = try_build(ctx, build_code, base)
        if s0 is None:
            continue
        ref = real_validate(s0)[0]
        for k in range(2):
            d2 = shuffle_deep(rng, base)
            s2 = try_build(ctx, build_code, d2)
            if s2 is None:
                continue
            ctx.count()
            got = real_validate(s2)[0]
            ctx.stat("deep-perm:%s" % ref)
            ctx.nontrivial(("deep-perm", canon_schema.canon(dump(s2))))
            done += 1
            if got != ref:
                ctx.fail("verdict-depends-on-inner-order", "the verdict changes when the member lists of the description are reordered",
                         {"how": "deep-perm", "desc": base, "desc_b": d2, "verdict_a": ref, "verdict_b": got})
            dmp = dump(s2)

            def cont(ans, verdict=got, dmp=dmp):
                if (ans.get("valid") is True) != (verdict == "valid"):
                    ctx.fail("corr:validate:deep-perm", "model verdict differs on a reordered schema", {"schema": dmp, "real": verdict}, kind="correspondence")
            batch.add({"op": "validate", "schema": dmp}, cont)
    ctx.extra["deep_permutation_cases"] = done


def all_small_types(names, depth):
    cur = [("named", n) for n in names]
    out = list(cur)
    for _ in range(depth):
        nxt = []
        for t in cur:
            nxt.append(("list", t))
            if t[0] != "nonNull":
                nxt.append(("nonNull", t))
        out += nxt
        cur = nxt
    return out


def stream_subtype_and_names(ctx, batch):
    """F: is_subtype on all small pairs of a cluster schema (real vs spec = oracle; real vs model), names."""
    from py_gql.schema import ListType, NonNullType
    rng = ctx.rng
    base = add_cluster(gs.gen_schema(rng, size=0, with_descriptions=False, with_directives=False))
    s = build_code(base)
    names = ["IfX", "ObX", "UnX", "Int"] + [t["name"] for t in base["types"] if t["kind"] == "enum"][:1]
    if ctx.tier != "quick":
        names += ["Query"] + [t["name"] for t in base["types"] if t["kind"] == "input"][:1]
    # EXHAUSTIVE: every pair of type expressions with <= 3 wrappers over these names (no sampling: a defect may sit
    # on one pair of shapes only, e.g. [T!] vs [[T]])
    types = all_small_types(names, 3)
    ctx.extra["exhaustive_type_pairs"] = len(types) ** 2

    def live(t):
        if t[0] == "named":
            return s.types[t[1]]
        return (ListType if t[0] == "list" else NonNullType)(live(t[1]))
    pairs = [(a, b) for a in types for b in types]
    # `==` / `!=` on type expressions (helper of is_subtype and of the interface-argument rule) is structural equality
    lives = {t: live(t) for t in types}
    lives2 = {t: live(t) for t in types}       # distinct wrapper objects of the same shape
    for a, b in pairs:
        ctx.count()
        try:
            eq, ne = (lives[a] == lives2[b]), (lives[a] != lives2[b])
        except Exception as e:  # noqa
            eq, ne = "exc:" + type(e).__name__, None
        if eq is not (a == b) or (ne is not None and ne is not (a != b)):
            ctx.fail("type-equality-not-structural:%s" % shape(a, b), "`==` on type expressions differs from structural equality "
                     "(the interface-argument rule and is_subtype compare types with it)",
                     {"how": "type-eq", "a": gs.ty_str(a), "b": gs.ty_str(b), "eq": eq, "ne": ne, "desc": base})
            break
    real = []
    for a, b in pairs:
        ctx.count()
        try:
            r = bool(s.is_subtype(live(a), live(b)))
        except Exception as e:  # noqa
            r = "exc:" + type(e).__name__
        real.append(r)
        sp = spec_subtype(base, a, b)
        ctx.stat("subtype=%s" % r)
        if r is True and a != b:
            ctx.nontrivial(("sub", a, b))
        if r != sp:
            ctx.fail("is-subtype-differs-from-spec:%s" % shape(a, b), "Schema.is_subtype disagrees with the specification's covariance relation",
                     {"how": "subtype", "a": gs.ty_str(a), "b": gs.ty_str(b), "real": r, "spec": sp, "desc": base})
    dmp = dump(s)

    def cont(ans):
        for (a, b), r, m in zip(pairs, real, ans.get("sub", [])):
            if r != m:
                ctx.fail("corr:subtype:%s" % shape(a, b), "translated is_subtype and Schema.is_subtype differ",
                         {"a": gs.ty_str(a), "b": gs.ty_str(b), "real": r, "model": m}, kind="correspondence")
                break
    batch.add({"op": "subtype", "schema": dmp, "pairs": [{"a": gs.ty_json(a), "b": gs.ty_json(b)} for a, b in pairs]}, cont)

    # names
    from py_gql.schema.validation import _is_valid_name
    alphabet = "_aZ09-. \né٠$"
    cands = set(BAD_NAMES) | {"a", "_", "__", "_a_", "a\n", "a\n\n", "\n", "_1", "A9_", "__typename", "a__b", "9"}
    for _ in range(ctx.n(400, 4000)):
        cands.add("".join(rng.choice(alphabet) for _ in range(rng.randint(0, 5))))
    cands = sorted(cands)
    realn = [bool(_is_valid_name(c)) for c in cands]
    ctx.count(len(cands))

    def spec_name(c):
        return (len(c) > 0 and not c.startswith("__") and (c[0] == "_" or ("a" <= c[0] <= "z") or ("A" <= c[0] <= "Z"))
                and all(ch == "_" or ("a" <= ch <= "z") or ("A" <= ch <= "Z") or ("0" <= ch <= "9") for ch in c))
    for c, r in zip(cands, realn):
        if r:
            ctx.nontrivial(("name", c))
        if r != spec_name(c):
            ctx.fail("name-rule:%s" % ("accepts-bad" if r else "rejects-good"), "_is_valid_name disagrees with the Name grammar",
                     {"how": "name", "name": [ord(x) for x in c], "real": r})

    def contn(ans):
        for c, r, m in zip(cands, realn, ans.get("valid", [])):
            if r != m:
                ctx.fail("corr:name", "model name check differs from VALID_NAME_RE", {"name": [ord(x) for x in c], "real": r, "model": m}, kind="correspondence")
                break
    batch.add({"op": "name", "names": [{"cp": [ord(x) for x in c]} for c in cands]}, contn)


def shape(a, b):
    def sh(t):
        return "N" if t[0] == "named" else ("L(%s)" % sh(t[1]) if t[0] == "list" else "%s!" % sh(t[1]))
    return "%s<:%s" % (sh(a), sh(b))



# ---- G: one resolver callable shared by several fields ------------------------------------------

def spec_resolver_rules(args, sig):
    """Rules a resolver with parameter list `sig` breaks for a field with `args` (gen format)."""
    params = canon_schema.dump_resolver(make_resolver(sig))["params"]
    data = [{"name": a["name"], "python_name": a.get("python_name") or a["name"], "type": gs.ty_json(a["type"]),
             "has_default": a.get("default") is not None} for a in args]
    return spec_resolver_rules_data(data, params)


SHARED_ARG_VARIANTS = [
    # (label, args)  — identically NAMED arguments, different nullability / defaults / extras
    ("req", [("limit", ("nonNull", ("named", "Int")), None)]),
    ("opt", [("limit", ("named", "Int"), None)]),
    ("dflt", [("limit", ("named", "Int"), "1")]),
    ("req_dflt", [("limit", ("nonNull", ("named", "Int")), "1")]),
    ("list", [("limit", ("list", ("nonNull", ("named", "Int"))), None)]),
    ("extra_opt", [("limit", ("nonNull", ("named", "Int")), None), ("after", ("named", "String"), None)]),
    ("extra_req", [("limit", ("nonNull", ("named", "Int")), None), ("after", ("nonNull", ("named", "String")), None)]),
    ("none", []),
]
SHARED_SIGS = ["root, ctx, info, limit", "root, ctx, info, limit=None", "root, ctx, info, limit, after=None",
               "root, ctx, info, limit, after", "root, ctx, info, limit, **kw", "root, ctx, info, **kw", "root, ctx, limit",
               "root, ctx, info, limit, /", "root, ctx, info, *, limit", "root, ctx, info"]


def shared_desc(rng, variants, sig, same_type):
    """Object types whose `items` fields (or fields i0.. of ONE type) all use the same resolver callable."""
    def fld(name, v):
        return {"name": name, "type": ("named", "Int"), "deprecated": None, "desc": None, "resolver": sig, "resolver_key": "shared",
                "args": [{"name": n, "type": t, "default": d, "desc": None} for n, t, d in v[1]]}
    types = []
    if same_type:
        types.append({"kind": "object", "name": "Holder", "desc": None, "interfaces": [],
                      "fields": [fld("i%d" % i, v) for i, v in enumerate(variants)]})
    else:
        for i, v in enumerate(variants):
            types.append({"kind": "object", "name": "T%d_%s" % (i, v[0]), "desc": None, "interfaces": [], "fields": [fld("items", v)]})
    q = {"kind": "object", "name": "Query", "desc": None, "interfaces": [],
         "fields": [{"name": "q%d" % i, "type": ("named", t["name"]), "args": [], "deprecated": None, "desc": None} for i, t in enumerate(types)]}
    return {"types": types + [q], "directives": [], "query": "Query", "mutation": None, "subscription": None}


def stream_shared_resolvers(ctx, batch):
    """One callable on >= 2 fields (same type / different types), arguments with equal names but different
    nullability / defaults / extra arguments; every order of the types (and of the fields); zero, one and
    several offending fields. Expectation per field from `spec_resolver_rules`; the verdict and the reported
    multiset must not depend on the order."""
    rng = ctx.rng
    combos = [(a, b) for a in SHARED_ARG_VARIANTS for b in SHARED_ARG_VARIANTS if a[0] != b[0]]
    triples = [tuple(rng.sample(SHARED_ARG_VARIANTS, 3)) for _ in range(ctx.n(10, 60))]
    cases = [(c, sig, st) for c in combos + triples for sig in SHARED_SIGS for st in (False, True)]
    if len(cases) > ctx.n(90, 1200):
        cases = rng.sample(cases, ctx.n(90, 1200))
    done = 0
    for variants, sig, same_type in cases:
        if ctx.time_left() < 15:
            break
        base = shared_desc(rng, variants, sig, same_type)
        per_field = [spec_resolver_rules([{"name": n, "type": t, "default": d} for n, t, d in v[1]], sig) for v in variants]
        expected = sum(per_field, Counter())
        offending = sum(1 for c in per_field if c)
        ctx.stat("shared:offending-fields=%d" % min(offending, 3))
        labels = [("shared_resolver", r) for v, c in zip(variants, per_field) for r in c.elements()]
        n = len(variants)
        ref = None
        for p in itertools.permutations(range(n)):
            d = copy.deepcopy(base)
            if same_type:
                d["types"][0]["fields"] = [d["types"][0]["fields"][i] for i in p]
                order = None
            else:
                order = list(p) + [n]
            s = try_build(ctx, build_code, d, order)
            if s is None:
                continue
            done += 1
            info = {"sig": sig, "variants": [v[0] for v in variants], "same_type": same_type, "order": list(p)}
            if order is not None:      # replayable description: types already in the supplied order
                d["types"] = [d["types"][i] for i in order]
            verdict, errs = check_schema(ctx, batch, s, labels, "code", info, desc=d)
            cur = (verdict, sorted(Counter(r for r, _ in errs).items()))
            if ref is None:
                ref = (cur, list(p), d)
            elif cur[0] != ref[0][0]:
                ctx.fail("verdict-depends-on-order:shared-resolver:%s" % ("fields" if same_type else "types"),
                         "one resolver shared by several fields: the verdict changes with the order of the %s" % ("fields" if same_type else "types"),
                         {"how": "shared-order", "desc_a": ref[2], "desc_b": d, "verdict_a": ref[0], "verdict_b": cur, "info": info})
            elif cur != ref[0]:
                ctx.fail("report-depends-on-order:shared-resolver:%s" % ("fields" if same_type else "types"),
                         "one resolver shared by several fields: the reported rules change with the order (not all violations reported)",
                         {"how": "shared-order", "desc_a": ref[2], "desc_b": d, "verdict_a": ref[0], "verdict_b": cur, "info": info})
    ctx.extra["shared_resolver_cases"] = done


# ---- H: derived schemas (clone / transform / extend) and edits through public setters ------------------

def add_arg_cluster(d):
    """Interface whose field takes enum / input-object / custom-scalar typed arguments, two implementers."""
    d["types"] += [
        {"kind": "enum", "name": "Unit", "desc": None, "values": [{"name": "M", "deprecated": None, "desc": None}, {"name": "FT", "deprecated": None, "desc": None}]},
        {"kind": "input", "name": "AreaOpts", "desc": None, "fields": [_a("round", ("named", "Boolean")), _a("unit", ("named", "Unit"))]},
        {"kind": "scalar", "name": "Precise", "desc": None},
    ]

    def area():
        return _f("area", ("named", "Float"), [_a("unit", ("nonNull", ("named", "Unit"))), _a("opts", ("named", "AreaOpts")),
                                                  _a("p", ("list", ("named", "Precise")))])
    d["types"].append({"kind": "interface", "name": "Shape", "desc": None, "fields": [area(), _f("name", ("named", "String"))]})
    for nm in ("Square", "Circle"):
        d["types"].append({"kind": "object", "name": nm, "desc": None, "interfaces": ["Shape"],
                           "fields": [area(), _f("name", ("named", "String")), _f("side", ("named", "Precise"))]})
    d["types"].append({"kind": "union", "name": "AnyShape", "desc": None, "members": ["Square", "Circle"]})
    q = gs.desc_type(d, "Query")
    q["fields"] += [_f("shape", ("named", "Shape"), [_a("unit", ("named", "Unit"))]), _f("anyShape", ("named", "AnyShape"))]
    return d


EXTENSION_SDL = """
extend type Query { extra(unit: Unit = M, opts: AreaOpts): Triangle }
type Triangle implements Shape { area(unit: Unit!, opts: AreaOpts, p: [Precise]): Float name: String h: Precise }
extend enum Unit { KM }
extend union AnyShape = Triangle
"""


def verdict_key(verdict, errs):
    return [verdict, sorted(Counter(r for r, _ in errs).items())]


def compare_derived(ctx, batch, what, source_key, derived, labels, info, desc):
    """A derived schema must get the verdict (and rule multiset) of the schema it was derived from / of the
    same schema built from scratch; its own dump goes to the model."""
    v, e = check_schema(ctx, batch, derived, labels, "derived:" + what, info, desc=desc)
    key = verdict_key(v, e)
    if key != source_key:
        ctx.fail("derived-schema-verdict-differs:%s:%s" % (what, "+".join(sorted(set(r for r, _ in key[1]) ^ set(r for r, _ in source_key[1]))) or "verdict"),
                 "%s of a schema is validated differently from the schema it was derived from" % what,
                 {"how": "derived", "what": what, "desc": desc, "builder": info.get("builder"), "source": source_key, "derived": key})
    return key


def derive(what, s):
    from py_gql.schema.transforms import transform_schema
    from py_gql.schema.schema_visitor import SchemaVisitor
    from py_gql.sdl import extend_schema
    if what == "clone":
        return s.clone()
    if what == "clone-of-clone":
        return s.clone().clone()
    if what == "transform":
        return SchemaVisitor().on_schema(s.clone())       # transform_schema without its own validate()
    if what == "extend":
        return extend_schema(s, EXTENSION_SDL, strict=False)
    raise ValueError(what)


def stream_derived(ctx, batch):
    from py_gql import build_schema
    from py_gql.exc import GraphQLError
    rng = ctx.rng
    done = 0
    for i in range(ctx.n(14, 100)):
        if ctx.time_left() < 15:
            break
        base = add_arg_cluster(base_schema(rng, rng.choice([0, 0, 1]), cluster=rng.random() < 0.5))
        labels, code_only = [], False
        if rng.random() < 0.4:
            base, labels, code_only = apply_injections(rng, base, 1, allowed=[x for x in INJECTIONS if not x.name.startswith("res_")
                                                                               and x.name not in ("no_query", "root_not_object")])
        for builder in (build_code, build_sdl):
            if builder is build_sdl and code_only:
                continue
            d0 = add_resolvers(rng, copy.deepcopy(base), p=0.2) if builder is build_code else strip_resolvers(base)
            s = try_build(ctx, builder, d0)
            if s is None:
                continue
            # 1st validation of the source (fills whatever the library memoises), kept for the end of the run
            v0, e0 = check_schema(ctx, batch, s, labels, builder.__name__[6:], {"stream": "derived-source"}, desc=d0)
            src_key = verdict_key(v0, e0)
            try:
                s.validate()
            except GraphQLError:
                pass
            ctx.later("validate_schema(source)", (lambda s=s: verdict_key(*real_validate(s))), src_key,
                      {"how": "later", "desc": d0, "builder": builder.__name__})
            for what in ("clone", "transform", "clone-of-clone", "extend"):
                info = {"stream": "derived", "what": what, "builder": builder.__name__}
                try:
                    der = derive(what, s)
                except GraphQLError as exc:
                    ctx.stat("derive-refused:%s:%s" % (what, type(exc).__name__))
                    continue
                except Exception as exc:  # noqa   (C14's subject; not a C13 outcome)
                    ctx.stat("derive-internal:%s:%s" % (what, type(exc).__name__))
                    continue
                done += 1
                if what == "extend":
                    # scratch = the printed source + the same extension document, built in one go
                    exp_key = None
                    if builder is build_sdl:
                        try:
                            scratch = build_schema(gs.to_sdl(d0, descriptions=False) + EXTENSION_SDL)
                            exp_key = verdict_key(*real_validate(scratch))
                        except (GraphQLError, RecursionError, ValueError, TypeError):
                            exp_key = None
                    v, e = check_schema(ctx, batch, der, labels, "derived:extend", info, desc=d0)
                    key = verdict_key(v, e)
                    if exp_key is not None and key != exp_key:
                        ctx.fail("derived-schema-verdict-differs:extend", "an extended schema is validated differently from the same schema built from scratch",
                                 {"how": "derived", "what": "extend", "desc": d0, "builder": builder.__name__, "source": exp_key, "derived": key})
                else:
                    key = compare_derived(ctx, batch, what, src_key, der, labels, info, d0)
                ctx.later("validate_schema(%s)" % what, (lambda der=der: verdict_key(*real_validate(der))), key,
                          {"how": "later", "what": what, "desc": d0, "builder": builder.__name__})
                # the source must be untouched by the derivation
                again = verdict_key(*real_validate(s))
                if again != src_key:
                    ctx.fail("source-verdict-changed-by:%s" % what, "deriving a schema changed the verdict of the source schema",
                             {"how": "derived", "what": what + ":source", "desc": d0, "builder": builder.__name__, "source": src_key, "derived": again})
    ctx.extra["derived_cases"] = done


def _impl_positions(s):
    """(object type, interface, object field, interface field) for interface fields with arguments."""
    from py_gql.schema import ObjectType, InterfaceType
    out = []
    for t in s.types.values():
        if isinstance(t, ObjectType) and not t.name.startswith("__"):
            for i in t.interfaces:
                if isinstance(i, InterfaceType):
                    for f in i.fields:
                        of = t.field_map.get(f.name)
                        if of is not None and f.arguments:
                            out.append((t, i, of, f))
    return out


def setter_edits(rng, s):
    """[(name, expected rule or None, apply(), undo())] — edits through PUBLIC setters of the live type objects."""
    from py_gql.schema import Argument, Field, Int, NonNullType, UnionType, EnumType, ObjectType, InterfaceType
    edits = []
    pos = _impl_positions(s)
    rng.shuffle(pos)
    for t, i, of, f in pos[:3]:
        old = list(of.arguments)
        named = [a for a in old if f.argument_map.get(a.name) is not None] if False else [a for a in old if any(b.name == a.name for b in f.arguments)]
        if named:
            a = rng.choice(named)
            edits.append(("args_drop", "ifaceArgMissing", (lambda of=of, old=old, a=a: setattr(of, "arguments", [x for x in old if x is not a])),
                          (lambda of=of, old=old: setattr(of, "arguments", old))))
            other = Int if getattr(a.type, "name", None) != "Int" else s.types["String"]
            edits.append(("args_retype", "ifaceArgType",
                          (lambda of=of, old=old, a=a, other=other: setattr(of, "arguments", [Argument(a.name, other) if x is a else x for x in old])),
                          (lambda of=of, old=old: setattr(of, "arguments", old))))
            edits.append(("args_copy", None,
                          (lambda of=of, old=old: setattr(of, "arguments", [Argument(x.name, x.type, **({"default_value": x.default_value} if x.has_default_value else {})) for x in old])),
                          (lambda of=of, old=old: setattr(of, "arguments", old))))
        edits.append(("args_extra_required", "extraRequiredArg",
                      (lambda of=of, old=old: setattr(of, "arguments", old + [Argument("zz_req", NonNullType(Int))])),
                      (lambda of=of, old=old: setattr(of, "arguments", old))))
        iold = list(f.arguments)
        edits.append(("iface_args_add", "ifaceArgMissing",
                      (lambda f=f, iold=iold: setattr(f, "arguments", iold + [Argument("zz_new", Int)])),
                      (lambda f=f, iold=iold: setattr(f, "arguments", iold))))
        fold = list(t.fields)
        edits.append(("fields_drop", "ifaceFieldMissing",
                      (lambda t=t, fold=fold, of=of: setattr(t, "fields", [x for x in fold if x is not of] + [Field("zz_keep", Int)])),
                      (lambda t=t, fold=fold: setattr(t, "fields", fold))))
        ifs = list(t.interfaces)
        edits.append(("interfaces_clear", None, (lambda t=t: setattr(t, "interfaces", [])), (lambda t=t, ifs=ifs: setattr(t, "interfaces", ifs))))
        edits.append(("interfaces_dup", "dupInterface", (lambda t=t, ifs=ifs: setattr(t, "interfaces", ifs + ifs[:1])),
                      (lambda t=t, ifs=ifs: setattr(t, "interfaces", ifs))))
    for t in s.types.values():
        if isinstance(t, UnionType):
            old = list(t.types)
            enum = next((x for x in s.types.values() if isinstance(x, EnumType) and not x.name.startswith("__")), None)
            edits.append(("union_clear", "unionEmpty", (lambda t=t: setattr(t, "types", [])), (lambda t=t, old=old: setattr(t, "types", old))))
            if enum is not None:
                edits.append(("union_add_enum", "unionMemberNotObject", (lambda t=t, old=old, enum=enum: setattr(t, "types", old + [enum])),
                              (lambda t=t, old=old: setattr(t, "types", old))))
            break
    # `EnumType.values` is a plain attribute next to private indexes (`_values`, `_reverse_values`, used by get_name /
    # get_value): assigning it is not an edit through a public setter and leaves the type inconsistent - not generated
    return edits


def fresh_schema_over(s):
    """A new Schema object over the SAME type objects (what a user does after editing types in place)."""
    from py_gql.schema import Schema, SPECIFIED_DIRECTIVES, is_introspection_type
    from py_gql.schema.scalars import SPECIFIED_SCALAR_TYPES
    types = [t for t in s.types.values() if t not in SPECIFIED_SCALAR_TYPES and not is_introspection_type(t)]
    dirs = [d for d in s.directives.values() if d not in SPECIFIED_DIRECTIVES]
    n = Schema(query_type=s.query_type, mutation_type=s.mutation_type, subscription_type=s.subscription_type, types=types, directives=dirs)
    n.default_resolver = s.default_resolver
    return n


def stream_setter_edits(ctx, batch):
    """validate -> edit through a public setter -> (replace request | fresh Schema over the same objects) -> validate:
    the second verdict is that of the CURRENT description (labels + model on the current dump); undo -> valid again."""
    from py_gql.exc import GraphQLError
    rng = ctx.rng
    done = 0
    for i in range(ctx.n(20, 120)):
        if ctx.time_left() < 12:
            break
        d0 = add_resolvers(rng, add_arg_cluster(base_schema(rng, rng.choice([0, 0, 1]), cluster=rng.random() < 0.5)), p=0.15)
        s = try_build(ctx, build_code, d0)
        if s is None:
            continue
        v0, e0 = check_schema(ctx, batch, s, [], "code", {"stream": "setter-source"}, desc=d0)
        if v0 != "valid":
            continue
        try:
            s.validate()
        except GraphQLError:
            continue
        edits = setter_edits(rng, s)
        rng.shuffle(edits)
        consumed = False
        for name, rule, apply, undo in edits[:ctx.n(5, 8)]:
            if consumed:
                break
            # a replace request sends the schema through fix_type_references (type objects are rebuilt): it is used
            # for the edit phase only and ends the use of this schema; `enum.values` is a plain attribute (the
            # rebuilt enum comes from its private index), so that edit is only followed by a fresh Schema
            reset = "replace" if (rng.random() < 0.3 and name != "enum_values_clear") else "fresh"
            for phase, fn, labels in (("edit", apply, [("setter:" + name, rule)]), ("undo", undo, [])):
                try:
                    fn()
                except Exception as exc:  # noqa  (constructors refusing the edit)
                    ctx.stat("setter-refused:%s:%s" % (name, type(exc).__name__))
                    consumed = True
                    break
                info = {"stream": "setter", "edit": name, "phase": phase, "reset": reset}
                try:
                    if reset == "fresh":
                        cur = fresh_schema_over(s)
                    else:
                        cur = s
                        consumed = True
                        victim = rng.choice([t for t in s.types.values() if not t.name.startswith("__") and t.name not in gs.SCALARS])
                        s._replace_types_and_directives({victim.name: copy.copy(victim)})
                except GraphQLError as exc:
                    ctx.stat("setter-reset-refused:%s" % type(exc).__name__)
                    break
                except Exception as exc:  # noqa
                    ctx.stat("setter-reset-internal:%s" % type(exc).__name__)
                    consumed = True
                    break
                done += 1
                ctx.stat("setter:%s:%s:%s" % (name, phase, reset))
                v, e = check_schema(ctx, batch, cur, labels, "setter", info, desc=d0)
                # Schema.validate() must agree with the fresh verdict once the cache was reset
                try:
                    cur.validate()
                    cached = "valid"
                except GraphQLError:
                    cached = "invalid"
                if cached != v and not v.startswith("internal"):
                    ctx.fail("stale-verdict-after:setter-edit+%s" % reset, "validate() disagrees with a fresh validation after the verdict cache was reset",
                             {"how": "setter", "desc": d0, "edit": name, "phase": phase, "reset": reset, "validate": cached, "fresh": v})
                if reset == "replace":
                    break
    ctx.extra["setter_edit_cases"] = done


# ---- I: several violations on the SAME element list, in every order ------------------------------------

def stream_compound(ctx, batch):
    """2-4 elements appended to ONE member list (arguments of a field, fields of a type, input fields, union
    members, implemented interfaces, enum values, directive arguments), drawn from a pool of two names x
    {well-formed, ill-formed} x {right position, wrong position}: duplicates, wrong-position types and bad names meet on
    the same element / the same name in both orders. No labels: the expectation is the set of violation instances
    of the dump (`spec_rules`); the model's multiset is compared as well."""
    rng = ctx.rng
    done = 0
    for i in range(ctx.n(70, 600)):
        if ctx.time_left() < 12:
            break
        d = add_arg_cluster(base_schema(rng, 0, cluster=True)) if i % 3 == 0 else add_cluster(gs.gen_schema(rng, size=0, with_descriptions=False))
        if rng.random() < 0.3:
            add_resolvers(rng, d, p=0.3)
        objs = [t for t in d["types"] if t["kind"] == "object"]
        comps = [t for t in d["types"] if t["kind"] in ("object", "interface")]
        inputs = [t for t in d["types"] if t["kind"] == "input"]
        unions = [t for t in d["types"] if t["kind"] == "union"]
        enums = [t for t in d["types"] if t["kind"] == "enum"]
        ifaces = [t["name"] for t in d["types"] if t["kind"] == "interface"]
        in_names = ["Int", inputs[0]["name"] if inputs else "String", enums[0]["name"] if enums else "ID"]
        out_only = [objs[0]["name"], unions[0]["name"] if unions else objs[-1]["name"]] + ifaces[:1]
        names = ["zq", "zr", "__z", "z-q"]
        where = rng.choice(["args", "args", "fields", "fields", "input", "union", "interfaces", "enum", "dirargs"])
        n = rng.randint(2, 4)

        def nm():
            return rng.choice(names[:2] if rng.random() < 0.75 else names)
        if where == "args":
            t = rng.choice(comps)
            f = rng.choice(t["fields"])
            for _ in range(n):
                _add_arg(f, _a(nm(), _wrap(rng, rng.choice(in_names if rng.random() < 0.55 else out_only)), default=None))
        elif where == "fields":
            t = rng.choice(comps)
            for _ in range(n):
                fld = _f(nm(), _wrap(rng, rng.choice(out_only + ["Int"] if rng.random() < 0.6 else [inputs[0]["name"]] if inputs else ["Int"])))
                if rng.random() < 0.4:
                    for _ in range(rng.randint(1, 3)):
                        fld["args"].append(_a(nm(), _wrap(rng, rng.choice(in_names if rng.random() < 0.55 else out_only))))
                if rng.random() < 0.25:
                    fld["resolver"] = rng.choice(["root, ctx", "root, ctx, info, **kw", "root, ctx, info"])
                t["fields"].insert(rng.randint(0, len(t["fields"])), fld)
        elif where == "input" and inputs:
            t = rng.choice(inputs)
            for _ in range(n):
                t["fields"].insert(rng.randint(0, len(t["fields"])), _a(nm(), _wrap(rng, rng.choice(in_names if rng.random() < 0.55 else out_only))))
        elif where == "union" and unions:
            t = rng.choice(unions)
            pool = [o["name"] for o in objs[:2]] + [enums[0]["name"] if enums else "Int", "Int"] + ifaces[:1]
            for _ in range(n):
                t["members"].insert(rng.randint(0, len(t["members"])), rng.choice(pool))
        elif where == "interfaces":
            t = rng.choice(objs)
            pool = ifaces + [objs[0]["name"], enums[0]["name"] if enums else "Int"]
            t["interfaces"] = list(t.get("interfaces") or [])
            for _ in range(n):
                t["interfaces"].insert(rng.randint(0, len(t["interfaces"])), rng.choice(pool))
        elif where == "enum" and enums:
            t = rng.choice(enums)
            for j in range(n):
                t["values"].append({"name": rng.choice(["__v%d" % j, "v-%d" % j, "W%d" % j]), "deprecated": None, "desc": None})
        else:
            dd = {"name": rng.choice(["zd", "__zd"]), "locations": ["FIELD"], "args": [], "desc": None}
            for _ in range(n):
                dd["args"].append(_a(nm(), _wrap(rng, rng.choice(in_names if rng.random() < 0.55 else out_only))))
            d["directives"].append(dd)
        s = try_build(ctx, build_code, d)
        if s is None:
            continue
        done += 1
        ctx.stat("compound:" + where)
        check_schema(ctx, batch, s, None, "code", {"stream": "compound", "where": where}, desc=d)
    ctx.extra["compound_cases"] = done


# ---- J: interface vs object types, ALL pairs of wrapper shapes --------------------------------------------

def stream_wrapper_pairs(ctx, batch):
    """Every pair of type expressions with <= 3 wrappers over the same and over different named types, as
    (interface argument type, object argument type) - must be EQUAL - and as (interface field type, object field
    type) - must be covariant. Many pairs per schema (one interface field each); expectation = the violation
    instances of the dump (`spec_rules`: structural equality / `spec_subtype`), the shrinker isolates the pair."""
    rng = ctx.rng
    arg_types = all_small_types(["Int", "String"], 3)
    fld_types = all_small_types(["IfW", "ObW", "Int"], 3)
    arg_pairs = [(a, b) for a in arg_types for b in arg_types]
    fld_pairs = [(a, b) for a in fld_types for b in fld_types]
    per = 48
    done = 0
    for kind, pairs in (("arg", arg_pairs), ("field", fld_pairs)):
        for off in range(0, len(pairs), per):
            if ctx.time_left() < 12:
                return
            chunk = pairs[off:off + per]
            ifields, ofields = [], []
            for j, (ta, tb) in enumerate(chunk):
                if kind == "arg":
                    ifields.append(_f("w%d" % j, ("named", "Int"), [_a("filter", ta)]))
                    ofields.append(_f("w%d" % j, ("named", "Int"), [_a("filter", tb)]))
                else:
                    ifields.append(_f("w%d" % j, ta))
                    ofields.append(_f("w%d" % j, tb))
            d = {"directives": [], "query": "Query", "mutation": None, "subscription": None, "types": [
                {"kind": "interface", "name": "IfW", "desc": None, "fields": ifields},
                {"kind": "object", "name": "ObW", "desc": None, "interfaces": ["IfW"], "fields": ofields},
                {"kind": "object", "name": "Query", "desc": None, "interfaces": [], "fields": [_f("o", ("named", "ObW")), _f("i", ("named", "IfW"))]}]}
            s = try_build(ctx, build_code, d)
            if s is None:
                continue
            done += len(chunk)
            ctx.stat("wrapper-pairs:%s" % kind, len(chunk))
            # labelled expectation of this stream (independent of spec_rules): equal / covariant per pair
            if kind == "arg":
                want = Counter({"ifaceArgType": sum(1 for ta, tb in chunk if ta != tb)})
            else:
                want = Counter({"ifaceFieldType": sum(1 for ta, tb in chunk if not spec_subtype(d, tb, ta))})
            v, e = check_schema(ctx, batch, s, None, "code", {"stream": "wrapper-pairs", "kind": kind, "offset": off}, desc=d)
            got = Counter(r for r, _ in e)
            if +want != got:
                # find the pair(s)
                bad = []
                for (ta, tb) in chunk:
                    d1 = copy.deepcopy(d)
                    d1["types"][0]["fields"] = [ifields[chunk.index((ta, tb))]]
                    d1["types"][1]["fields"] = [ofields[chunk.index((ta, tb))]]
                    s1 = quiet_build(build_code, d1)
                    if s1 is None:
                        continue
                    v1, e1 = real_validate(s1)
                    exp1 = (ta != tb) if kind == "arg" else (not spec_subtype(d1, tb, ta))
                    if (v1 == "invalid") != exp1:
                        bad.append((ta, tb, v1, d1))
                for ta, tb, v1, d1 in bad[:3]:
                    ctx.fail("interface-%s-type:%s:%s" % (kind, "accepted" if v1 == "valid" else "rejected", shape(tb, ta)),
                             "object %s type %s against interface %s type %s: %s" % (kind, gs.ty_str(tb), kind, gs.ty_str(ta),
                                                                                   "accepted although not %s" % ("equal" if kind == "arg" else "covariant") if v1 == "valid" else "rejected although valid"),
                             {"how": "code", "labels": None, "info": {"stream": "wrapper-pairs"}, "desc": d1,
                              "interface_type": gs.ty_str(ta), "object_type": gs.ty_str(tb)})
    ctx.extra["wrapper_pair_cases"] = done


# ---- K: resolver signatures against the calling convention ------------------------------------------------

K_NAMES = ["root", "ctx", "info", "x", "y", "args", "kwargs", "z"]


def gen_signature(rng):
    """A random parameter list: positional (with `/`, defaults), *name or bare *, keyword-only, **name — names from a
    pool that contains the usual parameter names AND the argument names, so that collisions occur."""
    n = rng.randint(0, 5)
    names = rng.sample(K_NAMES, min(n + rng.randint(0, 2), len(K_NAMES)))
    pos, rest = names[:n], names[n:]
    parts = []
    slash = rng.randint(1, len(pos)) if pos and rng.random() < 0.25 else None
    ndef = rng.randint(0, len(pos)) if rng.random() < 0.5 else 0
    for i, p in enumerate(pos):
        parts.append(p + ("=None" if i >= len(pos) - ndef else ""))
        if slash is not None and i + 1 == slash:
            parts.append("/")
    star = None
    if rng.random() < 0.3:
        star = rest.pop() if rest and rng.random() < 0.7 else "va"
        parts.append("*" + star)
    if rest and rng.random() < 0.4:
        k = rest[:rng.randint(1, len(rest))]
        rest = rest[len(k):]
        if star is None:
            parts.append("*")
        parts += [q + ("=None" if rng.random() < 0.5 else "") for q in k]
    if rng.random() < 0.4:
        parts.append("**" + (rest.pop() if rest and rng.random() < 0.5 else "vk"))
    return ", ".join(parts)


def stream_resolver_signatures(ctx, batch):
    """Random signatures x 0-3 arguments (required / optional / defaulted) whose names are drawn from the same pool as
    the parameter names (collisions with the leading positional parameters, with *args / **kwargs names, keyword-only
    and positional-only parameters). Oracles in check_schema: reported iff some admissible call does not bind
    (the generated callable is really called), the precise clauses (`spec_rules`), the model."""
    rng = ctx.rng
    done = 0
    for i in range(ctx.n(260, 2500)):
        if ctx.time_left() < 12:
            break
        sig = gen_signature(rng)
        form = rng.choice(["plain", "plain", "plain", "wraps", "wraps", "partial", "method", "instance", "class", "notcallable"])
        if form == "wraps":
            # wider / narrower / unrelated outer signature around the generated inner one (and the reverse)
            outer = rng.choice(["root, ctx, info, **kw", "*a, **kw", "root, ctx, info", "root, ctx", gen_signature(rng)])
            sig = "wraps:%s|%s" % ((outer, sig) if rng.random() < 0.7 else (sig, outer))
        elif form == "partial":
            n = rng.choice([0, 0, 1])
            kws = rng.choice(["", "", "x", "z", "info"])
            sig = "partial:%s|%d|%s" % (sig, n, kws)
        elif form == "notcallable":
            sig = NOT_CALLABLE + ":" + rng.choice(["int", "str", "object", "dict", "tuple"])
        elif form != "plain":
            sig = "%s:%s" % (form, sig)
        try:
            make_resolver(sig)
        except (SyntaxError, TypeError, ValueError):
            continue
        ctx.stat("signature-form:" + form)
        args = []
        for a in rng.sample(["x", "y", "info", "root", "args", "kwargs", "z", "ctx"], rng.randint(0, 3)):
            mode = rng.choice(["req", "opt", "dflt"])
            args.append(_a(a, ("nonNull", ("named", "Int")) if mode == "req" else ("named", "Int"), default="1" if mode == "dflt" else None))
        where = rng.choice(["resolver", "resolver", "subscription_resolver", "default_resolver"])
        fld = _f("f", ("named", "Int"), args)
        q = {"kind": "object", "name": "Query", "desc": None, "interfaces": [], "fields": [fld]}
        if where == "default_resolver":
            q["default_resolver"] = sig
        else:
            fld[where] = sig
        d = {"types": [q], "directives": [], "query": "Query", "mutation": None, "subscription": None}
        s = try_build(ctx, build_code, d)
        if s is None:
            continue
        done += 1
        ctx.stat("signature:" + where)
        check_schema(ctx, batch, s, None, "code", {"stream": "signatures", "sig": sig}, desc=d)
    ctx.extra["signature_cases"] = done

# ---- E: cache histories -------------------------------------------------------------------------

def gen_history(rng, desc, length):
    """Ops as plain data. Resolver = signature text."""
    objs = [t for t in desc["types"] if t["kind"] == "object"]
    others = [t["name"] for t in desc["types"] if t["kind"] != "object"]
    ops = []
    for _ in range(length):
        r = rng.random()
        t = rng.choice(objs)
        f = rng.choice(t["fields"])
        good = good_sig(rng, f)
        bad = rng.choice(["root, ctx", "root, ctx, info, zz_extra", "root", "root, ctx, info", NOT_CALLABLE + ":str", NOT_CALLABLE + ":tuple"])
        sig = good if rng.random() < 0.55 else bad
        if r < 0.30:
            ops.append({"op": "validate"})
        elif r < 0.34:
            # the arguments of a field replaced by plain assignment (compatibility is resolver AND arguments)
            ops.append({"op": "assign_arguments", "type": t["name"], "field": f["name"],
                        "mode": rng.choice(["copy", "add_required", "add_optional", "drop"])})
        elif r < 0.44:
            # documented plain assignment: schema / type / field level (+ the field's subscription resolver)
            level = rng.choice([0, 1, 2, 2, 3])
            asig = sig if level >= 2 else rng.choice(["root, ctx, info, **kw", "*a, **kw", "root, ctx", "root", "root, ctx, info"])
            if rng.random() < 0.2 and not asig.startswith(NOT_CALLABLE):
                asig = "wraps:%s|%s" % (rng.choice(["root, ctx, info, **kw", "root, ctx"]), asig)
            ops.append({"op": "assign", "level": level, "type": t["name"], "field": f["name"], "sig": asig, "reuse": rng.random() < 0.15})
        elif r < 0.62:
            tn, fn = t["name"], f["name"]
            q = rng.random()
            if q < 0.06:
                tn = "Nope"
            elif q < 0.12 and others:
                tn = rng.choice(others)
            elif q < 0.18:
                fn = "nope"
            elif q < 0.26:
                fn = "*"
            ops.append({"op": "register_resolver", "type": tn, "field": fn, "sig": sig, "allow_override": rng.random() < 0.6,
                        "reuse": rng.random() < 0.15})
        elif r < 0.76:
            tn = t["name"] if rng.random() < 0.85 else rng.choice(["Nope"] + others)
            ops.append({"op": "register_default_resolver", "type": tn, "sig": rng.choice(["root, ctx, info, **kw", "*a, **kw", "root, ctx", "root, ctx, info"]),
                        "allow_override": rng.random() < 0.6})
        elif r < 0.88:
            tn, fn = t["name"], f["name"]
            if rng.random() < 0.15:
                fn = "nope"
            ops.append({"op": "register_subscription", "type": tn, "field": fn, "sig": sig, "allow_override": rng.random() < 0.5, "reuse": False})
        else:
            cand = [x["name"] for x in desc["types"] if x["kind"] in ("object", "interface", "input", "enum")]
            k = rng.choice([1, 1, 2, 2, 3])
            names = rng.sample(cand, min(k, len(cand)))
            entries = [{"type": n, "mode": rng.choice(["same", "same", "copy", "copy_bad", "copy_bad", "delete", "other_kind"])}
                       for n in names]
            if rng.random() < 0.08:
                entries.insert(rng.randint(0, len(entries)), {"type": rng.choice(["Int", "__Type", "Nope"]), "mode": "other_kind"})
            dnames = [d["name"] for d in desc["directives"]]
            dir_entries = []
            if rng.random() < 0.35:
                for n in rng.sample(dnames + ["newdir", "skip"], rng.choice([1, 1, 2])):
                    dir_entries.append({"name": n, "mode": rng.choice(["same", "copy_bad", "copy", "delete"])})
            ops.append({"op": "replace_types", "entries": entries, "dir_entries": dir_entries})
    ops.append({"op": "validate"})
    return ops


class _Skip(Exception):
    pass


def verdict_cached(schema):
    """Would `schema.validate()` return without validating? (`_verdict_is_current` once the cache tracks the
    resolver callables, the bare flag before)"""
    cur = getattr(schema, "_verdict_is_current", None)
    return bool(cur()) if cur is not None else schema._is_valid is True


def run_history_real(schema, ops):
    """Execute ops on the live schema; returns (trace, model_ops)."""
    from py_gql.exc import SchemaValidationError, UnknownType, SchemaError
    from py_gql.schema import ObjectType
    trace, mops = [], []
    last_fn = {}
    nomodel = False
    for op in ops:
        k = op["op"]
        outcome = "ok"
        mop = {"op": k}
        try:
            if k == "validate":
                try:
                    schema.validate()
                except SchemaValidationError:
                    outcome = "SchemaValidationError"
            elif k in ("register_resolver", "register_subscription"):
                key = (k, op["type"], op["field"])
                fn = last_fn.get(key) if op.get("reuse") and key in last_fn else make_resolver(op["sig"])
                same = False
                t = schema.types.get(op["type"])
                if isinstance(t, ObjectType) and op["field"] in t.field_map:
                    fld = t.field_map[op["field"]]
                    same = (fld.resolver if k == "register_resolver" else fld.subscription_resolver) is fn
                last_fn[key] = fn
                mop.update({"type": op["type"], "field": op["field"], "resolver": canon_schema.dump_resolver(fn),
                            "allow_override": op["allow_override"], "same": same})
                getattr(schema, k)(op["type"], op["field"], fn, allow_override=op["allow_override"])
            elif k == "assign_arguments":
                from py_gql.schema import Argument, Int, NonNullType
                t = schema.types.get(op["type"])
                fld = t.field_map.get(op["field"]) if isinstance(t, ObjectType) else None
                if fld is None or (not fld.arguments and op["mode"] in ("copy", "drop")):
                    # nothing to assign / an empty list for an empty list: the snapshot validate() compares is unchanged
                    mops.append({"op": "assign", "level": 2, "type": op["type"], "field": op["field"],
                                 "resolver": {"uninspectable": False, "params": []}, "same": True})      # a no-op for the model
                    trace.append({"outcome": "ok", "cached": verdict_cached(schema), "fresh_valid": real_validate(schema)[0] == "valid"})
                    continue
                new = [Argument(a.name, a.type, **({"default_value": a.default_value} if a.has_default_value else {})) for a in fld.arguments]
                if op["mode"] == "add_required":
                    new.append(Argument("zz_req%d" % len(new), NonNullType(Int)))
                elif op["mode"] == "add_optional":
                    new.append(Argument("zz_opt%d" % len(new), Int))
                elif op["mode"] == "drop" and new:
                    new.pop()
                fld.arguments = new
                mop.update({"type": op["type"], "field": op["field"], "args": [dict(canon_schema.dump_arg(a), python_name=a.python_name) for a in new]})
            elif k == "assign":
                key = ("assign", op["level"], op["type"], op["field"])
                fn = last_fn.get(key) if op.get("reuse") and key in last_fn else make_resolver(op["sig"])
                last_fn[key] = fn
                t = schema.types.get(op["type"])
                fld = t.field_map.get(op["field"]) if isinstance(t, ObjectType) else None
                if fld is None:     # the target went away with an earlier replace request: nothing is assigned
                    mop.update({"level": op["level"], "type": op["type"], "field": op["field"],
                                "resolver": canon_schema.dump_resolver(fn), "same": True})
                    raise _Skip()
                cur = [schema.default_resolver, t.default_resolver, fld.resolver, fld.subscription_resolver][op["level"]]
                mop.update({"level": op["level"], "type": op["type"], "field": op["field"],
                            "resolver": canon_schema.dump_resolver(fn), "same": cur is fn})
                if op["level"] == 0:
                    schema.default_resolver = fn
                elif op["level"] == 1:
                    t.default_resolver = fn
                elif op["level"] == 2:
                    fld.resolver = fn
                else:
                    fld.subscription_resolver = fn
            elif k == "register_default_resolver":
                fn = make_resolver(op["sig"])
                mop.update({"type": op["type"], "resolver": canon_schema.dump_resolver(fn), "allow_override": op["allow_override"]})
                schema.register_default_resolver(op["type"], fn, allow_override=op["allow_override"])
            elif k == "replace_types":
                from py_gql.schema import (Field, InputField, EnumType, EnumValue, Int, InputObjectType, InterfaceType,
                                           Directive, Argument)
                types, mentries, deleting = {}, [], False
                for e in op["entries"]:
                    orig = schema.types.get(e["type"])
                    mode = e["mode"]
                    if orig is None or mode == "other_kind":
                        new = (InterfaceType if isinstance(orig, ObjectType) else ObjectType)(e["type"], [Field("a", Int)])
                    elif mode == "same":
                        new = orig
                    elif mode == "delete":
                        new = None
                        deleting = True
                    else:
                        new = copy.copy(orig)
                        if mode == "copy_bad":
                            if isinstance(new, EnumType):
                                new = EnumType(orig.name, list(orig.values) + [EnumValue("__bad%d" % len(orig.values))])
                            elif isinstance(new, InputObjectType):
                                new.fields = list(orig.fields) + [InputField("dup_in", lambda: schema.types["Query"])]
                            else:
                                new.fields = list(orig.fields) + [Field("__bad", Int)]
                    types[e["type"]] = new
                    entry = None
                    if new is not None:
                        entry = canon_schema.dump_type(new, True)
                        entry["builtin"] = False
                    mentries.append({"name": e["type"], "type": entry, "same": new is orig})
                dirs, mdirs = {}, []
                for e in op.get("dir_entries", []):
                    orig = schema.directives.get(e["name"])
                    mode = e["mode"]
                    if mode == "delete" and orig is not None:
                        new = None
                    elif mode == "same" and orig is not None:
                        new = orig
                    elif mode == "copy_bad":
                        new = Directive(e["name"], ["FIELD"], [Argument("__x", Int)])
                    else:
                        new = Directive(e["name"], ["FIELD"], [Argument("x", Int)])
                    dirs[e["name"]] = new
                    dd = None
                    if new is not None:
                        dd = {"name": new.name, "locations": list(new.locations), "args": [canon_schema.dump_arg(a) for a in new.arguments], "desc": None}
                    mdirs.append({"name": e["name"], "directive": dd, "same": new is orig})
                mop.update({"entries": mentries, "dir_entries": mdirs})
                try:
                    schema._replace_types_and_directives(types, dirs)
                finally:
                    pass
                if deleting:
                    mop["healed"] = dump(schema)
        except _Skip:
            outcome = "ok"
        except SchemaValidationError:
            outcome = "SchemaValidationError"
        except UnknownType:
            outcome = "UnknownType"
        except SchemaError:
            outcome = "SchemaError"
        except ValueError:
            outcome = "ValueError"
        except Exception as e:  # noqa
            outcome = "internal:" + type(e).__name__
        if k == "replace_types" and outcome.startswith("internal"):
            # healing after deletions is C14's subject: the history ends here
            trace.append({"outcome": outcome, "cached": verdict_cached(schema), "fresh_valid": None})
            mops.append(mop)
            break
        if k == "replace_types" and outcome != "ok" and not _REPLACE_ATOMIC[0]:
            # a half-applied request leaves stale object references that the by-name dump cannot show:
            # the model comparison ends with this step, the direct oracle goes on
            nomodel = True
        if nomodel:
            trace.append({"outcome": outcome, "cached": verdict_cached(schema),
                          "fresh_valid": real_validate(schema)[0] == "valid", "nomodel": True})
            mops.append(mop)
            continue
        fresh_valid = real_validate(schema)[0] == "valid"
        trace.append({"outcome": outcome, "cached": verdict_cached(schema), "fresh_valid": fresh_valid})
        mops.append(mop)
    return trace, mops


_REPLACE_ATOMIC = [True]


def op_sig(op, t):
    if op["op"] != "replace_types":
        return op["op"]
    return "replace_types[%s%s]%s" % (",".join(sorted(e["mode"] for e in op["entries"])),
                                      (";dir:" + ",".join(sorted(e["mode"] for e in op["dir_entries"]))) if op.get("dir_entries") else "",
                                      "" if t["outcome"] == "ok" else ":" + t["outcome"])


def stream_histories(ctx, batch):
    rng = ctx.rng
    _REPLACE_ATOMIC[0] = safe_replace_atomic()
    n = ctx.n(120, 1200)
    for i in range(n):
        if ctx.time_left() < 12:
            break
        base = base_schema(rng, rng.choice([0, 0, 1]), cluster=rng.random() < 0.3)
        if rng.random() < 0.5:
            base = add_resolvers(rng, base, p=0.3)
            builder = build_code
        else:
            builder = build_sdl
        s = try_build(ctx, builder, base if builder is build_code else strip_resolvers(base))
        if s is None:
            continue
        ops = gen_history(rng, base, rng.randint(2, 8))
        if rng.random() < 0.3:
            rep = [o for o in ops if o["op"] == "replace_types"] or [o for o in gen_history(rng, base, 12) if o["op"] == "replace_types"]
            if rep:
                ops = [{"op": "validate"}, rep[0], {"op": "validate"}]
        if rng.random() < 0.15:
            # targeted: an explicit-parameter resolver, validate, then the field's arguments are replaced, validate
            objs_ = [t for t in base["types"] if t["kind"] == "object"]
            t_ = rng.choice(objs_)
            f_ = rng.choice(t_["fields"])
            names_ = [a["name"] for a in f_.get("args") or []]
            if all(n.isidentifier() and not n.startswith("__") for n in names_) and len(set(names_)) == len(names_):
                ops = [{"op": "register_resolver", "type": t_["name"], "field": f_["name"], "allow_override": True, "reuse": False,
                        "sig": ", ".join(["root", "ctx", "info"] + ["%s=None" % n for n in names_])},
                       {"op": "validate"},
                       {"op": "assign_arguments", "type": t_["name"], "field": f_["name"], "mode": rng.choice(["add_required", "add_optional", "add_required"])},
                       {"op": "validate"}]
        start = dump(s)
        cached0 = verdict_cached(s)      # build_schema validates while building
        trace, mops = run_history_real(s, ops)
        ctx.count()
        regs_between = sum(1 for a in ops[1:-1] if a["op"] != "validate")
        if regs_between and any(a["op"] == "validate" for a in ops[:-1]):
            ctx.nontrivial(("hist", json.dumps(ops, sort_keys=True), canon_schema.canon(start)))
        for o, t in zip(ops, trace):
            ctx.stat("op:%s:%s" % (o["op"], t["outcome"]))
        detail = {"how": "history", "builder": builder.__name__, "desc": base if builder is build_code else strip_resolvers(base),
                  "ops": ops, "trace": trace}
        # direct oracle: validate() returned (cached or not) on a schema a fresh validation rejects
        for idx, (o, t) in enumerate(zip(ops, trace)):
            if t["outcome"].startswith("internal") and o["op"] == "replace_types":
                ctx.stat("replace-internal:" + t["outcome"])
            elif t["outcome"].startswith("internal"):
                ctx.fail("history-op-raises:%s:%s" % (o["op"], t["outcome"]), "a registration raises an undocumented exception", detail)
            if o["op"] == "validate" and t["outcome"] == "ok" and t["fresh_valid"] is False:
                sops, sidx, strace = shrink_history(builder, detail["desc"], ops)
                if sidx is None:
                    sops, sidx, strace = ops, idx, trace
                prev = [(a, tt) for a, tt in zip(sops[:sidx], strace[:sidx]) if a["op"] != "validate"]
                ctx.fail("stale-verdict-after:%s" % (op_sig(*prev[-1]) if prev else "nothing"),
                         "validate() accepts although the current schema is invalid (verdict not recomputed)",
                         dict(detail, ops=sops, trace=strace, at=sidx, shrunk_from=len(ops)))
                break

        def cont(ans, trace=trace, detail=detail, ops=ops):
            mt = ans.get("trace", [])
            for idx, (a, b) in enumerate(zip(trace, mt)):
                if a["fresh_valid"] is None:
                    break
                if a.get("nomodel"):
                    if (a["outcome"], a["cached"]) != (b["outcome"], b["cached"]):
                        d2 = dict(detail)
                        d2["model_trace"] = mt
                        ctx.fail("corr:history:%s" % ops[idx]["op"], "cache machine and Schema differ (outcome / _is_valid)", d2, kind="correspondence")
                    break
                if a != b:
                    d2 = dict(detail)
                    d2["model_trace"] = mt
                    ctx.fail("corr:history:%s" % ops[idx]["op"], "cache machine and Schema differ (outcome / _is_valid / fresh verdict)", d2, kind="correspondence")
                    break
        batch.add({"op": "history", "schema": start, "cached": cached0, "ops": mops}, cont)


# ---- L: the remaining public setters (structure edited by plain assignment) and the verdict cache --------------------

STRUCTURAL_KINDS = ["field_type_input", "field_type_benign", "interfaces_object", "union_clear", "input_fields_clear",
                    "input_field_type_object", "arg_type_object", "arg_default_added", "fields_extra", "type_name_reserved",
                    # what proposed_fixes/C13-S12.patch added to the comparison, one kind per group of the fingerprint
                    "object_name_reserved", "query_type_interface", "enum_values_clear", "arg_name_reserved",
                    "field_inner_type_input"]
# kinds that touch what fix C13-HHH3 made part of the cached verdict (the argument objects of a field and their
# type / default, the number of fields): for these a stale verdict IS a failure of the property
TRACKED_KINDS = {"arg_type_object", "arg_default_added", "fields_extra"}
if X.cache_tracks_structure():
    # fix C13-S12: the cached verdict stands for everything the validator reads: EVERY structural plain assignment must
    # make validate() recompute (the cache machine asserts it: `assignStructureStep cfgCacheTracksStructure`)
    TRACKED_KINDS = set(STRUCTURAL_KINDS)


def apply_structural_setter(rng, s, kind):
    """One plain assignment through a public setter of types.py on a live schema; False = no target in this schema."""
    from py_gql.schema import ObjectType, InterfaceType, UnionType, InputObjectType, Field, Int, String
    user = [t for t in s.types.values() if not t.name.startswith("__") and t.name not in gs.SCALARS]
    objs = [t for t in user if isinstance(t, ObjectType)]
    inputs = [t for t in user if isinstance(t, InputObjectType)]
    unions = [t for t in user if isinstance(t, UnionType)]
    if kind == "field_type_input":
        if not inputs:
            return False
        rng.choice(rng.choice(objs).fields).type = rng.choice(inputs)
    elif kind == "field_type_benign":
        cands = [f for t in objs for f in t.fields if getattr(f.type, "name", None) in ("Int", "String")
                 and not any(f.name in getattr(i, "field_map", {}) for i in t.interfaces)]
        if not cands:
            return False
        f = rng.choice(cands)
        f.type = String if f.type is Int else Int
    elif kind == "interfaces_object":
        if len(objs) < 2:
            return False
        a, b = rng.sample(objs, 2)
        a.interfaces = list(a.interfaces) + [b]
    elif kind == "union_clear":
        if not unions:
            return False
        rng.choice(unions).types = []
    elif kind == "input_fields_clear":
        if not inputs:
            return False
        rng.choice(inputs).fields = []
    elif kind == "input_field_type_object":
        cands = [t for t in inputs if t.fields]
        if not cands:
            return False
        rng.choice(rng.choice(cands).fields).type = rng.choice(objs)
    elif kind in ("arg_type_object", "arg_default_added"):
        cands = [a for t in objs for f in t.fields for a in f.arguments
                 if kind == "arg_type_object" or (not a.has_default_value and getattr(a.type, "name", None) == "Int")]
        if not cands:
            return False
        a = rng.choice(cands)
        if kind == "arg_type_object":
            a.type = rng.choice(objs)
        else:
            a.default_value = "not-an-int"
    elif kind == "fields_extra":
        t = rng.choice(objs)
        t.fields = list(t.fields) + [Field("__zz_bad", Int)]
    elif kind == "type_name_reserved":
        cands = [f for t in objs for f in t.fields]
        rng.choice(cands).name = "__zz"
    elif kind == "object_name_reserved":
        rng.choice(objs).name = "__Zz"
    elif kind == "query_type_interface":
        ifaces = [t for t in user if isinstance(t, InterfaceType)]
        if not ifaces:
            return False
        s.query_type = rng.choice(ifaces)
    elif kind == "enum_values_clear":
        from py_gql.schema import EnumType
        enums = [t for t in user if isinstance(t, EnumType)]
        if not enums:
            return False
        rng.choice(enums).values = []
    elif kind == "arg_name_reserved":
        cands = [a for t in objs for f in t.fields for a in f.arguments]
        if not cands:
            return False
        rng.choice(cands).name = "__zz"
    elif kind == "field_inner_type_input":
        from py_gql.schema import ListType, NonNullType
        cands = [f for t in objs for f in t.fields if isinstance(f.type, (ListType, NonNullType))]
        if not cands or not inputs:
            return False
        rng.choice(cands).type.type = rng.choice(inputs)
    else:
        return False
    return True


def snapshot_seen(schema, before):
    """Does the comparison `Schema.validate()` makes (`_current_resolvers()` against what it validated, by identity) see
    the assignment? (private API of the tree under test; a tree without it compares nothing: not seen)"""
    cur = getattr(schema, "_current_resolvers", None)
    if cur is None or before is None:
        return False
    import py_gql.schema.schema as _m
    same = getattr(_m, "_same_objects", None)
    return not (same(before, cur()) if same is not None else before == cur())


def structural_case(ctx, batch, seed, kind):
    """validate() -> one structural plain assignment -> validate(): outcome and cache flag against the cache machine (op
    `assignStructure`, Props.C13.structural_setter_seen_sound / cache_unsound_unseen_structural_setter); for the TRACKED
    kinds a verdict that is not recomputed is a failure of the property, for the others it is recorded only (ASSUMPTIONS)."""
    import random
    from py_gql.exc import GraphQLError
    rng = random.Random(seed)
    d0 = add_resolvers(rng, add_arg_cluster(base_schema(rng, rng.choice([0, 0, 1]), cluster=rng.random() < 0.5)), p=0.15)
    s = try_build(ctx, build_code, d0)
    if s is None:
        return None
    if real_validate(s)[0] != "valid":
        return None
    try:
        s.validate()
    except GraphQLError:
        return None
    start, cached0 = dump(s), verdict_cached(s)
    cur = getattr(s, "_current_resolvers", None)
    before = cur() if cur is not None else None
    try:
        if not apply_structural_setter(rng, s, kind):
            return None
    except Exception as exc:  # noqa  (a setter refusing the value)
        ctx.stat("structural-setter-refused:%s:%s" % (kind, type(exc).__name__))
        return None
    seen = snapshot_seen(s, before)
    trace = [{"outcome": "ok", "cached": verdict_cached(s), "fresh_valid": real_validate(s)[0] == "valid"}]
    try:
        s.validate()
        outcome = "ok"
    except GraphQLError as exc:
        outcome = type(exc).__name__
    except Exception as exc:  # noqa
        outcome = "internal:" + type(exc).__name__
    trace.append({"outcome": outcome, "cached": verdict_cached(s), "fresh_valid": trace[0]["fresh_valid"]})
    mops = [{"op": "assign_structure", "schema": dump(s), "seen": seen}, {"op": "validate"}]
    ctx.count()
    ctx.stat("structural-setter:%s:%s:%s" % (kind, "seen" if seen else "unseen", "still-valid" if trace[0]["fresh_valid"] else "now-invalid"))
    ctx.nontrivial(("structural", kind, canon_schema.canon(start)))
    detail = {"how": "structural-setter", "structural_seed": seed, "kind": kind, "trace": trace, "seen": seen}
    fails = []
    if outcome.startswith("internal"):
        fails.append(("structural-setter-raises:%s:%s" % (kind, outcome), "validate() raises an undocumented exception after a plain assignment", "property"))
    if outcome == "ok" and not trace[0]["fresh_valid"]:
        if kind in TRACKED_KINDS:
            fails.append(("stale-verdict-after:structural-setter:%s" % kind,
                          "validate() accepts although the current schema is invalid (the assignment concerns what the cached verdict stands for)", "property"))
        else:
            ctx.stat("outside-statement:stale-verdict-after-structural-setter:%s" % kind)
            ctx.extra.setdefault("outside_statement_stale_after_structural_setter", {})
            ctx.extra["outside_statement_stale_after_structural_setter"][kind] = \
                ctx.extra["outside_statement_stale_after_structural_setter"].get(kind, 0) + 1

    def cont(ans, trace=trace, detail=detail):
        mt = ans.get("trace", [])
        if [(a["outcome"], a["cached"], a["fresh_valid"]) for a in trace] != [(b.get("outcome"), b.get("cached"), b.get("fresh_valid")) for b in mt]:
            ctx.fail("corr:history:assign_structure:%s" % detail["kind"], "cache machine and Schema differ after a structural plain assignment",
                     dict(detail, model_trace=mt), kind="correspondence")
    if batch is not None and ctx.model_ok:
        batch.add({"op": "history", "schema": start, "cached": cached0, "ops": mops}, cont)
    for sig, what, knd in fails:
        ctx.fail(sig, what, detail, kind=knd)
    return not fails


def stream_structural_setters(ctx, batch):
    """every kind of structural setter, a fixed quota per kind in every run (own PRNG per case: the other streams'
    draws are untouched)"""
    base = 0x51C0DE
    want = ctx.n(3, 12)
    for kind in STRUCTURAL_KINDS:
        got = 0
        for j in range(want * 10):
            if got >= want or ctx.time_left() < 6:
                break
            r = structural_case(ctx, batch, base + 1009 * j + (__import__("zlib").crc32(kind.encode()) & 0xFFFF), kind)
            if r is not None:
                got += 1
        if got == 0:
            ctx.stat("structural-setter-never-applicable:" + kind)


# ---- M: a resolver dropped, then another one assigned that lives AT THE SAME ADDRESS ---------------------------------

ADDRESS_SLOTS = ["schema_default", "type_default", "field_resolver", "field_subscription"]


def _slot_good():
    def resolve_greeting(root, ctx, info, name=None):
        return "hello"
    return resolve_greeting


def _slot_bad():
    # cannot be called as resolver(root, ctx, info, name=...)
    def resolve_greeting(root):
        return "hello"
    return resolve_greeting


def address_reuse_case(ctx, slot, tries=20000):
    """validate() ok -> the ONLY reference to a resolver is dropped by plain assignment (`slot = None`) -> replacement
    callables are created until one is allocated at the freed address (bounded; candidates are kept alive so that every
    one gets another block) -> it is assigned by plain assignment -> validate() must give the verdict of a fresh
    validation (the new callable is incompatible: SchemaValidationError). On a tree whose verdict fingerprint keeps the
    validated callables alive (HEAD: `_current_resolvers()` holds the objects, `_same_objects` compares with `is`) the
    address is never handed out again and the case degenerates to the ordinary reassignment; on a tree that records
    `id()` numbers the collision is reached within a few allocations. The Lean cache machine speaks of resolver
    IDENTITIES that stay alive as long as the state refers to them (`same` flags); address reuse is outside the model
    and covered here. Returns (fails, collided)."""
    import gc
    from py_gql.exc import GraphQLError
    from py_gql.schema import Argument, Field, ObjectType, Schema, String
    field = Field("greeting", String, [Argument("name", String)])
    query = ObjectType("Query", [field])
    schema = Schema(query)

    def get():
        return {"schema_default": schema.default_resolver, "type_default": query.default_resolver,
                "field_resolver": field.resolver, "field_subscription": field.subscription_resolver}[slot]

    def put(v):
        if slot == "schema_default":
            schema.default_resolver = v
        elif slot == "type_default":
            query.default_resolver = v
        elif slot == "field_resolver":
            field.resolver = v
        else:
            field.subscription_resolver = v
    fails = []
    put(_slot_good())
    try:
        schema.validate()
    except GraphQLError as exc:
        return [("address-reuse:setup-rejected:%s" % slot, "a compatible resolver is rejected: %s" % str(exc)[:100])], False
    old_address = id(get())
    put(None)
    gc.collect()
    keep, bad = [], None
    for _ in range(tries):
        cand = _slot_bad()
        if id(cand) == old_address:
            bad = cand
            break
        keep.append(cand)
    collided = bad is not None
    if bad is None:
        bad = keep[-1]
    del keep
    put(bad)
    ctx.count()
    fresh = real_validate(schema)[0]
    try:
        schema.validate()
        cached = "valid"
    except GraphQLError:
        cached = "invalid"
    except Exception as exc:  # noqa
        cached = "internal:" + type(exc).__name__
    ctx.stat("address-reuse:%s:%s" % (slot, "collided" if collided else "no-collision"))
    if fresh == "invalid" and cached != "invalid":
        fails.append(("stale-verdict-after:drop-then-assign:%s:%s" % (slot, "address-reused" if collided else "fresh-address"),
                      "validate() returns `%s` after `%s = None; %s = <incompatible callable%s>` although a fresh validation rejects the schema"
                      % (cached, slot, slot, " allocated at the freed address" if collided else "")))
    elif fresh != "invalid":
        ctx.stat("address-reuse:%s:replacement-not-rejected-by-fresh-validation" % slot)
    return fails, collided


def stream_address_reuse(ctx):
    """every resolver slot, a fixed number of attempts in every run (no PRNG involved)"""
    reached = {}
    for slot in ADDRESS_SLOTS:
        for _ in range(ctx.n(3, 10)):
            fails, collided = address_reuse_case(ctx, slot)
            reached[slot] = reached.get(slot, 0) + (1 if collided else 0)
            ctx.nontrivial(("address-reuse", slot))
            for sig, what in fails:
                ctx.fail(sig, what, {"how": "address-reuse", "slot": slot, "what": what})
            if fails:
                break
    ctx.extra["address_reuse_collisions"] = reached


# ---- N: the call-binding model (Lean `bindOk`) against CPython ---------------------------------------------------------

def stream_call_binding(ctx, batch):
    """`Props.C13.compatible_iff_binds` says that the rule accepts a signature exactly when `bindOk` (an explicit model
    of Python's call binding) binds every call the executor can make. Here `bindOk` itself is compared with CPython:
    bounded-exhaustive signatures (0-3 positional-only parameters, the first one named `c`; 0-3 leading
    positional-or-keyword parameters `root, ctx, info`; `a` absent / required / defaulted; `*args`; keyword-only `b`
    absent / required / defaulted; `**kw`) x every keyword set over {a, b, c, root}: the callable is REALLY CALLED as
    `fn(1, 2, 3, **kw)`; it binds iff no TypeError. 576 signatures x 16 keyword sets in every run, no PRNG."""
    import itertools as it
    names = ["a", "b", "c", "root"]
    ksets = [list(x) for k in range(len(names) + 1) for x in it.combinations(names, k)]
    done = 0
    for i, j, a, vp, b, vk in it.product(range(4), range(4), range(3), range(2), range(3), range(2)):
        parts = []
        if i:
            parts += ["c"] + ["p%d" % x for x in range(1, i)] + ["/"]
        parts += ["root", "ctx", "info"][:j]
        if a:
            parts.append("a" if a == 1 else "a=None")
        if vp:
            parts.append("*args")
        elif b:
            parts.append("*")
        if b:
            parts.append("b" if b == 1 else "b=None")
        if vk:
            parts.append("**kw")
        try:
            fn = eval("lambda %s: None" % ", ".join(parts), {})
        except SyntaxError:
            ctx.stat("call-binding:signature-not-python")
            continue
        real = []
        for ks in ksets:
            try:
                fn(1, 2, 3, **{k: 1 for k in ks})
                real.append(True)
            except TypeError:
                real.append(False)
        done += 1
        ctx.count(len(ksets))
        shape = "po%d-pk%d-a%d-vp%d-b%d-vk%d" % (i, j, a, vp, b, vk)
        ctx.nontrivial(("call-binding", shape))
        ctx.stat("call-binding:binds-%d-of-16" % sum(real))

        def cont(ans, real=real, shape=shape, sig=", ".join(parts)):
            got = ans.get("binds")
            if got != real:
                k = next((x for x in range(len(real)) if got is None or x >= len(got) or got[x] != real[x]), 0)
                ctx.fail("corr:call-binding:%s:kw=%s" % (shape, "+".join(ksets[k]) or "none"),
                         "the call-binding model and CPython differ on `(lambda %s: None)(1, 2, 3, **{%s})`" % (sig, ", ".join(ksets[k])),
                         {"how": "call-binding", "signature": sig, "kw": ksets[k], "cpython_binds": real[k],
                          "model_binds": None if got is None or k >= len(got) else got[k]}, kind="correspondence")
        batch.add({"op": "bind", "resolver": canon_schema.dump_resolver(fn), "kws": [{"k": ks} for ks in ksets]}, cont)
    ctx.extra["call_binding_signatures"] = done


# ---------------------------------------------------------------------------------------------

def corpus_cases(ctx, batch):
    from common import CORPUS
    d = CORPUS / "C13"
    if not d.exists():
        return
    for p in sorted(d.glob("*.json")):
        case = json.loads(p.read_text())
        run_case(ctx, batch, case, p.name)


def run_case(ctx, batch, case, origin):
    from py_gql import build_schema
    from py_gql.exc import GraphQLError
    if "sdl" in case:
        try:
            s = build_schema(case["sdl"])
        except (GraphQLError, RecursionError, ValueError, TypeError):
            ctx.stat("corpus-build-refused")
            return
        labels = [tuple(l) for l in case.get("labels", [])]
        check_schema(ctx, batch, s, labels, "corpus:" + origin, {"sdl": case["sdl"]})


def run(ctx):
    batch = Batch(ctx)
    corpus_cases(ctx, batch)
    stream_subtype_and_names(ctx, batch)
    stream_wrapper_pairs(ctx, batch)
    stream_shared_resolvers(ctx, batch)
    stream_resolver_signatures(ctx, batch)
    stream_compound(ctx, batch)
    stream_derived(ctx, batch)
    stream_setter_edits(ctx, batch)
    stream_every_position(ctx, batch)
    stream_permutations(ctx, batch)
    stream_deep_permutations(ctx, batch)
    stream_histories(ctx, batch)
    stream_valid_and_injected(ctx, batch)
    stream_structural_setters(ctx, batch)
    stream_address_reuse(ctx)
    stream_call_binding(ctx, batch)
    batch.flush()
    ctx.extra.pop("_shrunk", None)
    ctx.extra["extraction"] = attribution_mode()
    if not safe_fix_applied():
        ctx.notes.append("proposed fix C13-S4-S6 is NOT in the tree under test: S4/S6 injections are expected to fail")


def _to_tuples(x):
    """JSON round trip turns type tuples into lists."""
    if isinstance(x, list):
        if x and x[0] in ("named", "list", "nonNull") and len(x) == 2:
            return (x[0], _to_tuples(x[1]) if x[0] != "named" else x[1])
        return [_to_tuples(v) for v in x]
    if isinstance(x, dict):
        return {k: _to_tuples(v) for k, v in x.items()}
    return x


def replay(ctx, data):
    """True = the property holds on this input."""
    inp = data.get("input", {})
    if inp.get("how") == "structural-setter":
        return bool(structural_case(ctx, None, inp["structural_seed"], inp["kind"]))
    if inp.get("how") == "address-reuse":
        return not any(address_reuse_case(ctx, inp["slot"])[0] for _ in range(5))
    if inp.get("how") == "deep-perm":
        a, b = build_code(_to_tuples(inp["desc"])), build_code(_to_tuples(inp["desc_b"]))
        return real_validate(a)[0] == real_validate(b)[0]
    how = inp.get("how", "")
    if not how:
        return True     # not a failing-input replay (e.g. a record of what no longer checks)
    if how == "name":
        from py_gql.schema.validation import _is_valid_name
        return bool(_is_valid_name("".join(chr(c) for c in inp["name"]))) != inp["real"]
    desc = _to_tuples(inp.get("desc")) if inp.get("desc") is not None else None
    if how == "type-eq":
        from py_gql.lang import parse_type
        s = build_code(desc)
        ta, tb = s.get_type_from_literal(parse_type(inp["a"])), s.get_type_from_literal(parse_type(inp["b"]))
        return (ta == tb) == (inp["a"] == inp["b"]) and (ta != tb) == (inp["a"] != inp["b"])
    if how == "subtype":
        from py_gql.lang import parse_type
        from py_gql.lang import ast as _ast
        s = build_code(desc)

        def conv(node):
            if isinstance(node, _ast.NamedType):
                return ("named", node.name.value)
            return ("list" if isinstance(node, _ast.ListType) else "nonNull", conv(node.type))
        a, b = conv(parse_type(inp["a"])), conv(parse_type(inp["b"]))
        return bool(s.is_subtype(s.get_type_from_literal(parse_type(inp["a"])), s.get_type_from_literal(parse_type(inp["b"])))) == spec_subtype(desc, a, b)
    if how == "history":
        s = (build_code if inp.get("builder") == "build_code" else build_sdl)(desc)
        trace, _ = run_history_real(s, inp["ops"])
        return not any(o["op"] == "validate" and t["outcome"] == "ok" and t["fresh_valid"] is False for o, t in zip(inp["ops"], trace))
    if "label" in inp and isinstance(inp.get("input"), dict) and inp["input"].get("how") == "later":
        d = inp["input"]
        b = build_code if d.get("builder") == "build_code" else build_sdl
        src = b(_to_tuples(d["desc"]))
        k1 = verdict_key(*real_validate(src))
        try:
            src.validate()
        except Exception:  # noqa
            pass
        ders = []
        for w in ("clone", "transform", "clone-of-clone", "extend"):
            try:
                ders.append((w, derive(w, src)))
            except Exception:  # noqa
                pass
        firsts = [(w, verdict_key(*real_validate(x))) for w, x in ders]
        ok = verdict_key(*real_validate(src)) == k1
        return ok and all(verdict_key(*real_validate(x)) == k for (w, x), (_, k) in zip(ders, firsts))
    if how == "derived" or how.startswith("derived:"):
        what = (inp.get("what") or inp.get("info", {}).get("what", "clone"))
        bname = inp.get("builder") or inp.get("info", {}).get("builder")
        b = build_code if bname == "build_code" else build_sdl
        src = b(desc)
        src_key = verdict_key(*real_validate(src))
        try:
            src.validate()
        except Exception:  # noqa
            pass
        w = what.split(":")[0]
        der = derive(w, src)
        if what.endswith(":source"):
            return verdict_key(*real_validate(src)) == src_key
        v, e = real_validate(der)
        if how.startswith("derived:"):
            return failure_class(v, e, [tuple(l) for l in (inp.get("labels") or [])]) is None
        if w == "extend":
            from py_gql import build_schema
            return verdict_key(v, e) == verdict_key(*real_validate(build_schema(gs.to_sdl(desc, descriptions=False) + EXTENSION_SDL)))
        return verdict_key(v, e) == src_key
    if how == "setter":
        import random
        edit = inp.get("edit") or inp.get("info", {}).get("edit")
        for reset in ("fresh", "replace"):
            if reset == "replace" and edit == "enum_values_clear":
                continue
            src = build_code(desc)
            src.validate()
            for name, rule, apply, undo in setter_edits(random.Random(0), src):
                if name != edit:
                    continue
                for fn, labels in ((apply, [("setter:" + name, rule)]), (undo, [])):
                    fn()
                    if reset == "fresh":
                        cur = fresh_schema_over(src)
                    else:
                        cur = src
                        victim = [t for t in src.types.values() if not t.name.startswith("__") and t.name not in gs.SCALARS][0]
                        src._replace_types_and_directives({victim.name: copy.copy(victim)})
                    v, e = real_validate(cur)
                    if failure_class(v, e, labels) is not None:
                        return False
                    try:
                        cur.validate()
                        cached = "valid"
                    except Exception:  # noqa
                        cached = "invalid"
                    if cached != v:
                        return False
                    if reset == "replace":
                        break
                if reset == "replace":
                    break
        return True
    if how == "shared-order":
        va, ea = real_validate(build_code(_to_tuples(inp["desc_a"])))
        vb, eb = real_validate(build_code(_to_tuples(inp["desc_b"])))
        return (va, sorted(Counter(r for r, _ in ea).items())) == (vb, sorted(Counter(r for r, _ in eb).items()))
    if how.startswith("perm"):
        b = build_code if "build_code" in how else (lambda d, o: build_sdl(d, o + list(range(len(o), gs.n_definitions(d)))))
        va = real_validate(b(desc, inp["order_a"]))[0]
        vb = real_validate(b(desc, inp["order_b"]))[0]
        return va == vb
    labels = [tuple(l) for l in (inp.get("labels") or [])]
    if how.startswith("corpus"):
        from py_gql import build_schema
        from py_gql.exc import SchemaValidationError
        try:
            s = build_schema(inp["info"]["sdl"])
        except SchemaValidationError as e:   # build_schema validates while building
            rules = Counter(attribute(str(x))[0] for x in e.errors)
            expected = Counter(r for _, r in labels if r)
            return bool(expected) and not (expected - rules)
    elif how == "sdl":
        s = build_sdl(desc)
    else:
        s = build_code(desc)
    verdict, errs = real_validate(s)
    rules = Counter(r for r, _ in errs)
    expected = Counter(r for _, r in labels if r)
    if verdict.startswith("internal"):
        return False
    dmp = dump(s)
    want = spec_rules(dmp, True)
    if (want - rules) or (not want and rules):
        return False
    unc = uncallable_resolvers(s)
    if unc is not None and bool(unc) != any(r in RESOLVER_RULES for r in rules):
        return False
    for opt in (True, False):
        vo, eo = real_validate(s, resolver_validation=opt)
        ro = Counter(r for r, _ in eo)
        exp_o = rules if opt else Counter({r: c for r, c in rules.items() if r not in RESOLVER_RULES})
        if vo.startswith("internal") or ro != exp_o or ((want if opt else spec_rules(dmp, False)) - ro):
            return False
    if inp.get("labels") is None or (inp.get("info") or {}).get("stream") == "compound":
        return True
    if not expected:
        return verdict == "valid"
    return verdict == "invalid" and not (expected - rules)

# -*- coding: utf-8 -*-
"""
C10 — extraction of `Generated/ResponseKeys.lean`: the key names of every `to_dict` / `response()`, the truthiness
filter of `GraphQLLocatedError.to_dict` and the `data=None` flags of the `_abort(...)` sites of `process_graphql_query`.

Two routes per group of facts:

* STATIC (first; it also sees code no request reaches): the expected syntactic shape in the source (`ast`);
* DYNAMIC (fallback when the shape is not recognised, e.g. after a behaviour-preserving rewrite): the same finite table is
  obtained by RUNNING the real code on a COMPLETE enumeration of the finite domain the table ranges over — every error
  class x message {non-empty, ""} x nodes {none, without loc and source, source without loc, loc without source, one, two, mixed} x path {None, [], [key], [key, index], [index]} x
  extensions {absent, None, {}, non-empty} — and every abort site reached through real requests that end at that stage.
  The observed dictionaries must be EXACTLY those the table predicts (same keys, same order, same values) on the whole
  domain, otherwise the extraction fails (`Shape`) and the direct oracle on error objects supplies the failing input.
"""
import ast as pyast
import json

from common import REPO

PART_OF_RUN = False

GRAPHQL = REPO / "src/py_gql/_graphql.py"
EXC = REPO / "src/py_gql/exc.py"
WRAPPERS = REPO / "src/py_gql/execution/wrappers.py"


class Shape(Exception):
    pass


def _find(tree, cls, fn):
    for n in tree.body:
        if isinstance(n, pyast.ClassDef) and n.name == cls:
            for m in n.body:
                if isinstance(m, pyast.FunctionDef) and m.name == fn:
                    return m
    raise Shape("%s.%s not found" % (cls, fn))


def _const_keys(d):
    if not isinstance(d, pyast.Dict) or not all(isinstance(k, pyast.Constant) and isinstance(k.value, str) for k in d.keys):
        raise Shape("dict literal with constant string keys expected")
    return [k.value for k in d.keys]


def static_syntax():
    f = {}
    exc = pyast.parse(EXC.read_text())
    # GraphQLSyntaxError.to_dict: return {"message": ..., "locations": [{"line": line, "<col>": col}]}
    fn = _find(exc, "GraphQLSyntaxError", "to_dict")
    ret = [n for n in pyast.walk(fn) if isinstance(n, pyast.Return)]
    if len(ret) != 1:
        raise Shape("GraphQLSyntaxError.to_dict: one return expected")
    keys = _const_keys(ret[0].value)
    if keys != ["message", "locations"]:
        raise Shape("GraphQLSyntaxError.to_dict keys %r" % keys)
    locs = ret[0].value.values[1]
    if not (isinstance(locs, pyast.List) and len(locs.elts) == 1):
        raise Shape("GraphQLSyntaxError.to_dict: one location expected")
    lk = _const_keys(locs.elts[0])
    lv = [v.id if isinstance(v, pyast.Name) else None for v in locs.elts[0].values]
    if len(lk) != 2 or lv != ["line", "col"]:
        raise Shape("GraphQLSyntaxError.to_dict: location {<k1>: line, <k2>: col} expected")
    f["syntaxLineKey"], f["syntaxColKey"] = lk
    return f


def static_located():
    f = {}
    exc = pyast.parse(EXC.read_text())
    # GraphQLLocatedError.to_dict
    fn = _find(exc, "GraphQLLocatedError", "to_dict")
    kv = [n for n in pyast.walk(fn) if isinstance(n, pyast.Assign) and getattr(n.targets[0], "id", "") == "kv"]
    if len(kv) != 1 or not isinstance(kv[0].value, pyast.Tuple):
        raise Shape("GraphQLLocatedError.to_dict: kv tuple expected")
    names = [e.elts[0].value for e in kv[0].value.elts]
    if names != ["message", "locations", "path"]:
        raise Shape("GraphQLLocatedError.to_dict: kv keys %r" % names)
    comp = [n for n in pyast.walk(kv[0].value.elts[1]) if isinstance(n, pyast.Dict)]
    if len(comp) != 1:
        raise Shape("GraphQLLocatedError.to_dict: one location dict expected")
    lk = _const_keys(comp[0])
    lv = [v.id if isinstance(v, pyast.Name) else None for v in comp[0].values]
    if len(lk) != 2 or lv != ["line", "col"]:
        raise Shape("GraphQLLocatedError.to_dict: location {<k1>: line, <k2>: col} expected")
    f["locatedLineKey"], f["locatedColKey"] = lk
    ret = [n for n in pyast.walk(fn) if isinstance(n, pyast.Return)]
    if len(ret) != 1 or not isinstance(ret[0].value, pyast.DictComp) or len(ret[0].value.generators[0].ifs) != 1:
        raise Shape("GraphQLLocatedError.to_dict: `{k: v for k, v in kv if <cond>}` expected")
    cond = pyast.unparse(ret[0].value.generators[0].ifs[0])
    if cond == "v":
        f["locatedKeepsEmptyMessage"] = False
    elif cond in ("v or k == 'message'", "k == 'message' or v"):
        f["locatedKeepsEmptyMessage"] = True
    else:
        raise Shape("GraphQLLocatedError.to_dict: unknown filter `%s`" % cond)
    return f


def static_resolver():
    f = {}
    exc = pyast.parse(EXC.read_text())
    # ResolverError.to_dict: dict_["extensions"] = dict(self.extensions) guarded by `if self.extensions`
    fn = _find(exc, "ResolverError", "to_dict")
    subs = [n for n in pyast.walk(fn) if isinstance(n, pyast.Subscript) and isinstance(n.ctx, pyast.Store)]
    if len(subs) != 1 or not isinstance(subs[0].slice, pyast.Constant):
        raise Shape("ResolverError.to_dict: one key assignment expected")
    f["resolverExtKey"] = subs[0].slice.value
    return f


def static_execution():
    f = {}
    exc = pyast.parse(EXC.read_text())
    fn = _find(exc, "ExecutionError", "to_dict")
    ret = [n for n in pyast.walk(fn) if isinstance(n, pyast.Return)]
    f["executionKeys"] = _const_keys(ret[0].value)
    if f["executionKeys"] != ["message"]:
        raise Shape("ExecutionError.to_dict keys %r" % f["executionKeys"])
    return f


def static_response():
    f = {}
    # GraphQLResult.response: d["errors"], d["data"], d["extensions"] in that order
    fn = _find(pyast.parse(WRAPPERS.read_text()), "GraphQLResult", "response")
    keys = [n.slice.value for n in pyast.walk(fn)
            if isinstance(n, pyast.Subscript) and isinstance(n.ctx, pyast.Store) and isinstance(n.slice, pyast.Constant)]
    if sorted(keys) != ["data", "errors", "extensions"]:
        raise Shape("GraphQLResult.response keys %r" % keys)
    f["responseKeys"] = keys
    return f


def static_aborts():
    f = {}
    # process_graphql_query: the _abort calls
    tree = pyast.parse(GRAPHQL.read_text())
    pq = [n for n in tree.body if isinstance(n, pyast.FunctionDef) and n.name == "process_graphql_query"]
    if not pq:
        raise Shape("process_graphql_query not found")
    aborts = {}
    for n in pyast.walk(pq[0]):
        if isinstance(n, pyast.Try):
            for h in n.handlers:
                cls = pyast.unparse(h.type)
                for c in pyast.walk(h):
                    if isinstance(c, pyast.Call) and getattr(c.func, "id", "") == "_abort":
                        aborts[cls] = c
        if isinstance(n, pyast.If) and pyast.unparse(n.test) == "not validation_result":
            for c in pyast.walk(n):
                if isinstance(c, pyast.Call) and getattr(c.func, "id", "") == "_abort":
                    aborts["validation"] = c
        # since the N1 fix the syntax abort happens after the parsing `finally`: `if syntax_error is not None: return _abort(...)`
        if isinstance(n, pyast.If) and pyast.unparse(n.test) == "syntax_error is not None":
            for c in pyast.walk(n):
                if isinstance(c, pyast.Call) and getattr(c.func, "id", "") == "_abort":
                    aborts["GraphQLSyntaxError"] = c
    want = {"GraphQLSyntaxError": "abortSyntax", "validation": "abortValidation",
            "VariablesCoercionError": "abortCoercion", "ExecutionError": "abortExecution"}
    if set(aborts) != set(want):
        raise Shape("process_graphql_query: _abort sites %r" % sorted(aborts))
    for cls, c in aborts.items():
        kws = {k.arg: k.value for k in c.keywords}
        if c.args or not set(kws) <= {"data", "errors"} or "errors" not in kws:
            raise Shape("_abort call shape at %s" % cls)
        if "data" in kws and not (isinstance(kws["data"], pyast.Constant) and kws["data"].value is None):
            raise Shape("_abort(data=<not None>) at %s" % cls)
        f[want[cls] + "PassesData"] = "data" in kws
    return f


# ---------------------------------------------------------------------------
# the finite domain, shared by the dynamic route and by the direct oracle on error objects (corr/C10.py)

DOMAIN_TEXT = "{\n  a\n  beta } # é"   # field `a` at offset 4 = (2, 3); field `beta` at offset 8 = (3, 3)
MESSAGES = ["m", ""]
NODE_KINDS = ["none", "noloc", "source-noloc", "loc-nosource", "one", "two", "mixed"]
PATHS = [None, [], ["a"], ["a", 0], [0]]
EXT_KINDS = ["absent", "none", "empty", "one"]
LOCATED_CLASSES = ["GraphQLLocatedError", "ValidationError", "VariableCoercionError", "CoercionError", "MultiCoercionError",
                   "InvalidValue", "SDLError", "ResolverError", "ResolverSubclass"]
EXECUTION_CLASSES = ["ExecutionError", "InvalidOperationError"]


def domain_nodes(kind):
    from py_gql.lang import parse
    from py_gql.lang import ast as _ast
    doc = parse(DOMAIN_TEXT)
    a, b = doc.definitions[0].selection_set.selections
    assert a.loc[0] == 4 and b.loc[0] == 8
    src_noloc = _ast.Field(name=_ast.Name(value="x"), source=DOMAIN_TEXT, loc=None)      # parse(..., no_location=True)
    loc_nosrc = _ast.Field(name=_ast.Name(value="x"), source=None, loc=(4, 5))
    return {"none": None, "noloc": [_ast.Field(name=_ast.Name(value="x"))], "source-noloc": [src_noloc], "loc-nosource": [loc_nosrc],
            "one": [a], "two": [a, b], "mixed": [src_noloc, a, loc_nosrc, b]}[kind]


def make_error(cls, msg, node_kind, path, ext_kind):
    """an error object of the domain (every class is built through its public constructor)"""
    import py_gql.exc as E
    nodes = domain_nodes(node_kind)
    ext = {"absent": None, "none": None, "empty": {}, "one": {"code": 7}}[ext_kind]
    if cls == "ResolverSubclass":
        class AppError(E.ResolverError):
            pass
        return AppError(msg, nodes, path, extensions=ext) if ext_kind != "absent" else AppError(msg, nodes, path)
    if cls == "ResolverError":
        return E.ResolverError(msg, nodes, path, extensions=ext) if ext_kind != "absent" else E.ResolverError(msg, nodes, path)
    if cls == "MultiCoercionError":
        e = E.MultiCoercionError([E.CoercionError(msg, nodes, path)])
        e.nodes, e.path = (list(nodes) if nodes else []), path
        return e
    return getattr(E, cls)(msg, nodes, path)


def located_domain():
    for cls in LOCATED_CLASSES:
        for msg in MESSAGES:
            for nk in NODE_KINDS:
                for path in PATHS:
                    for ek in (EXT_KINDS if cls.startswith("Resolver") else ["absent"]):
                        yield cls, msg, nk, path, ek


def predicted_located(f, e, nk, path, ek):
    """the dictionary the TABLE predicts (= what the Lean model computes from Generated/ResponseKeys.lean)"""
    d = {}
    msg = str(e)
    if msg or f["locatedKeepsEmptyMessage"]:
        d["message"] = msg
    locs = {"none": [], "noloc": [], "source-noloc": [], "loc-nosource": [], "one": [(2, 3)], "two": [(2, 3), (3, 3)],
            "mixed": [(2, 3), (3, 3)]}[nk]
    if locs:
        d["locations"] = [{f["locatedLineKey"]: l, f["locatedColKey"]: c} for l, c in locs]
    if path:
        d["path"] = path
    if ek == "one":
        d[f["resolverExtKey"]] = {"code": 7}
    return d


def _same(a, b):
    """equal dictionaries with equal key order at every level"""
    return json.dumps(a) == json.dumps(b)


def dynamic_located_and_resolver():
    f = {}
    full = make_error("ResolverError", "m", "one", ["a", 0], "one").to_dict()
    keys = list(full)
    if keys[:3] != ["message", "locations", "path"] or len(keys) != 4:
        raise Shape("dynamic: ResolverError.to_dict keys %r" % keys)
    f["resolverExtKey"] = keys[3]
    loc = full["locations"][0]
    lk = [k for k, v in loc.items() if v == 2]
    ck = [k for k, v in loc.items() if v == 3]
    if len(loc) != 2 or len(lk) != 1 or len(ck) != 1 or list(loc) != [lk[0], ck[0]]:
        raise Shape("dynamic: location dictionary %r for (line 2, column 3)" % (loc,))
    f["locatedLineKey"], f["locatedColKey"] = lk[0], ck[0]
    f["locatedKeepsEmptyMessage"] = "message" in make_error("GraphQLLocatedError", "", "one", ["a"], "absent").to_dict()
    n = 0
    for cls, msg, nk, path, ek in located_domain():
        e = make_error(cls, msg, nk, path, ek)
        got = e.to_dict()
        want = predicted_located(f, e, nk, path, ek)
        n += 1
        if not _same(got, want):
            raise Shape("dynamic: %s(message=%r, nodes=%s, path=%r, extensions=%s).to_dict() = %r, the table predicts %r"
                        % (cls, msg, nk, path, ek, got, want))
    f["_domain_size"] = n
    return f


def dynamic_syntax():
    import py_gql.exc as E
    f = {}
    for cls in ("GraphQLSyntaxError", "UnexpectedToken", "UnexpectedEOF", "NonTerminatedString", "InvalidCharacter",
                "UnexpectedCharacter", "InvalidEscapeSequence"):
        for pos, lc in ((0, (1, 1)), (4, (2, 3)), (8, (3, 3)), (len(DOMAIN_TEXT), (3, len(DOMAIN_TEXT.split("\n")[2]) + 1))):
            e = E.UnexpectedEOF(pos, DOMAIN_TEXT) if cls == "UnexpectedEOF" else getattr(E, cls)("m", pos, DOMAIN_TEXT)
            d = e.to_dict()
            if list(d) != ["message", "locations"] or d["message"] != str(e) or len(d["locations"]) != 1 or len(d["locations"][0]) != 2:
                raise Shape("dynamic: %s.to_dict() = %r" % (cls, d))
            loc = d["locations"][0]
            if pos == 4:
                lk = [k for k, v in loc.items() if v == 2]
                ck = [k for k, v in loc.items() if v == 3]
                if len(lk) != 1 or len(ck) != 1 or list(loc) != [lk[0], ck[0]]:
                    raise Shape("dynamic: syntax location %r for (2, 3)" % (loc,))
                keys = (lk[0], ck[0])
                if f.setdefault("keys", keys) != keys:
                    raise Shape("dynamic: syntax error classes disagree on the location keys")
        for pos, lc in ((0, (1, 1)), (8, (3, 3)), (len(DOMAIN_TEXT), (3, len(DOMAIN_TEXT.split("\n")[2]) + 1))):
            e = E.UnexpectedEOF(pos, DOMAIN_TEXT) if cls == "UnexpectedEOF" else getattr(E, cls)("m", pos, DOMAIN_TEXT)
            if e.to_dict()["locations"][0] != {f["keys"][0]: lc[0], f["keys"][1]: lc[1]}:
                raise Shape("dynamic: %s at %d -> %r" % (cls, pos, e.to_dict()["locations"]))
    return {"syntaxLineKey": f["keys"][0], "syntaxColKey": f["keys"][1]}


def dynamic_execution():
    import py_gql.exc as E
    for cls in EXECUTION_CLASSES:
        for msg in MESSAGES:
            d = getattr(E, cls)(msg).to_dict()
            if not _same(d, {"message": msg}):
                raise Shape("dynamic: %s(%r).to_dict() = %r" % (cls, msg, d))
    return {"executionKeys": ["message"]}


def dynamic_response():
    import py_gql.exc as E
    from py_gql.execution import GraphQLResult
    from py_gql.execution.wrappers import GraphQLExtension

    class Ext(GraphQLExtension):
        name = "tracing"

        def payload(self):
            return {"t": 1}
    seen = None
    for data in ("unset", None, {"a": 1}):
        for errs in ([], [E.ExecutionError("m")]):
            for ext in (False, True):
                r = GraphQLResult(errors=errs) if data == "unset" else GraphQLResult(data=data, errors=errs)
                if ext:
                    r.add_extension(Ext())
                d = r.response()
                want = {}
                if errs:
                    want["errors"] = [{"message": "m"}]
                if data != "unset":
                    want["data"] = data
                if ext:
                    want["extensions"] = {"tracing": {"t": 1}}
                if not _same(d, want):
                    raise Shape("dynamic: GraphQLResult(data=%r, errors=%d, extension=%s).response() = %r" % (data, len(errs), ext, d))
                if len(d) == 3:
                    seen = list(d)
    return {"responseKeys": seen}


ABORT_REQUESTS = {
    "abortSyntax": [("{", None, None), ("", None, None), ("{ a(", None, None), ("query Q($x: Int { a }", None, {"x": 1})],
    "abortValidation": [("{ zz }", None, None), ("{ a { b } }", None, None), ("query Q($u: Int) { a }", None, None),
                        ("{ a } { a }", None, None)],
    "abortCoercion": [("query Q($x: Int!) { a(x: $x) }", None, {}), ("query Q($x: Int!) { a(x: $x) }", None, {"x": None}),
                      ("query Q($x: Int!) { a(x: $x) }", None, {"x": "abc"}), ("query Q($x: Int!, $y: Int!) { a(x: $x) b: a(x: $y) }", "Q", {})],
    "abortExecution": [("query A { a } query B { a }", None, None), ("query A { a } query B { a }", "C", None), ("query A { a }", "B", None),
                       ("mutation { a }", None, None), ("subscription { a }", None, None)],
}


def dynamic_aborts():
    """every `_abort` site reached through real requests that end at that stage (all four configurations of the entry points
    share `process_graphql_query`); the flag is whether the response carries `data`"""
    from py_gql import build_schema, process_graphql_query, graphql_blocking
    schema = build_schema("type Query { a(x: Int): Int } type Subscription { a: Int }")
    f = {}
    for site, reqs in ABORT_REQUESTS.items():
        seen = set()
        for text, opn, variables in reqs:
            for entry in (process_graphql_query, graphql_blocking):
                kw = {}
                if opn is not None:
                    kw["operation_name"] = opn
                if variables is not None:
                    kw["variables"] = variables
                r = entry(schema, text, **kw)
                d = r.response()
                if "errors" not in d or ("data" in d and d["data"] is not None):
                    raise Shape("dynamic: request %r does not end at %s: %r" % (text, site, d))
                seen.add("data" in d)
        if len(seen) != 1:
            raise Shape("dynamic: %s passes data for some requests only" % site)
        f[site + "PassesData"] = seen.pop()
    return f


GROUPS = [
    ("syntax", static_syntax, dynamic_syntax),
    ("located", static_located, None),
    ("resolver", static_resolver, None),
    ("execution", static_execution, dynamic_execution),
    ("response", static_response, dynamic_response),
    ("aborts", static_aborts, dynamic_aborts),
]


def facts():
    """-> (facts, {group: 'static' | 'dynamic'})"""
    from common import ensure_repo_on_path
    ensure_repo_on_path()
    f, routes = {}, {}
    need_dyn_located = False
    for name, static, dynamic in GROUPS:
        try:
            f.update(static())
            routes[name] = "static"
        except (Shape, AttributeError, IndexError, KeyError, TypeError) as e:
            if dynamic is None:
                need_dyn_located = True
                routes[name] = "dynamic"
                continue
            f.update(dynamic())
            routes[name] = "dynamic"
    if need_dyn_located:
        # located + resolver share one enumeration (the resolver key is part of the same dictionaries)
        d = dynamic_located_and_resolver()
        for k in ("locatedLineKey", "locatedColKey", "locatedKeepsEmptyMessage", "resolverExtKey"):
            grp = "resolver" if k == "resolverExtKey" else "located"
            if routes.get(grp) == "dynamic" or k not in f:
                f[k] = d[k]
    return f, routes

# -*- coding: utf-8 -*-
"""
C10 — every outcome is a well-formed, serialisable response; failures stay contained.

Direct oracle (the statement, on the real code): for every request pushed through
`graphql_blocking` / `process_graphql_query` (4 executor/runtime configurations):
a result is returned, `json.dumps(result.response(), allow_nan=False)` succeeds and
`result.json()` parses back, the response is `WellFormed` (spec §7.1), every location is
inside the submitted text, `data` is omitted when parsing / validation failed, and the
nulls at non-null positions / at fields whose resolver raised `ResolverError` are in
bijection with the errors (by path).

Correspondence: the stage outcomes of the real stage functions (parse, validate_ast,
get_operation_with_type, coerce_variable_values, execute) are sent to the Lean model of
`process_graphql_query` + `to_dict` + `GraphQLResult.response` + `index_to_loc`
(`PyGqlModel/Response.lean`); the model's response is compared with the real one. The
executor's error capture (`resolve_field` / `complete_value` / `_handle_non_nullable_value`)
is compared through typed outcome trees recorded from the resolver world.
"""
import ast as pyast
import asyncio
import json

from common import REPO, CORPUS
from corr import C10_gen as G
from corr import C10_oracle as O
from gen import schema as gs

PROPERTY = "C10"
RULE = ("text stream: every truncation of hand-written documents and of tests/fixtures (sampled for the two large ones), "
        "multi-line texts with LF/CR/CRLF and non-ASCII, malformed texts; request stream: generated schema + generated "
        "document (valid, or invalidated in one of 8 ways) + operation name + variable payload (ok/missing/null/wrong) + "
        "resolver world (value/null/ResolverError with/without extensions per response path; fresh, subclass, SHARED instance or bogus-path errors); "
        "errors rendered (to_dict/str/repr) by a logging middleware, by the resolver, or at creation (module-level constants living across "
        "requests) before the executor registers them; extensions as dict / OrderedDict / MappingProxyType / custom Mapping / nested containers; "
        "3-request histories where each rendered response is decorated (requestId) before the next request; "
        "every stream rotates through the SUBMISSION FORMS the entry points accept (source str; pre-parsed Document with locations; parsed with "
        "no_location=True; stripped of loc and source as a hand-built / visitor-rewritten document); HOSTILE TEXT (%, %s, %(x)s, {}, {0}, backslashes, "
        "quotes, line ends, NUL, astral, lone surrogates, 5000 characters) in every request string that reaches an error message: rejected variable values "
        "(scalars, enums, lists, input objects, keys), operation names, literals echoed by validation, variable defaults, resolver messages and extensions; "
        "non-finite floats bare and nested in lists / objects at custom-scalar positions, as variables (echoed) and as resolver results; "
        "application subclasses of ResolverError with __slots__, class-level or property `extensions`, their own constructor signature, __copy__ overrides; "
        "resolver error messages that are not str (wrapped exceptions, numbers, None, bytes, lists); "
        "ResolverErrors raised while a value is COMPLETED (resolve_type of abstract types, lazy iterables failing mid-iteration, custom serialisers) "
        "at object/list/leaf positions; @skip/@include on fields, inline fragments and spreads whose condition only fails at execution time "
        "(root and nested, below lists); numeric extremes (inf, nan, 1e308, 10**400, 2**31, denormals...) as variables and literals for Int/Float/ID/"
        "Boolean/custom scalars; execution-time argument coercion failures under lists of 2-4 items on all 4 configurations; DETERMINISTIC class linechars: U+2028 / U+2029 / U+0085 "
        "(line boundaries for str.splitlines, NOT GraphQL LineTerminators) inside a string, a block string and a comment BEFORE the position of a syntax / "
        "validation / variable-coercion / field error, VT/FF/FS/GS/RS as non-source characters, the same characters in the index_to_loc / splitLines "
        "correspondence sample; non-trivial = distinct "
        "(text, operation name, variables, world) whose response has errors, or whose data has depth >= 2")
ASSUMPTIONS = [
    "resolvers return values their field type can serialise, or raise the library's ResolverError; any other exception "
    "(incl. RuntimeError 'cannot be serialized' for a wrong/non-finite value) propagates by design (pinned by tests/test_execution) and is outside the statement",
    "custom scalar serialisers return JSON values; error `extensions` supplied by the application are Mappings (any kind) of JSON values "
    "(the documented `Optional[Mapping[str, Any]]`): a non-Mapping or non-JSON extension is an application error — drawn by the `bad-extensions` worlds, "
    "where only containment (the entry point returns a result) is required; a resolver error MESSAGE may be any object and must be reported as a string",
    "a server may decorate the TOP LEVEL of an error's `extensions` in a rendered response; mutation of NESTED containers inside extensions is not exercised (to_dict copies one level)",
    "a root-level failure (root selection set cannot be collected) is the site with the EMPTY path: `data` is null and there is exactly one error, "
    "without a `path` entry; errors collected below a field before its completion failed are dominated by that field's error and not counted",
    "the entry points accept `Union[str, Document]`: bytes are not a submission form (a bytes object is taken for a Document) and are not exercised",
    "for a Document without locations (or nodes without source) `locations` is absent from every error; when present they must lie inside the text the document was parsed from",
    "lines of the submitted text are delimited by the spec's LineTerminator (LF | CR | CRLF)",
]
TRUSTED = [
    "extraction of Generated/ResponseKeys.lean: static route = the expected syntactic shape; dynamic fallback = the same table obtained by running the real "
    "code on the COMPLETE finite domain (9 located classes x 2 messages x 7 node kinds x 5 paths x 4 extension kinds = 1050 error objects, 7 syntax-error "
    "classes x 4 positions, 2 execution classes, 12 GraphQLResult shapes, 17 requests x 2 entry points over the 4 abort sites) and required to match the table's prediction everywhere",
    "error objects are values in the Lean model: sharing/mutation of one exception object between registrations (X6, cached coercion failures) is exercised by the oracle (null sites computed without looking at the errors) and the correspondence, not proved",
    "highlight_location (the text after the message of a syntax error) is opaque in the model: only its totality for positions <= len is exercised",
    "stage outcomes (error positions, paths, extensions, data) are observed through the real stage functions; scalar serialisers are exercised, not modelled; "
    "the hypotheses response_wellformed_pipeline keeps about them (LaterOk: error nodes start at tokens of the submitted text; error classes of the stage "
    "record) are checked on the real errors of every request submitted as text (corr:stage-hypothesis:*)",
]

GRAPHQL = REPO / "src/py_gql/_graphql.py"
EXC = REPO / "src/py_gql/exc.py"
WRAPPERS = REPO / "src/py_gql/execution/wrappers.py"


# ---------------------------------------------------------------------------
# extraction: keys of every to_dict / response(), the filter of GraphQLLocatedError.to_dict,
# and the keyword arguments of every `_abort(...)` in process_graphql_query

from corr import C10_extract as X  # noqa: E402

Shape = X.Shape


def source_facts():
    return X.facts()[0]


def extract(ctx):
    f, routes = X.facts()
    if ctx is not None:
        ctx.extra["extraction"] = "static" if all(r == "static" for r in routes.values()) else "dynamic"
        ctx.extra["extraction_routes"] = routes

    def s(x):
        return json.dumps(x)

    def b(x):
        return "true" if x else "false"
    lines = [
        "/- GENERATED on every run by harness/corr/C10.py from src/py_gql/exc.py, execution/wrappers.py, _graphql.py. DO NOT EDIT. -/",
        "namespace PyGql.Generated.ResponseKeys", "",
        "/-- `GraphQLSyntaxError.to_dict`: `{\"message\": …, \"locations\": [{<line key>: line, <column key>: col}]}` -/",
        "def syntaxLineKey : String := %s" % s(f["syntaxLineKey"]),
        "def syntaxColKey : String := %s" % s(f["syntaxColKey"]),
        "/-- `GraphQLLocatedError.to_dict` -/",
        "def locatedLineKey : String := %s" % s(f["locatedLineKey"]),
        "def locatedColKey : String := %s" % s(f["locatedColKey"]),
        "/-- the filter of `GraphQLLocatedError.to_dict` keeps `message` even when it is the empty string -/",
        "def locatedKeepsEmptyMessage : Bool := %s" % b(f["locatedKeepsEmptyMessage"]),
        "def resolverExtKey : String := %s" % s(f["resolverExtKey"]),
        "/-- `process_graphql_query`: does the `_abort(...)` call of the stage pass `data=None`? -/",
        "def abortSyntaxPassesData : Bool := %s" % b(f["abortSyntaxPassesData"]),
        "def abortValidationPassesData : Bool := %s" % b(f["abortValidationPassesData"]),
        "def abortCoercionPassesData : Bool := %s" % b(f["abortCoercionPassesData"]),
        "def abortExecutionPassesData : Bool := %s" % b(f["abortExecutionPassesData"]),
        "", "end PyGql.Generated.ResponseKeys", ""]
    return {"PyGqlModel/Generated/ResponseKeys.lean": "\n".join(lines)}


# ---------------------------------------------------------------------------
# running the real code

CONFIGS = ["blocking", "default", "asyncio", "threadpool"]
_POOL = {}


def call_entry(cfg, schema, document, **kw):
    """-> ('ok', GraphQLResult) | ('raised', exception)"""
    from py_gql import graphql, graphql_blocking, process_graphql_query
    try:
        if cfg == "blocking":
            return "ok", graphql_blocking(schema, document, **kw)
        if cfg == "default":
            return "ok", process_graphql_query(schema, document, **kw)
        if cfg == "asyncio":
            loop = _POOL.get("loop")
            if loop is None:
                loop = _POOL["loop"] = asyncio.new_event_loop()
            return "ok", loop.run_until_complete(graphql(schema, document, **kw))
        if cfg == "threadpool":
            from py_gql.execution.runtime import ThreadPoolRuntime
            rt = _POOL.get("tp")
            if rt is None:
                rt = _POOL["tp"] = ThreadPoolRuntime(max_workers=3)
            return "ok", process_graphql_query(schema, document, runtime=rt, **kw).result(timeout=30)
    except Exception as e:  # noqa: anything escaping the entry point is an outcome
        return "raised", e
    raise ValueError(cfg)


def shutdown():
    loop = _POOL.pop("loop", None)
    if loop is not None:
        loop.close()
    tp = _POOL.pop("tp", None)
    if tp is not None:
        tp._inner.shutdown(wait=False)


def safe_str(e):
    try:
        return O.clean(str(e))
    except TypeError:       # `__str__ returned non-string`: the message object is not a str (reported by the oracle)
        return "<non-str message>"


def abs_err(e):
    """abstract form of an error object (what the model's `to_dict` consumes)"""
    from py_gql.exc import GraphQLSyntaxError, ResolverError, GraphQLLocatedError, ExecutionError
    if isinstance(e, GraphQLSyntaxError):
        # the position `to_dict` renders (a clamped one if the L6 fix of the lexer engineer is in)
        pos = e._render_position() if hasattr(e, "_render_position") else e.position
        return {"cls": "syntax", "msg": safe_str(e), "pos": pos}
    if isinstance(e, GraphQLLocatedError):
        d = {"cls": "resolver" if isinstance(e, ResolverError) else "located", "msg": safe_str(e),
             "nodes": [(n.loc[0] if (n.loc and n.source) else None) for n in e.nodes],
             "path": list(e.path) if e.path is not None else None}
        if isinstance(e, ResolverError):
            try:
                if type(e).to_dict is not ResolverError.to_dict:
                    # an application subclass rendering its own dictionary: its extensions are what IT renders
                    d["ext"] = O.enc(e.to_dict().get("extensions"))
                else:
                    d["ext"] = O.enc(dict(e.extensions)) if e.extensions is not None else None
            except (TypeError, ValueError, AttributeError):     # extensions that are not a Mapping (outside the contract; `bad-extensions` worlds)
                d["ext"] = {"$nonjson": type(e.extensions).__name__}
        return d
    if isinstance(e, ExecutionError):
        return {"cls": "execution", "msg": safe_str(e)}
    return {"cls": "other:" + type(e).__name__, "msg": safe_str(e)}


def observe_stages(schema, text, operation_name, variables, executor="blocking", middlewares=None, document=None, context=None):
    """
    Run the real stage functions one by one. -> (stages dict for the model, failed stage or None,
    ('internal', stage, exc) if a stage raised something that is not its documented exception).
    """
    from py_gql.exc import GraphQLSyntaxError, VariablesCoercionError, ExecutionError
    from py_gql.lang import parse
    from py_gql.validation import validate_ast
    from py_gql.execution import execute, BlockingExecutor, Executor
    from py_gql.execution.get_operation import get_operation_with_type
    from py_gql.utilities import coerce_variable_values
    st = {"text": O.cps(text)}
    try:
        doc = document if document is not None else parse(text)
    except GraphQLSyntaxError as e:
        try:
            st["parse"] = abs_err(e)
        except IndexError:
            return st, "parse", ("range", e.position, len(text))
        return st, "parse", None
    except Exception as e:  # noqa
        return st, "parse", ("internal", "parse", e)
    try:
        v = validate_ast(schema, doc)
    except Exception as e:  # noqa
        return st, "validate", ("internal", "validate", e)
    st["validate"] = [abs_err(e) for e in v.errors]
    if v.errors:
        return st, "validate", None
    try:
        op, _root = get_operation_with_type(schema, doc, operation_name)
    except ExecutionError as e:
        st["getop"] = abs_err(e)
        return st, "getop", None
    except Exception as e:  # noqa
        return st, "getop", ("internal", "getop", e)
    try:
        coerce_variable_values(schema, op, variables or {})
    except VariablesCoercionError as e:
        st["coerce"] = [abs_err(x) for x in e.errors]
        return st, "coerce", None
    except Exception as e:  # noqa
        return st, "coerce", ("internal", "coerce", e)
    try:
        r = execute(schema, doc, operation_name=operation_name, variables=variables, middlewares=middlewares, context_value=context,
                    executor_cls=BlockingExecutor if executor == "blocking" else Executor)
    except ExecutionError as e:     # e.g. subscription operation (after the proposed fix)
        st["getop"] = abs_err(e)
        return st, "getop", None
    except Exception as e:  # noqa
        return st, "execute", ("internal", "execute", e)
    st["exec"] = {"data": O.enc(r.data), "errors": [abs_err(e) for e in r.errors]}
    return st, None, None


def check_stage_hypotheses(ctx, text, stages, failed, detail):
    """
    What `Props/C10_stages.lean` still ASSUMES about the stages after parsing (`LaterOk.nodes`) and what it encodes in the
    TYPES of the composed stage record (`LocatedE`, `IsFieldError`), checked on the real error objects of a request that
    was submitted as text: validation / variable-coercion errors are plain located errors, the executor's errors are
    resolver errors carrying a path (a lone path-less one = the root selection could not be collected), and every node
    with a location starts at a TOKEN of the submitted text (real lexer). Disagreements are about the hypotheses of a
    theorem, not about the property: kind="correspondence".
    """
    from py_gql.lang import Lexer
    from py_gql.exc import GraphQLSyntaxError
    if failed == "parse":
        return
    try:
        starts = {t.start for t in Lexer(text)}
    except GraphQLSyntaxError:
        ctx.fail("corr:stage-hypothesis:parsed-text-does-not-lex", "the parse stage accepted a text the lexer rejects",
                 dict(detail), kind="correspondence")
        return
    ctx.stat("stage-hypotheses-checked")

    def nodes_ok(stage, e):
        for n in e.get("nodes") or []:
            if n is not None and n not in starts:
                ctx.fail("corr:stage-hypothesis:error-node-not-at-token:" + stage,
                         "an error of the %s stage carries a node whose position %r is not the start of a token of the text "
                         "(hypothesis LaterOk.nodes of response_wellformed_pipeline)" % (stage, n), dict(detail, error=e), kind="correspondence")
                return

    for stage in ("validate", "coerce"):
        for e in stages.get(stage) or []:
            if e.get("cls") != "located":
                ctx.fail("corr:stage-hypothesis:error-class:%s:%s" % (stage, e.get("cls")),
                         "the %s stage reported an error that is not a plain GraphQLLocatedError (the composed stage record types "
                         "them as LocatedE)" % stage, dict(detail, error=e), kind="correspondence")
            else:
                nodes_ok(stage, e)
    ex = stages.get("exec")
    if failed is None and isinstance(ex, dict):
        errs = ex.get("errors") or []
        root_failure = ex.get("data") is None and len(errs) == 1 and errs[0].get("path") is None
        for e in errs:
            # `located` = the CoercionError of an argument that failed to coerce at execution time (the model's `Out.raised`
            # with `ext = none`: rendered like a ResolverError without extensions)
            if e.get("cls") not in ("resolver", "located") or (e.get("path") is None and not root_failure):
                ctx.fail("corr:stage-hypothesis:error-class:exec:%s" % e.get("cls"),
                         "the executor registered an error that is not a ResolverError / CoercionError with a response path "
                         "(executed_errors_are_resolver_errors)", dict(detail, error=e), kind="correspondence")
            else:
                nodes_ok("exec", e)


# ---------------------------------------------------------------------------
# outcome trees for the executor model

def ty_json(t):
    from py_gql.schema import ListType, NonNullType
    if isinstance(t, NonNullType):
        return {"k": "nonNull", "t": ty_json(t.type)}
    if isinstance(t, ListType):
        return {"k": "list", "t": ty_json(t.type)}
    return {"k": "named", "n": t.name}


def outcome_tree(world, schema, data, coercion_nodes=None):
    """
    typed outcome tree of the root selection, from the calls recorded by the world (blocking order).
    Fields the world does not resolve (`__typename` and the other introspection fields) are taken
    from `data` (the wire-encoded real result) as opaque leaves at their place in key order.
    """
    from py_gql.schema import ListType, NonNullType, ObjectType, InterfaceType, UnionType
    coercion_nodes = coercion_nodes or {}
    by_path = {path: (path, ftype, nodes, o) for path, ftype, nodes, o in world.calls}
    order = {}
    for path, ftype, nodes, o in world.calls:
        order.setdefault(path[:-1], []).append(path[-1])

    def fields(parent, dv):
        keys = list(dv.keys()) if isinstance(dv, dict) else order.get(parent, [])
        out = []
        for k in keys:
            c = by_path.get(parent + (k,))
            if c is None:
                if dv[k] is None:
                    # never resolved and null: argument coercion failed (`fail`), same path as a raised resolver
                    out.append({"key": k, "ty": {"k": "named", "n": "<unresolved>"}, "nodes": coercion_nodes.get(parent + (k,), ([], None))[0],
                                "o": {"k": "raised", "msg": "<coercion>", "ext": None}})
                else:
                    out.append({"key": k, "ty": {"k": "named", "n": "<introspection>"}, "nodes": [], "o": {"k": "leaf", "v": dv[k]}})
                continue
            path, ftype, nodes, o = c
            sub = dv.get(k) if isinstance(dv, dict) else None
            if o[0] == "value" and sub is None and path in coercion_nodes and (path in world.completion_raised or composite_value(o[1])):
                # the field's value was resolved but its COMPLETION failed: null + one error, like a raised resolver
                cn, cext = coercion_nodes[path]
                out.append({"key": k, "ty": ty_json(ftype), "nodes": cn, "o": {"k": "raised", "msg": "<completion>", "ext": cext}})
                continue
            if o[0] == "raised":
                node = {"k": "raised", "msg": O.clean(o[1]), "ext": O.enc(o[2]) if o[2] is not None else None}
            else:
                node = value(ftype, o[1], path, sub)
            out.append({"key": k, "ty": ty_json(ftype), "nodes": nodes, "o": node})
        return out

    def value(t, v, path, dv):
        if isinstance(t, NonNullType):
            return value(t.type, v, path, dv)
        if v is None:
            return {"k": "null"}
        if isinstance(t, ListType):
            return {"k": "list", "items": [value(t.type, x, path + (i,), dv[i] if isinstance(dv, list) and i < len(dv) else None)
                                          for i, x in enumerate(v)]}
        if isinstance(t, (ObjectType, InterfaceType, UnionType)):
            return {"k": "obj", "fields": fields(path, dv)}
        from py_gql.schema import EnumType
        sv = t.get_name(v) if isinstance(t, EnumType) else t.serialize(v)
        return {"k": "leaf", "v": O.enc(sv)} if sv is not None else {"k": "null"}
    return fields((), data)


def composite_value(v):
    """a resolver value whose completion can never yield null: an object (dict with a type name) or a list / lazy iterable"""
    return isinstance(v, (list, G.LazyList)) or (isinstance(v, dict) and "__typename__" in v)


def expected_sites(world, data):
    """
    The statement's right-hand side, computed WITHOUT looking at the errors:
      * fields whose resolver raised;
      * nulls at non-null positions;
      * fields that are null in `data` although the world never resolved them (argument coercion failed at execution time);
      * fields the world resolved to an object / list (or to a value whose completion raised ResolverError: `resolve_type`,
        lazy iterable, custom serialiser; or whose selection set could not be collected: invalid @skip/@include condition)
        and that are null in `data`: COMPLETION FAILURE of the field, one error with the field's path, no second error
        for a non-null type. Errors collected below such a field before it failed are dominated by it;
      * `data` itself null after execution started (the root selection set could not be collected): the ROOT is the
        site, its path is empty and the error carries no `path` entry.
    Introspection fields (`__typename`) are never resolved by the world either, but are never null.
    -> (sites, unresolved null sites, completion failure sites)
    """
    from py_gql.schema import ListType, NonNullType
    if data is None:
        return [()], [], []
    raised = [tuple(p) for p, _t, _n, o in world.calls if o[0] == "raised"]
    ftypes = {tuple(p): t for p, t, _n, o in world.calls}
    values = {tuple(p): o[1] for p, _t, _n, o in world.calls if o[0] == "value"}
    sites = list(raised)
    unresolved = []
    completion = []
    skip = set(sites)

    def walk_obj(v, path):
        for k, x in v.items():
            p = path + (k,)
            ft = ftypes.get(p)
            if ft is not None:
                if x is None and p in values and (p in world.completion_raised or composite_value(values[p])):
                    sites.append(p)
                    completion.append(p)
                    continue
                walk(ft, x, p)
            elif x is None:
                sites.append(p)
                unresolved.append(p)

    def walk(t, v, path):
        if isinstance(t, NonNullType):
            if v is None and path not in skip:
                sites.append(path)
            return walk(t.type, v, path)
        if v is None:
            return
        if isinstance(t, ListType):
            for i, x in enumerate(v):
                walk(t.type, x, path + (i,))
        elif isinstance(v, dict) and not getattr(t, "_serialize", None):
            walk_obj(v, path)
    if isinstance(data, dict):
        walk_obj(data, ())
    return sites, unresolved, completion


# ---------------------------------------------------------------------------
# one case = one request on one configuration

FORMS = ["str", "doc", "doc-noloc", "doc-bare"]


def submission(text, form):
    """
    the object handed to the entry point: the source text, a pre-parsed Document (with locations / parsed with
    `no_location=True`: nodes keep `source`, `loc` is None / stripped by hand: `loc` and `source` None, as a document
    built by hand or rewritten by a visitor). A text that does not parse can only be submitted as text.
    """
    if form == "str":
        return text
    from py_gql.lang import parse
    from py_gql.lang import ast as _ast
    from py_gql.exc import GraphQLSyntaxError
    try:
        doc = parse(text, no_location=(form == "doc-noloc"))
    except (GraphQLSyntaxError, IndexError):
        return text
    if form == "doc-bare":
        seen = set()

        def strip(n):
            if isinstance(n, _ast.Node) and id(n) not in seen:
                seen.add(id(n))
                try:
                    n.loc = None
                    n.source = None
                except AttributeError:
                    pass
                for a in getattr(n, "__slots__", ()):
                    strip(getattr(n, a, None))
            elif isinstance(n, (list, tuple)):
                for x in n:
                    strip(x)
        strip(doc)
    return doc


def canon_resp(resp, sort_errors):
    r = O.enc(resp)
    if sort_errors and isinstance(r, dict) and isinstance(r.get("errors"), list):
        r = dict(r)
        r["errors"] = sorted(r["errors"], key=lambda e: json.dumps(e, sort_keys=True))
    return r


class Case:
    def __init__(self, ctx, stream):
        self.ctx = ctx
        self.stream = stream
        self.model_reqs = []     # (request, callback(answer))


def check_case(ctx, case, pending):
    """
    case: dict(stream, sdl | schema_id, text, operation_name, variables, world, cfg)
    Runs the real entry point + direct oracle; queues model requests in `pending`.
    Returns list of property-failure signatures (for replay).
    """
    schema = case["_schema"]
    holder = case.get("_holder")
    text = case["text"]
    cfg = case["cfg"]
    kw = {}
    if case.get("operation_name") is not None:
        kw["operation_name"] = case["operation_name"]
    if case.get("variables") is not None:
        kw["variables"] = case["variables"]
    mws = [G.logging_middleware] if case.get("middleware") else None
    if mws:
        kw["middlewares"] = mws
        ctx.stat("with-logging-middleware")
    sigs = []
    detail = {k: v for k, v in case.items() if not k.startswith("_")}

    def fail(sig, what, extra=None):
        sigs.append(sig)
        d = dict(detail)
        if extra is not None:
            d["observed"] = extra
        ctx.fail(sig, what, d)

    world = None
    sync_schema, sync_holder = case["_sync"]
    wparams = case.get("world") or {"seed": 0}
    world_s = sync_holder.world = G.World(schema=sync_schema, **wparams)
    world_s.slow_deep_ms = 0        # the separately observed (blocking) stages need no delays
    # --- stages, observed separately (sync resolvers, blocking executor) ---------------------
    form = case.get("form") or "str"
    subm = submission(text, form)
    if isinstance(subm, str):
        form = "str"
    ctx.stat("form:" + form)
    stages, failed, internal = observe_stages(sync_schema, text, case.get("operation_name"), case.get("variables"), middlewares=mws,
                                              document=None if form == "str" else submission(text, form), context=world_s)
    calls_blocking = list(world_s.calls)
    injected = bool(world_s.injected_nonfinite)
    ctx.stat("stage:" + (failed or "executed"))
    # --- the entry point ------------------------------------------------------------------------------
    world = holder.world = G.World(schema=schema, **wparams)
    kw["context"] = world
    status, res = call_entry(cfg, schema, subm, **kw)
    ctx.count()
    if status == "raised":
        cls = type(res).__name__
        if isinstance(res, IndexError) and internal and internal[0] == "range":
            fail("syntax-error-position-out-of-range",
                 "syntax error position %d > len %d: rendering the error raises IndexError" % (internal[1], internal[2]))
        elif isinstance(res, RuntimeError) and "cannot be serialized" in str(res) and injected:
            ctx.stat("documented:RuntimeError-non-finite-float")   # by design, see ASSUMPTIONS
        else:
            stage = internal[1] if internal and internal[0] == "internal" else (failed or "execute")
            fail("entry-point-raises:%s:%s" % (stage, cls), "the entry point raised %s instead of returning a result: %s" % (cls, str(res)[:200]))
        return sigs
    resp, problems = O.strict_json_problems(res)
    if world is not None and world.injected_bad_ext:
        # extensions outside the documented contract (not a Mapping / values that are not JSON): an application error, outside the
        # statement; what IS checked: the entry point returned a result (failure contained) — rendering may fail
        ctx.stat("documented:extensions-outside-contract:" + ("renders" if not problems else problems[0][0].split(":")[0]))
        return sigs
    for sig, d in problems:
        if sig.startswith("response-raises:IndexError") and internal and internal[0] == "range":
            sig = "syntax-error-position-out-of-range"
        if sig == "non-finite-float-in-response":
            sig += ":" + nonfinite_position(schema, resp)
        if sig == "response-raises:AttributeError" and world is not None:
            kinds = set()
            for e in res.errors:
                try:
                    e.to_dict()
                except AttributeError:
                    kinds.add(type(e).__name__)
                except Exception:  # noqa
                    pass
            if kinds:
                sig = "error-subclass-state-lost:" + sorted(kinds)[0]     # the executor's copy of the error lost attributes of the subclass
        if sig == "response-raises:TypeError" and "returned non-string" in d and world is not None and world.injected_nonstr:
            sig = "resolver-error-message-not-str"      # ResolverError(<exception / int / None>): the message is not coerced
        fail(sig, "response is not strict JSON / not serialisable: " + d)
    if resp is None:
        return sigs
    for sig, d in O.well_formed(resp, text):
        fail(sig, "response is not well-formed (spec 7.1): " + d, {"response": O.enc(resp)})
    if world is not None and isinstance(resp.get("data"), dict):
        foreign = [list(p) for p, _t, _n, _o in list(world.calls) if p and p[0] not in resp["data"]]
        if foreign:
            ctx.fail("harness:foreign-world-record", "the resolver log of this request contains paths of another request (harness race)",
                     dict(detail, foreign=foreign[:5]), kind="correspondence")
    has_data = "data" in resp
    if failed in ("parse", "validate") and has_data:
        fail("data-present-after-%s-failure" % failed, "`data` must be omitted when the document failed to parse or validate",
             {"response": O.enc(resp)})
    if failed is None and not has_data:
        fail("data-missing-after-execution", "executed request without `data`", {"response": O.enc(resp)})
    if failed is not None and "errors" not in resp:
        fail("no-errors-after-%s-failure" % failed, "stage failed but the response has no errors", {"response": O.enc(resp)})
    # --- null <-> error bijection -----------------------------------------------------------------
    if failed is None and world is not None and has_data:
        sites, unresolved, completion = expected_sites(world, resp["data"])
        if resp["data"] is None:
            ctx.stat("root-selection-not-collected")
        if completion:
            ctx.stat("requests-with-completion-failures")
            ctx.stat("completion-failure-sites", len(completion))
            ctx.stat("completion-failures:raised-while-completing", len([p for p in completion if p in world.completion_raised]))

        def dominated(p):
            return any(len(d) < len(p) and tuple(p[:len(d)]) == d for d in completion)
        sites = [p for p in sites if not dominated(p)]
        if unresolved:
            ctx.stat("requests-with-argument-coercion-failures")
            ctx.stat("argument-coercion-failure-sites", len(unresolved))
            if any(isinstance(x, int) for p in unresolved for x in p):
                ctx.stat("argument-coercion-failures-under-lists")
        want = sorted(sites, key=repr)
        got = sorted((p for p in (tuple(e.get("path") or ()) for e in resp.get("errors", [])) if not dominated(p)), key=repr)
        if want != got:
            missing = [p for p in want if p not in got]
            extra = [p for p in got if p not in want]
            dup = [p for p in set(got) if got.count(p) > 1]
            kind = "missing-error" if missing else ("duplicate-error" if dup and not extra else "unmatched-error")
            shared = {tuple(p) for p, _t, _n, o in world.calls if o[0] == "raised" and o[3] in (2, 4)}
            if missing and all(p in shared for p in missing):
                kind += ":shared-error-instance"     # the resolver re-raised ONE ResolverError object
            fail("null-error-bijection:" + kind, "nulls at non-null positions / raised resolvers and errors are not in bijection",
                 {"expected_paths": [list(p) for p in want], "error_paths": [list(p) for p in got]})
        # resolver-supplied message and extensions are passed through at the raising field's path
        by_path = {}
        for e in resp.get("errors", []):
            by_path.setdefault(tuple(e.get("path") or ()), []).append(e)
        for p, _t, _n, o in world.calls:
            if o[0] == "raised" and len(by_path.get(tuple(p), [])) == 1 and not dominated(tuple(p)):
                e = by_path[tuple(p)][0]
                want_ext = O.enc(o[2]) if o[2] else None
                if O.enc(e.get("extensions")) != want_ext:
                    fail("resolver-extensions-not-passed-through" + (":" + o[6] if o[3] == 6 else ""), "extensions of the raised ResolverError do not reach the response error",
                         {"path": list(p), "raised": want_ext, "error": O.enc(e)})
                if "message" in e and e["message"] != o[1]:
                    fail("resolver-message-not-passed-through", "message of the raised ResolverError does not reach the response error",
                         {"path": list(p), "raised": o[1], "error": O.enc(e)})
        for p in got:
            at = O.data_at(resp["data"], p)
            if at != ("value", None):
                fail("null-error-bijection:error-path-not-null", "an error's path does not lead to a null in data",
                     {"path": list(p), "at": repr(at)[:80]})
    if world is not None:
        for _p, _t, _n, o in world.calls:
            if o[0] == "raised":
                ctx.stat("raised:" + ["fresh", "subclass", "shared-in-request", "bogus-path", "module-constant-pre-rendered", "rendered-by-resolver", "app-class"][o[3]]
                         + (":" + o[6] if o[3] == 6 else ""))
                ctx.stat("extensions:" + (type(o[2]).__name__ if o[2] is not None else "none"))
    # a server decorating the errors of the response it is about to send must not reach the resolver's error objects:
    # later requests (module-level constant errors live across requests) are checked against the PRISTINE extensions
    try:
        for e in (res.response().get("errors") or []):
            if isinstance(e.get("extensions"), dict):
                e["extensions"]["requestId"] = "decorated-by-server"
    except Exception:  # noqa: already reported above
        pass
    # --- non-triviality / stats --------------------------------------------------------------------
    nerr = len(resp.get("errors", []))
    ctx.stat("cfg:" + cfg)
    if nerr:
        ctx.stat("responses-with-errors")
    if nerr or (has_data and depth(resp["data"]) >= 2):
        ctx.nontrivial((text, case.get("operation_name"), json.dumps(case.get("variables"), sort_keys=True, default=str),
                        json.dumps(case.get("world"), sort_keys=True)))
    # --- correspondence with the model ----------------------------------------------------------
    if ctx.model_ok and not internal:
        sort_errors = cfg != "blocking"
        real = canon_resp(resp, sort_errors)
        if failed is None and cfg != "blocking":
            # exec-stage outcome of THIS configuration (error order may differ)
            stages = dict(stages)
            stages["exec"] = {"data": O.enc(res.data), "errors": [abs_err(e) for e in res.errors]}

        def on_answer(ans, real=real, sort_errors=sort_errors, detail=detail, stages=stages):
            got = ans.get("response")
            if sort_errors and isinstance(got, dict) and isinstance(got.get("errors"), list):
                got["errors"] = sorted(got["errors"], key=lambda e: json.dumps(e, sort_keys=True))
            if got != real:
                ctx.fail("corr:response:" + (failed or "executed"), "model of process_graphql_query/to_dict/response differs from the real response",
                         dict(detail, model=ans, real=real), kind="correspondence")
            # the Lean WellFormed (with today's syntax column key) must agree with the Python one
            wf_py = not [s for s, _ in O.well_formed(resp, text) if not s.startswith("syntax-error-location-key")]
            wf_py = wf_py and not O.nonfinite_in(resp)
            if "wf_real" in ans and ans["wf_real"] != wf_py:
                ctx.fail("corr:wellformed:" + (failed or "executed"), "Lean WellFormed and Python well_formed disagree on the real response",
                         dict(detail, lean=ans.get("wf_real"), python=wf_py, real=real), kind="correspondence")
        pending.append(({"op": "process", "stages": stages, "real": real}, on_answer))
        if form == "str":
            check_stage_hypotheses(ctx, text, stages, failed, detail)
        if failed is None and world is not None and cfg == "blocking" and form in ("str", "doc"):
            world_s.calls = calls_blocking
            # node position / extensions of the errors of fields that failed WITHOUT their resolver raising (argument
            # coercion, completion): only used to place the model's locations
            cnodes = {}
            world_paths_raised = {tuple(p) for p, _t, _n, o in calls_blocking if o[0] == "raised"}
            for e in res.errors:
                if e.path and tuple(e.path) not in world_paths_raised and not str(e).endswith("is not nullable"):
                    cnodes.setdefault(tuple(e.path), ([n.loc[0] for n in e.nodes if n.loc][:1],
                                                      O.enc(dict(e.extensions)) if getattr(e, "extensions", None) is not None else None))
            world_s.completion_raised = set(world.completion_raised) if cfg == "blocking" else world_s.completion_raised
            if stages["exec"]["data"] is None:
                tree = None
            else:
                tree = outcome_tree(world_s, sync_schema, stages["exec"]["data"], cnodes)
            _s, _u, completion_b = expected_sites(world_s, res.data)
            raised_paths = {tuple(p) for p, _t, _n, o in calls_blocking if o[0] == "raised"}
            real_errs = []
            for e in res.errors:
                a = abs_err(e)
                pp = tuple(a.get("path") or ())
                if any(len(d) < len(pp) and pp[:len(d)] == d for d in completion_b):
                    continue        # collected below a field whose completion failed afterwards
                if tuple(a.get("path") or ()) not in raised_paths:
                    a["msg"] = "<nonnull>"
                if a["cls"] == "located":      # CoercionError through `fail`: same dictionary as a ResolverError without extensions
                    a["cls"], a["ext"] = "resolver", None
                real_errs.append(a)
            real_exec = {"data": O.enc(res.data), "errors": real_errs}

            def on_exec(ans, real_exec=real_exec, detail=detail, tree=tree, raised_paths=raised_paths):
                for a in ((ans.get("exec") or {}).get("errors") or []):
                    if tuple(a.get("path") or ()) not in raised_paths:
                        a["msg"] = "<nonnull>"      # wording of the library's own message is not compared
                if ans.get("exec") != real_exec:
                    ctx.fail("corr:executor-error-capture", "model of resolve_field/complete_value/_handle_non_nullable_value differs from the real executor",
                             dict(detail, model=ans, real=real_exec, tree=tree), kind="correspondence")
                if ans.get("tree_ok") is False:
                    ctx.fail("corr:tree-not-admissible", "hypothesis treeOkFields of executed_response_wellformed does not hold on a recorded tree",
                             dict(detail, tree=tree), kind="correspondence")
                if ans.get("typed") is False:
                    ctx.fail("corr:tree-not-typed", "hypothesis typedFields of response_wellformed_pipeline_total does not hold on a tree recorded from a request "
                             "the real executor answered", dict(detail, tree=tree), kind="correspondence")
                if ans.get("keys_distinct") is False:
                    ctx.fail("corr:response-keys-not-distinct", "hypothesis RootKeysDistinct of exactly_one_error_per_site does not hold on a recorded tree",
                             dict(detail, tree=tree), kind="correspondence")
                if ans.get("bijection") is False:
                    ctx.fail("corr:model-bijection", "the model's own errors are not in bijection with its null sites", dict(detail, model=ans), kind="correspondence")
            if tree is not None:
                pending.append(({"op": "exec", "fields": tree, "len": len(text)}, on_exec))
            elif len(res.errors) == 1:
                # the root selection set could not be collected: `executeRequest (some …)` of the model
                a = abs_err(res.errors[0])

                def on_root(ans, a=a, detail=detail):
                    want = {"data": None, "errors": [dict(a, cls="resolver", ext=a.get("ext"))]}
                    if ans.get("exec") != want:
                        ctx.fail("corr:root-collect-failure", "model of execute()'s root-collection failure differs from the real result",
                                 dict(detail, model=ans, real=want), kind="correspondence")
                pending.append(({"op": "exec_root", "msg": a["msg"], "nodes": a.get("nodes")}, on_root))
    return sigs


def nonfinite_position(schema, resp):
    """'float-field' | 'custom-scalar' | 'extensions' | 'other': the kind of place of the first non-finite float of a response"""
    from py_gql.schema import ListType, NonNullType, ScalarType, SPECIFIED_SCALAR_TYPES

    def find(v, path):
        if isinstance(v, float) and v != v or v in (float("inf"), float("-inf")):
            return path
        if isinstance(v, dict):
            for k, x in v.items():
                r = find(x, path + [k])
                if r is not None:
                    return r
        if isinstance(v, (list, tuple)):
            for i, x in enumerate(v):
                r = find(x, path + [i])
                if r is not None:
                    return r
        return None
    for e in (resp.get("errors") or []):
        if find(e, []) is not None:
            return "extensions"
    path = find(resp.get("data"), [])
    if path is None:
        return "other"
    t = schema.query_type
    try:
        for seg in path:
            while isinstance(t, (ListType, NonNullType)):
                t = t.type
            if isinstance(t, ScalarType):
                break
            if isinstance(seg, int):
                continue
            t = t.field_map[seg].type
        while isinstance(t, (ListType, NonNullType)):
            t = t.type
        if isinstance(t, ScalarType):
            return "float-field" if t in SPECIFIED_SCALAR_TYPES else "custom-scalar"
    except Exception:  # noqa: aliases, mutations: position unknown
        pass
    return "other"


def depth(v):
    if isinstance(v, dict):
        return 1 + max([depth(x) for x in v.values()] or [0])
    if isinstance(v, list):
        return max([depth(x) for x in v] or [0])
    return 0


def flush(ctx, pending):
    if not pending or not ctx.model_ok:
        pending[:] = []
        return
    answers = ctx.driver.ask([r for r, _ in pending])
    for (_, cb), a in zip(pending, answers):
        cb(a)
    pending[:] = []


# ---------------------------------------------------------------------------
# streams

BASE_SDL = """
scalar Sc
enum Color { RED GREEN }
type Query { a(x: Int, s: String): Int, b: String!, f: Float, l: [Int!]!, o: Obj, os: [Obj!], u: Un, oss: [[Obj]],
  us: [Un!], un: Un!, uss: [[Un]], sc: Sc, scs: [Sc!]!, num(i: Int, fl: Float, id: ID, sc: Sc, b: Boolean, fls: [Float!], c: Color): Int,
  echoI(i: Int): Int, echoF(fl: Float): Float, echoId(id: ID): ID, echoS(s: String): String, echoSc(sc: Sc): Sc, echoScs(scs: [Sc!]): [Sc] }
type Obj { id: ID!, n: Obj, v: Float!, w(x: Int! = 7): Int, p(among: [Int!]): Int!, q(i: In): Int, ns: [Obj!]! }
type Other { z: Int }
union Un = Obj | Other
type Mutation { m(i: In): Int }
input In { k: Int! = 1, t: [String!], c: Color }
type Subscription { tick: Int }
"""

VALID_TEXTS = [
    "{ a }",
    "query Q($x: Int = 3, $s: String) {\n  a(x: $x, s: $s)\n  b\n  ...F\n}\nfragment F on Query { l o { id n { id } } }",
    "mutation M { m(i: {k: 2, t: [\"x\", \"y\\u00e9\\n\"]}) }",
    "{ a(s: \"\"\"block\n  string \\\"\"\" é\n\"\"\") u { __typename ... on Obj { id } } }",
    "# cömment ✓\r\n{\r\n  a,\r\n  b # 𝒳\r\n}\r\n",
    "{\r  a\r  os { v }\r}\r",
    "query A { a } query B { b }",
    "subscription S { tick }",
    "{ a(x: 1.5e3) f @skip(if: false) }",
    "{ é }", "{ a(s: \"\\uD83D\\uDE00 \\\\ \\\" \\/ \\b\") }",
]

MALFORMED = [
    "{ a % }", "%s", "%(x)s", "{ a(s: \"%s %(x)s {0} {}\") zz }", "{ a(s: \"100%\" }", "{ %d }", "# 100% {0} %s\n{ zz }", "{ a(s: \"\\\\\") % }",
    "", " ", "\n", "\r", "\r\n", "\ufeff", "{", "}", "{ a", "{ a(", "{ a(x:", "{ a(x: $", "{ a(s: \"", "{ a(s: \"\\", "{ a(s: \"\\u", "{ a(s: \"\\u12",
    "{ a(s: \"\\u12\r\n", "{ a(s: \"abc\r\n\") }", "{ a(s: \"\"\"abc", "{ a(s: \"\"\"abc\\", "{ a \x00 }", "{ a \x7f }", "{ a(s: \"\x01\") }",
    "{ a\r\r\r$ }", "{ a\r\n\r\n$ }", "{ a\n\n\n$ }", "{ a\r\r\rzz }", "{ a\r\n\r\nzz }", "\r\r{ zz\r é\r}", "é", "…", "\U0001d4b3", "{ \U0001d4b3 }",
    "query", "query Q(", "query Q($x", "query Q($x: [Int", "fragment", "fragment F on", "{ ...", "{ ... on", "{ a @", "{ a: }", "{ 1 }", "{ a(x: 1.) }",
    "{ a(x: 01) }", "{ a(x: -) }", "{ a(x: 1e) }", "{ a . }", "{ a .. }", "{ a ...", "type T { a: Int }", "extend type Query { zz: Int }",
    "schema { query: Query }", "{ a } { b }", "query Q { a } query Q { b }", "{ zz }", "{ a { x } }", "{ o }", "{ a(x: \"s\") }", "{ a(nope: 1) }",
    "query ($v: Int) { a }", "{ a(x: $v) }", "{ ...F }", "fragment F on Query { ...F } { ...F }", "{ a @nope }", "{ o { id } o: a }",
    "\"\"\"d\"\"\" { a }", "{ a }\r# trailing comment without newline é", "\ud800", "{ a(s: \"\\uD800\") }", "{ a(s: \"\ud800\") }",
]

# Characters that Python's str.splitlines / re `$` / the Unicode line-breaking rules treat as line boundaries but that are NOT
# GraphQL LineTerminators (spec 2.1.4: LF | CR | CRLF only). U+2028, U+2029, U+0085 are legal SourceCharacters (>= U+0020) inside
# strings, block strings and comments; VT, FF, FS, GS, RS are not SourceCharacters at all (syntax error AT the character).
NON_TERMINATORS = [("u2028", "\u2028"), ("u2029", "\u2029"), ("u0085", "\x85")]
CONTROL_NON_TERMINATORS = [("vt", "\x0b"), ("ff", "\x0c"), ("fs", "\x1c"), ("gs", "\x1d"), ("rs", "\x1e")]


def line_char_requests():
    """DETERMINISTIC class `linechars`: each non-terminator inside a string literal, a block string and a comment, BEFORE the place
    where a syntax / validation / variable-coercion / field error is located (and once after it) -> (tag, text, variables, world)"""
    raising = {"seed": 3, "p_raise": 1.0, "p_null": 0.0, "p_null_nn": 0.0}
    quiet = {"seed": 1, "p_raise": 0.0, "p_null": 0.0, "p_null_nn": 0.0}
    out = []
    for cname, c in NON_TERMINATORS:
        body = "x%sy%s%sz" % (c, c, c)
        holders = [("string", 'a(s: "%s")' % body, 'query($s: String = "%s", $x: Int!) { a(x: $x, s: $s) }' % body),
                   ("block", 'a(s: """%s\n  w%s""")' % (body, c), 'query($s: String = """%s""", $x: Int!) { a(x: $x, s: $s) }' % body),
                   ("comment", "a # %s\n" % body, "# %s\nquery($x: Int!) { a(x: $x) } # %s" % (body, c))]
        for hname, sel, coerce_doc in holders:
            tag = "%s:%s" % (cname, hname)
            out.append((tag + ":syntax", "{ %s ? }" % sel, None, quiet))
            out.append((tag + ":syntax-eof", "{ %s" % sel, None, quiet))
            out.append((tag + ":validation", "{ %s zz }" % sel, None, quiet))
            out.append((tag + ":validation-multiline", "{\r\n %s\r zz\n}" % sel, None, quiet))
            out.append((tag + ":coercion", coerce_doc, {}, quiet))
            out.append((tag + ":coercion-wrong", coerce_doc, {"x": "abc"}, quiet))
            out.append((tag + ":field", "{ %s b o { id } }" % sel, None, raising))
            out.append((tag + ":after-error", "{ zz %s }" % sel, None, quiet))
    for cname, c in CONTROL_NON_TERMINATORS:
        out.append((cname + ":string:syntax", '{ a(s: "x%sy") zz }' % c, None, quiet))
        out.append((cname + ":comment:syntax", "{ a # x%sy\n zz }" % c, None, quiet))
        out.append((cname + ":bare:syntax", "{ a %s zz }" % c, None, quiet))
    return out


def truncations(text, step=1):
    return [text[:i] for i in range(0, len(text) + 1, step)]


def relayout(rng, text, mode):
    """replace every LF by the given terminator"""
    nl = {"lf": "\n", "cr": "\r", "crlf": "\r\n"}[mode]
    return text.replace("\r\n", "\n").replace("\r", "\n").replace("\n", nl)


def text_stream(ctx):
    rng = ctx.rng
    texts = list(MALFORMED)
    for t in VALID_TEXTS:
        texts += truncations(t)
        for mode in ("cr", "crlf"):
            texts += truncations(relayout(rng, t, mode), 3)
    fx = REPO / "tests" / "fixtures"
    for name in sorted(p.name for p in fx.glob("*.graphql")):
        t = (fx / name).read_text()
        if not t:
            continue
        if len(t) <= 2500:
            cuts = range(0, len(t) + 1, 1 if ctx.tier == "thorough" else 2)
        else:
            n = ctx.n(60, 600)
            cuts = sorted({rng.randrange(0, len(t) + 1) for _ in range(n)} | {len(t)})
            cuts = [c for c in cuts if c < 30000] if ctx.tier == "quick" else cuts
        for c in cuts:
            texts.append(t[:c])
        small = t[:1200]
        for mode in ("cr", "crlf"):
            tt = relayout(rng, small, mode)
            texts += [tt[:rng.randrange(0, len(tt) + 1)] for _ in range(ctx.n(25, 150))]
    return texts


def install_world_resolvers(schema, holder, asyncio_mode=False):
    from py_gql.schema import ObjectType

    def make(ftype, is_async):
        # The world of a request travels as its `context` value: a resolver records into the log of ITS OWN request. (Looking the
        # world up in a shared holder at call time was a race: with ThreadPoolRuntime a request can be answered — a field failed
        # while being completed — while resolvers of its sub-fields are still queued in the pool; such a late worker then wrote
        # into the log of the NEXT request and produced a phantom "expected" path.)
        if is_async:
            async def resolver(_root, _world, _info, **args):
                return _world.run(_info, ftype)
        else:
            def resolver(_root, _world, _info, **args):
                return _world.run(_info, ftype)
        return resolver
    from py_gql.schema import InterfaceType, UnionType, ScalarType, SPECIFIED_SCALAR_TYPES

    def resolve_type(value, _world, _info):
        if isinstance(value, dict) and "__raise__" in value:
            value["__raise__"]("cannot resolve the type")      # raises ResolverError
        return value.get("__typename__") if isinstance(value, dict) else None

    def wrap_serialize(inner):
        def serialize(v):
            if isinstance(v, G.RaiseOnSerialize):
                v.fire("cannot serialise")                       # raises ResolverError
            return inner(v)
        return serialize
    for t in schema.types.values():
        if isinstance(t, ObjectType) and not t.name.startswith("__"):
            for i, f in enumerate(t.fields):
                if f.name.startswith("echo"):
                    f.resolver = lambda _root, _world, _info, **args: (list(args.values()) or [None])[0]
                else:
                    f.resolver = make(f.type, asyncio_mode and (i % 2 == 0))
        elif isinstance(t, (InterfaceType, UnionType)):
            t.resolve_type = resolve_type
        elif isinstance(t, ScalarType) and t not in SPECIFIED_SCALAR_TYPES and not getattr(t, "_c10_wrapped", False):
            t._serialize = wrap_serialize(t._serialize)
            t._c10_wrapped = True


class Holder:
    world = None


def build(sdl, asyncio_mode=False):
    from py_gql import build_schema
    schema = build_schema(sdl)
    holder = Holder()
    install_world_resolvers(schema, holder, asyncio_mode)
    return schema, holder


def schemas_for(sdl):
    s, h = build(sdl)
    sa, ha = build(sdl, asyncio_mode=True)
    return {"blocking": (s, h), "default": (s, h), "threadpool": (s, h), "asyncio": (sa, ha)}


_ROT = [0]


def make_case(stream, sdl, built, cfg, text, operation_name=None, variables=None, world=None, note=None, middleware=False, form="rotate"):
    schema, holder = built[cfg]
    if form == "rotate":        # every stream goes through every submission form (deterministic rotation)
        _ROT[0] += 1
        form = ["str", "doc", "str", "doc-noloc", "str", "doc-bare", "doc"][_ROT[0] % 7]
    c = {"stream": stream, "sdl": sdl, "cfg": cfg, "text": text, "operation_name": operation_name,
         "variables": variables, "world": world, "_schema": schema, "_holder": holder, "_sync": built["blocking"]}
    if note:
        c["note"] = note
    if middleware:
        c["middleware"] = True
    if form and form != "str":
        c["form"] = form
    return c


def run(ctx):
    rng = ctx.rng
    pending = []
    try:
        _run(ctx, rng, pending)
    finally:
        try:
            flush(ctx, pending)
        finally:
            shutdown()


def _run(ctx, rng, pending):
    base = schemas_for(BASE_SDL)
    # --- every error class x nodes x path x extensions: the finite domain of `to_dict` -------
    errobj_stream(ctx, pending)
    # --- corpus --------------------------------------------------------------------------------------
    cdir = CORPUS / "C10"
    if cdir.exists():
        for p in sorted(cdir.glob("*.json")):
            d = json.loads(p.read_text())
            for item in d.get("cases", [d]):
                run_plain(ctx, item, pending, base)
    # --- text stream (syntax / validation failures, locations) ---------------------------------
    texts = text_stream(ctx)
    ctx.extra["text_stream_size"] = len(texts)
    quiet_world = {"seed": 1, "p_raise": 0.0, "p_null": 0.0, "p_null_nn": 0.0}
    for i, t in enumerate(texts):
        if ctx.time_left() < (25 if ctx.tier == "quick" else 200):
            ctx.notes.append("text stream cut at %d/%d for time" % (i, len(texts)))
            break
        cfg = "blocking" if i % 7 else CONFIGS[(i // 7) % 4]
        check_case(ctx, make_case("text", BASE_SDL, base, cfg, t, world=quiet_world), pending)
        ctx.stat("text-len<%d" % (10 if len(t) < 10 else 100 if len(t) < 100 else 1000 if len(t) < 1000 else 10 ** 6))
        if len(pending) > 3000:
            flush(ctx, pending)
    flush(ctx, pending)
    # --- DETERMINISTIC class: non-terminator "line break" characters before the error position ------
    for k, (tag, text, vs, w) in enumerate(line_char_requests()):
        ctx.stat("linechars:" + tag.split(":")[-1])
        for cfg in (["blocking", CONFIGS[1 + k % 3]] if k % 4 == 0 else ["blocking"]):
            check_case(ctx, make_case("linechars", BASE_SDL, base, cfg, text, None, vs, w, note=tag,
                                      form=["str", "doc", "str"][k % 3]), pending)
    flush(ctx, pending)
    # --- hand-written resolver worlds on the base schema ---------------------------------------
    hand = [
        ("{ a b f l o { id n { id v } v } os { id v } u { __typename } }", None, None),
        ("query A { a } query B { b }", "B", None), ("query A { a } query B { b }", None, None), ("query A { a } query B { b }", "C", None),
        ("query A { a }", "", None),
        ("query Q($x: Int!) { a(x: $x) }", None, {}), ("query Q($x: Int!) { a(x: $x) }", None, {"x": None}),
        ("query Q($x: Int!) { a(x: $x) }", None, {"x": "abc"}), ("query Q($x: Int!) { a(x: $x) }", None, {"x": 3}),
        ("query Q($x: Int!, $s: [String!]) {\r\n a(x: $x) }", None, {"s": [None]}),
        ("mutation M($i: In) { m(i: $i) }", None, {"i": {"k": None}}), ("mutation M($i: In) { m(i: $i) }", None, {"i": {"t": ["a"]}}),
        ("mutation { m }", None, None), ("subscription { tick }", None, None),
        ("{\r  a\r  b\r  l\r  os { v }\r}", None, None), ("{\r\n  a\r\n  b\r\n  l\r\n  os { v }\r\n}", None, None),
        ("{ b b2: b b3: b ... on Query { b } }", None, None), ("{ l l }", None, None),
    ]
    for k in range(ctx.n(12, 60)):
        for text, opn, vs in hand:
            for cfg in (CONFIGS if k % 3 == 0 else ["blocking"]):
                w = {"seed": k, "p_raise": [0.0, 0.2, 0.5][k % 3], "p_null": 0.2, "p_null_nn": [0.1, 0.4][k % 2]}
                check_case(ctx, make_case("hand", BASE_SDL, base, cfg, text, opn, vs, w, middleware=(k % 2 == 1)), pending)
    # execution-time ARGUMENT coercion failures (valid document, valid variable payload) on fields selected
    # under lists of 2-4 items, nested lists, several such fields, all four configurations
    argco = [
        ("query($o: Int = 1) { os { w(x: $o) } }", {"o": None}),
        ("query($o: Int = 1) { os { id w(x: $o) w2: w(x: $o) v } }", {"o": None}),
        ("query($n: Int) { os { p(among: [1, $n]) } }", {}),
        ("query($n: Int) { os { p(among: [1, $n]) id } }", {"n": None}),
        ("query($n: Int = 2) { os { p(among: [1, $n]) ns { p(among: [$n]) w } } }", {"n": None}),
        ("query($k: Int = 1) { oss { q(i: {k: $k}) a: w(x: $k) id } }", {"k": None}),
        ("query($k: Int = 1) { oss { ns { q(i: {k: $k}) } } os { q(i: {k: $k, t: [\"x\"]}) } }", {"k": None}),
        ("query($o: Int = 1, $n: Int) { o { w(x: $o) } os { n { w(x: $o) p(among: [$n]) } } }", {"o": None}),
        ("query($o: Int = 1) { os { ...F } oss { ...F } } fragment F on Obj { w(x: $o) n { w(x: $o) } }", {"o": None}),
        ("query($o: Int = 1) { os { w(x: $o) } }", {"o": 3}),
        ("mutation($i: Int = 1) { m(i: {k: $i}) }", {"i": None}),
    ]
    for k in range(ctx.n(4, 16)):
        for text, vs in argco:
            w = {"seed": 100 + k, "p_raise": [0.0, 0.15][k % 2], "p_null": 0.0 if k < 2 else 0.1, "p_null_nn": [0.0, 0.0, 0.2][k % 3],
                 "min_items": 2}
            for cfg in (CONFIGS if k < 2 else ["blocking", CONFIGS[1 + k % 3]]):
                check_case(ctx, make_case("argcoerce", BASE_SDL, base, cfg, text, None, vs, w), pending)
    flush(ctx, pending)
    # COMPLETION-time ResolverErrors (resolve_type of a union, lazy iterable failing mid-iteration, custom serialiser) at
    # object / list / leaf positions, all four configurations
    compl = ["{ us { __typename ... on Obj { id v } } un { ... on Other { z } } sc scs }",
             "{ os { id v n { id } } oss { id ns { v } } uss { ... on Obj { id } } }",
             "{ o { ns { id n { v } } } l a u { __typename } }", "mutation { m }"]
    for k in range(ctx.n(6, 30)):
        w = {"seed": 700 + k, "p_raise": [0.0, 0.15][k % 2], "p_null": 0.05, "p_null_nn": [0.0, 0.2][k % 2], "min_items": 2, "p_complete": [0.5, 0.9][k % 2]}
        for text in compl:
            for cfg in (CONFIGS if k < 3 else ["blocking", CONFIGS[1 + k % 3]]):
                check_case(ctx, make_case("completion", BASE_SDL, base, cfg, text, None, None, w, middleware=(k % 3 == 2)), pending)
    flush(ctx, pending)
    # LATE WORKERS (stress): ThreadPoolRuntime, slow resolvers deep below fields whose completion fails early: request A is answered
    # while its workers are still running, request B follows immediately; B's expectations must only come from B's own resolvers
    lateA = "{ os { id v n { id } } oss { id ns { v } } uss { ... on Obj { id } } }"
    lateB = "{ us { __typename ... on Obj { id v } } un { ... on Other { z } } sc scs }"
    for k in range(ctx.n(5, 20)):
        w = {"seed": 700 + k, "p_raise": 0.15, "p_null": 0.05, "p_null_nn": 0.2, "min_items": 2, "p_complete": 0.9, "slow_deep_ms": 15}
        for text in (lateA, lateB):
            check_case(ctx, make_case("late-workers", BASE_SDL, base, "threadpool", text, None, None, w, form="str"), pending)
    flush(ctx, pending)
    # @skip / @include conditions that only fail at EXECUTION time (nullable variable with a default explicitly null, omitted
    # variables, list literal), on fields, inline fragments and spreads, at the root and nested (also below lists)
    dirs = [
        ("query($v: Boolean = true) { a b @skip(if: $v) }", {"v": None}),
        ("query($v: Boolean = true) { a ... on Query @include(if: $v) { b } }", {"v": None}),
        ("query($v: Boolean = true) { a ...F @skip(if: $v) } fragment F on Query { b }", {"v": None}),
        ("query($v: Boolean = true) { o { id @skip(if: $v) v } a }", {"v": None}),
        ("query($v: Boolean = true) { os { id n { v @include(if: $v) } } oss { ... on Obj @skip(if: $v) { id } } }", {"v": None}),
        ("query($v: Boolean = true) { o { n { ...G @include(if: $v) } ns { id } } } fragment G on Obj { id }", {"v": None}),
        ("query($v: Boolean = true) { us { ... on Obj { id @skip(if: $v) } ... on Other { z } } un { __typename } }", {"v": None}),
        ("query($v: Boolean = true) { a b @skip(if: $v) o { id @include(if: $v) } }", {}),
        ("query($v: Boolean = true) { a b @skip(if: $v) o { id @include(if: $v) } }", {"v": False}),
        ("query($v: Boolean) { a b @skip(if: $v) }", {}),
        ("query($v: Boolean) { a o { id @include(if: $v) } }", {"v": None}),
        ("query($v: Boolean!) { a b @skip(if: $v) }", {"v": None}),
        ("query($v: Boolean = true) { num(fls: [1.5, $v]) a }", {"v": None}),
        ("query($n: Float) { os { id } num(fls: [1, $n]) }", {}),
        ("mutation($v: Boolean = true) { m @skip(if: $v) }", {"v": None}),
    ]
    for k in range(ctx.n(3, 12)):
        w = {"seed": 800 + k, "p_raise": [0.0, 0.2][k % 2], "p_null": 0.05, "p_null_nn": 0.1, "min_items": 2}
        for text, vs in dirs:
            for cfg in (CONFIGS if k == 0 else ["blocking", CONFIGS[1 + k % 3]]):
                check_case(ctx, make_case("directives", BASE_SDL, base, cfg, text, None, vs, w), pending)
    flush(ctx, pending)
    # numeric EXTREMES in variables (through a permissive JSON parser) and literals, for Int / Float / ID / custom scalar
    inf = float("inf")
    extremes = [inf, -inf, float("nan"), 1e308, -1e308, 10 ** 400, -10 ** 400, 2 ** 31, -2 ** 31 - 1, 2 ** 31 - 1, 2 ** 53 + 1, 1e-320, 5e-324, -0.0, 1e22,
                True, "1e999", "inf", "NaN", [], {}]
    for arg, ty in (("i", "Int"), ("fl", "Float"), ("id", "ID"), ("sc", "Sc"), ("b", "Boolean")):
        for j, x in enumerate(extremes):
            for nn in ("", "!"):
                text = "query($x: %s%s) { num(%s: $x) %s }" % (ty, nn, arg, {"i": "echoI(i: $x)", "fl": "echoF(fl: $x)", "id": "echoId(id: $x)"}.get(arg, "a"))
                cfg = CONFIGS[(j + len(nn)) % 4]
                check_case(ctx, make_case("extremes", BASE_SDL, base, cfg, text, None, {"x": x}, quiet_world), pending)
    nan = float("nan")
    nested = [inf, nan, {"a": inf, "b": nan}, [1, [-inf]], {"deep": [{"x": [1.5, {"y": nan}]}]}, [1e308, 2.5], {"ok": [1, 2.5, "s", None]}, (1, inf)]
    for j, x in enumerate(nested):
        for text, vs in (("query($v: Sc) { echoSc(sc: $v) a }", {"v": x}), ("query($v: [Sc!]) { echoScs(scs: $v) }", {"v": [1, x]}),
                         ("query($v: Sc!) { os { id } echoSc(sc: $v) }", {"v": x})):
            for cfg in CONFIGS:
                check_case(ctx, make_case("extremes", BASE_SDL, base, cfg, text, None, vs, quiet_world), pending)
    lits = ["1e999", "-1e999", "1e308", "1e-999", "1e-320", "99999999999999999999999999", "-99999999999999999999999999", "2147483648", "-2147483649",
            "2147483647", "1" + "0" * 400, "0.0000000000000000000000000000000000000001", "1E400"]
    for j, lit in enumerate(lits):
        for text in ("{ num(i: %s) echoI(i: %s) }", "{ num(fl: %s) echoF(fl: %s) }", "{ num(id: %s) echoId(id: %s) }", "{ num(sc: %s) a }",
                     "query($x: Float = %s) { echoF(fl: $x) a }", "query($x: Int = %s) { echoI(i: $x) }", "{ num(fls: [1, %s]) }"):
            t = text % ((lit,) * text.count("%s"))
            check_case(ctx, make_case("extremes", BASE_SDL, base, CONFIGS[j % 4], t, None, None, quiet_world), pending)
    flush(ctx, pending)
    # HOSTILE TEXT in every string that flows from the request into an error MESSAGE: rejected variable values (scalars, enums,
    # input objects, lists), operation names, literals echoed by validation errors, variable defaults; and as accepted
    # values (echoed data). Format directives, braces, backslashes, quotes, line ends, NUL, astral, lone surrogates, long.
    def lit(h):
        return json.dumps(h)       # a GraphQL string literal with the same escapes
    two_ops = "query A { a } query B { b }"
    for j, h in enumerate(G.HOSTILE):
        reqs = [
            ("query($x: Int) { a(x: $x) }", None, {"x": h}), ("query($x: Int!) { a(x: $x) }", None, {"x": {"tag": h}}),
            ("query($x: Float) { num(fl: $x) }", None, {"x": h}), ("query($x: Boolean) { num(b: $x) }", None, {"x": [h]}),
            ("query($x: ID) { num(id: $x) }", None, {"x": {h: h}}), ("query($c: Color) { num(c: $c) }", None, {"c": h}),
            ("query($l: [Float!]) { num(fls: $l) }", None, {"l": [1, h]}), ("query($l: [Float!]) { num(fls: $l) }", None, {"l": h}),
            ("mutation($i: In) { m(i: $i) }", None, {"i": {"k": h}}), ("mutation($i: In) { m(i: $i) }", None, {"i": {"tag": h, h: 1}}),
            ("mutation($i: In) { m(i: $i) }", None, {"i": {"t": [h, None], "c": h}}), ("mutation($i: In!) { m(i: $i) }", None, {"i": h}),
            (two_ops, h, None), ("query A { a }", h, {h: h}),
            ("{ a(x: %s) }" % lit(h), None, None), ("{ num(c: %s, b: %s) }" % (lit(h), lit(h)), None, None),
            ("{ num(fls: [1, %s]) os { q(i: {k: %s, c: %s}) } }" % (lit(h), lit(h), lit(h)), None, None),
            ("query($x: Int = %s) { a(x: $x) }" % lit(h), None, None), ("query($c: Color = RED) { num(c: $c) a(s: %s) zz }" % lit(h), None, {"c": h}),
            ("{ echoS(s: %s) }" % lit(h), None, None), ("query($s: String) { echoS(s: $s) echoId(id: $s) }", None, {"s": h}),
        ]
        for r, (text, opn, vs) in enumerate(reqs):
            check_case(ctx, make_case("hostile", BASE_SDL, base, CONFIGS[(j + r) % 4], text, opn, vs, quiet_world), pending)
        if len(pending) > 3000:
            flush(ctx, pending)
    flush(ctx, pending)
    # HISTORIES: the same request three times in a row (module-level constant errors are re-raised by every request; each
    # rendered response is decorated by the "server" before the next request), lists of >= 2 items, errors rendered by a
    # logging middleware / by the resolver before they reach the executor, extensions of every Mapping kind
    hist = ["{ os { id n { id } v w } oss { id v } }", "{ a b os { ns { id v } } }", "mutation { m } ", "{ o { id n { id n { id } } } l }"]
    for k in range(ctx.n(6, 30)):
        w = {"seed": 500 + k, "p_raise": [0.5, 0.8][k % 2], "p_null": 0.0, "p_null_nn": 0.1, "min_items": 2}
        for text in hist:
            for rep in range(3):
                cfg = CONFIGS[(k + rep) % 4]
                check_case(ctx, make_case("history", BASE_SDL, base, cfg, text, None, None, w, middleware=(rep != 1), note="request %d of 3" % (rep + 1)), pending)
    flush(ctx, pending)
    # resolver errors whose `extensions` are outside the documented contract (not a Mapping, non-JSON values): contained
    for k in range(ctx.n(4, 16)):
        w = {"seed": 900 + k, "p_raise": 0.7, "p_null": 0.0, "p_null_nn": 0.0, "min_items": 2, "bad_ext": True}
        check_case(ctx, make_case("bad-extensions", BASE_SDL, base, CONFIGS[k % 4], "{ a b os { id v } o { n { id } } }", None, None, w, middleware=(k % 2 == 0)), pending)
    flush(ctx, pending)
    # non-finite floats (X2)
    for k in range(ctx.n(6, 30)):
        w = {"seed": k, "p_raise": 0.0, "p_null": 0.0, "p_null_nn": 0.0, "nonfinite": True}
        # only the synchronous configurations. With ThreadPoolRuntime the (documented) RuntimeError still reaches the
        # caller promptly; when two sibling futures fail, gather_futures' on_finish calls outer.set_exception a second
        # time and concurrent.futures logs "exception calling callback ... InvalidStateError" on stderr. No hang
        # (verified); the restriction only keeps that noise out of the run.
        for cfg in (["blocking", "default"] if k < 2 else ["blocking"]):
            check_case(ctx, make_case("nonfinite", BASE_SDL, base, cfg, "{ f o { v } os { v } }", None, None, w), pending)
            check_case(ctx, make_case("nonfinite", BASE_SDL, base, cfg, "{ sc scs a }", None, None, w), pending)
    flush(ctx, pending)
    # --- generated schemas x documents x payloads x worlds ------------------------------------
    n_schemas = 0
    while ctx.time_left() > (8 if ctx.tier == "quick" else 60) and n_schemas < ctx.n(14, 150):
        n_schemas += 1
        desc = gs.gen_schema(rng, size=rng.choice([1, 2, 3]), with_descriptions=False)
        sdl = gs.to_sdl(desc, descriptions=False)
        try:
            built = schemas_for(sdl)
        except Exception as e:  # noqa: schema generator / builder problem is not this property's business
            ctx.stat("schema-build-failed:" + type(e).__name__)
            continue
        for r in range(ctx.n(18, 30)):
            req = G.gen_request(rng, desc)
            toks = req["tokens"]
            tag = "valid"
            if rng.random() < 0.3:
                tag = rng.choice(G.INVALIDATIONS)
                toks = G.invalidate(rng, toks, tag)
            mode = rng.choice([None, None, "lf", "cr", "crlf"])
            text = G.layout(rng, toks, mode)
            ctx.stat("doc:" + tag)
            for t in req["tags"]:
                ctx.stat(t)
            w = {"seed": rng.randrange(10 ** 6), "p_raise": rng.choice([0.0, 0.1, 0.3]), "p_null": rng.choice([0.05, 0.2]),
                 "p_null_nn": rng.choice([0.0, 0.1, 0.3]), "p_complete": rng.choice([0.0, 0.0, 0.25])}
            cfgs = ["blocking"] + ([rng.choice(CONFIGS[1:])] if r % 3 == 0 else [])
            for cfg in cfgs:
                check_case(ctx, make_case("gen", sdl, built, cfg, text, req["operation_name"], req["variables"], w, middleware=(r % 4 == 1)), pending)
            if r == 0:
                ctx.sample({"text": text[:300], "operation_name": req["operation_name"], "variables": req["variables"], "world": w})
        if len(pending) > 2000:
            flush(ctx, pending)
    ctx.extra["generated_schemas"] = n_schemas
    flush(ctx, pending)
    if ctx.model_ok:
        line_structure_check(ctx, texts)


def errobj_check(ctx, item, pending):
    """
    Direct oracle on ONE error object of the finite domain (public API: the error classes, `GraphQLResult(errors=[e])`):
    the rendered response must be well-formed for the text the nodes come from. -> list of signatures
    """
    from py_gql.execution import GraphQLResult
    cls, msg, nk, path, ek = item["cls"], item["msg"], item["nodes"], item["path"], item["ext"]
    sigs = []
    detail = dict(item, stream="errobj", text=X.DOMAIN_TEXT)
    try:
        e = X.make_error(cls, msg, nk, path, ek)
        res = GraphQLResult(errors=[e])
        resp, problems = O.strict_json_problems(res)
    except Exception as ex:  # noqa
        sigs.append("error-object-raises:%s:%s" % (cls, type(ex).__name__))
        ctx.fail(sigs[-1], "building / rendering an error object raised %r" % ex, detail)
        return sigs
    ctx.count()
    ctx.stat("errobj:" + cls)
    bad = list(problems) + (O.well_formed(resp, X.DOMAIN_TEXT) if resp is not None else [])
    for sig, d in bad:
        sig = "errobj:" + sig       # the oracle's signature already names the minimal feature (e.g. empty `locations`)
        sigs.append(sig)
        ctx.fail(sig, "%s(message=%r, nodes=%s, path=%r, extensions=%s) renders to a response that is not well-formed: %s"
                 % (cls, msg, nk, path, ek, d), dict(detail, observed=O.enc(resp)))
    if nk != "none" or path or ek == "one" or not msg:
        ctx.nontrivial(("errobj", cls, msg, nk, repr(path), ek))
    if ctx.model_ok and pending is not None and resp is not None:
        real = canon_resp(resp, False)
        stages = {"text": O.cps(X.DOMAIN_TEXT), "validate": [abs_err(e)]}

        def on_answer(ans, real=real, detail=detail):
            if ans.get("response") != real:
                ctx.fail("corr:to-dict:" + detail["cls"], "model of to_dict differs from the real error object on the finite domain",
                         dict(detail, model=ans.get("response"), real=real), kind="correspondence")
        pending.append(({"op": "process", "stages": stages, "real": real}, on_answer))
    return sigs


def errobj_stream(ctx, pending):
    for cls, msg, nk, path, ek in X.located_domain():
        errobj_check(ctx, {"cls": cls, "msg": msg, "nodes": nk, "path": path, "ext": ek}, pending)
    flush(ctx, pending)


def line_structure_check(ctx, texts):
    """the model's `splitLines` / `indexToLoc` against Python's LINE_TERMINATOR.split and the real index_to_loc, all positions"""
    from py_gql._string_utils import index_to_loc
    sample = [t for t in texts if len(t) <= 60][:400] + ["a\r\nb", "\r\n\r\n", "\r\r\n\n\r", "a\rb\nc\r\nd", "\n", "\r", ""]
    # characters Python's splitlines() / Unicode call line boundaries but GraphQL does not: they have width 1 and end no line
    for _n, c in NON_TERMINATORS + CONTROL_NON_TERMINATORS:
        sample += ["a%sb" % c, "%s" % c, "a%s\nb%s%s\r\nc%s\rd%s" % (c, c, c, c, c), '{ a(s: "x%sy") zz }' % c, "# %s\r\n{ a%s }" % (c, c)]
    reqs = [{"op": "lines", "text": O.cps(t)} for t in sample]
    for t, a in zip(sample, ctx.driver.ask(reqs)):
        ctx.count()
        want = [len(l) for l in O.spec_lines(t)]
        real = []
        for p in range(len(t) + 2):
            try:
                real.append(list(index_to_loc(t, p)))
            except IndexError:
                real.append(None)
        if a.get("lines") != want:
            ctx.fail("corr:split-lines", "model splitLines differs from LINE_SEPARATOR.split", {"text": t, "model": a, "python": want}, kind="correspondence")
        if a.get("locs") != real:
            ctx.fail("corr:index-to-loc", "model indexToLoc differs from the real index_to_loc", {"text": t, "model": a.get("locs"), "real": real}, kind="correspondence")
            # the statement, directly: every position <= len maps inside the text
            lines = O.spec_lines(t)
            for p, lc in enumerate(real[:len(t) + 1]):
                if lc is None or not (1 <= lc[0] <= len(lines) and 1 <= lc[1] <= len(lines[lc[0] - 1]) + 1):
                    ctx.fail("location-outside-document:" + ("lone-cr" if "\r" in t.replace("\r\n", "") else "column"),
                             "index_to_loc maps a position inside the text to a location outside it", {"stream": "loc", "text": t, "position": p, "loc": lc})
                    break


def run_plain(ctx, item, pending, base):
    """a corpus / replay item (plain JSON case)"""
    sdl = item.get("sdl") or BASE_SDL
    built = base if sdl == BASE_SDL else schemas_for(sdl)
    case = make_case(item.get("stream", "corpus"), sdl, built, item.get("cfg", "blocking"), item["text"],
                     item.get("operation_name"), item.get("variables"), item.get("world"), middleware=bool(item.get("middleware")), form=item.get("form") or "str")
    return check_case(ctx, case, pending)


def replay(ctx, data):
    inp = data.get("input", data)
    if inp.get("stream") == "loc":
        from py_gql._string_utils import index_to_loc
        t, p = inp["text"], inp["position"]
        lines = O.spec_lines(t)
        try:
            lc = index_to_loc(t, p)
        except IndexError:
            return False
        return 1 <= lc[0] <= len(lines) and 1 <= lc[1] <= len(lines[lc[0] - 1]) + 1
    if inp.get("stream") == "errobj":
        return not errobj_check(ctx, {k: inp[k] for k in ("cls", "msg", "nodes", "path", "ext")}, None)
    if "text" not in inp:
        return True     # a record of a broken obligation / correspondence without a concrete input
    ctx.model_ok = False
    try:
        # three times in a row: module-level constant errors live across requests and every rendered response is
        # decorated by the "server" afterwards, so a failure may need the request's own earlier occurrence as history
        base = schemas_for(BASE_SDL)
        sigs = []
        for _ in range(3):
            sigs += run_plain(ctx, inp, [], base)
    finally:
        shutdown()
    want = data.get("signature")
    return not (sigs if want is None else [s for s in sigs if s == want])

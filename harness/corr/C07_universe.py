# -*- coding: utf-8 -*-
"""
C07 — universe of the coercion check: registries of named input types, type
expressions, JSON values (natural kind / structurally wrong), literal spelling,
wire formats, and the SPECIFICATION side of the direct oracle (`conforms`,
`defects`, `natural`) written in Python, independent of py_gql.

Representations (all JSON-able):
  type expr   ("named", n) | ("list", t) | ("nonNull", t)
  JSON value  None | bool | int | float | str | list | dict            (a request's `variables`)
  literal     ("null",) ("int", n) ("float", text) ("str", s) ("bool", b) ("enum", name)
              ("list", [lit]) ("obj", [(name, lit)]) ("var", name)
  python val  what a resolver receives (None/bool/int/float/str/list/dict)
"""
import math
import re

SCALARS = {"Int": "int", "Float": "float", "String": "string", "Boolean": "boolean", "ID": "id"}
NAME_RE = re.compile(r"^[_A-Za-z][_0-9A-Za-z]*$")
MIN32, MAX32 = -(2 ** 31), 2 ** 31 - 1


# --------------------------------------------------------------------------- types

def N(n):
    return ("named", n)


def L(t):
    return ("list", t)


def NN(t):
    return ("nonNull", t)


def ty_str(t):
    return t[1] if t[0] == "named" else ("[%s]" % ty_str(t[1]) if t[0] == "list" else ty_str(t[1]) + "!")


def ty_json(t):
    return {"k": t[0], "n": t[1]} if t[0] == "named" else {"k": t[0], "t": ty_json(t[1])}


def ty_from_json(j):
    return ("named", j["n"]) if j["k"] == "named" else (j["k"], ty_from_json(j["t"]))


def ty_base(t):
    return t[1] if t[0] == "named" else ty_base(t[1])


def nullable(t):
    return t[1] if t[0] == "nonNull" else t


def all_types(names, depth):
    cur = [N(n) for n in names]
    out = list(cur)
    for _ in range(depth):
        nxt = []
        for t in cur:
            nxt.append(L(t))
            if t[0] != "nonNull":
                nxt.append(NN(t))
        out += nxt
        cur = nxt
    return out


# --------------------------------------------------------------------------- registries

# --- custom scalars with their OWN parsers (user code). The same three behaviours exist in lean/Driver/C07.lean, where they are
# handed to the model as its `customParse` / `customParseLiteral` PARAMETERS.
def _isint(j):
    return isinstance(j, int) and not isinstance(j, bool)


def custom_parse(impl, v):
    """python-side reference of the sample scalars: ('value', x) | ('refused',) | ('raised',)"""
    if impl == "even":
        return ("value", v // 2) if _isint(v) and v % 2 == 0 else ("refused",)
    if impl == "pos":                      # a scalar WITHOUT parse_literal: literals go through parse(node.value), i.e. the TEXT
        if isinstance(v, str) and v != "" and all("0" <= c <= "9" for c in v):
            v = int(v)
        return ("value", v) if _isint(v) and v > 0 else ("refused",)
    if impl == "tagged":
        if isinstance(v, dict):
            return ("raised",)
        return ("value", {"v": v}) if isinstance(v, str) else ("refused",)
    return ("value", v) if _all_finite(v) else ("refused",)     # default_scalar: `_transparent` refuses NaN / +-Infinity at any depth


def _all_finite(v):
    stack = [v]
    while stack:
        x = stack.pop()
        if isinstance(x, float) and not math.isfinite(x):
            return False
        if isinstance(x, (list, tuple)):
            stack.extend(x)
        elif isinstance(x, dict):
            stack.extend(x.values())
    return True


def custom_accepts_kind(impl, v):
    """a value the scalar's own parser can have produced"""
    if impl == "even":
        return _isint(v)
    if impl == "pos":
        return _isint(v) and v > 0
    if impl == "tagged":
        return isinstance(v, dict) and list(v) == ["v"] and isinstance(v["v"], str)
    return True


def fixed_registry():
    """Hand-written registry: every feature the property talks about."""
    return {"types": [
        {"name": "Int", "kind": "int"}, {"name": "Float", "kind": "float"}, {"name": "String", "kind": "string"},
        {"name": "Boolean", "kind": "boolean"}, {"name": "ID", "kind": "id"},
        {"name": "Any", "kind": "custom"},
        {"name": "Even", "kind": "custom", "impl": "even"},
        {"name": "Tag", "kind": "custom", "impl": "tagged"},
        {"name": "Pos", "kind": "custom", "impl": "pos"},
        {"name": "E", "kind": "enum", "values": [["A", 10], ["B", "bee"], ["C", "C"], ["D", 1.5]]},
        {"name": "In1", "kind": "input", "fields": [
            {"name": "a", "py": "a_py", "type": N("Int"), "default": [5]},
            {"name": "b", "py": "b", "type": NN(N("Int")), "default": [7]},
            {"name": "c", "py": "c", "type": N("String"), "default": None},
            {"name": "e", "py": "enumVal", "type": N("E"), "default": ["bee"]},
            {"name": "n", "py": "n", "type": N("Boolean"), "default": [None]},
        ]},
        {"name": "In2", "kind": "input", "fields": [
            {"name": "req", "py": "required", "type": NN(N("Int")), "default": None},
            {"name": "opt", "py": "opt", "type": L(N("Int")), "default": None},
            {"name": "e", "py": "e", "type": NN(N("E")), "default": [10]},
            {"name": "f", "py": "f", "type": N("Float"), "default": [2.5]},
        ]},
        {"name": "Rec", "kind": "input", "fields": [
            {"name": "v", "py": "val", "type": N("Int"), "default": [1]},
            {"name": "next", "py": "next", "type": N("Rec"), "default": None},
            {"name": "kids", "py": "children", "type": L(NN(N("Rec"))), "default": None},
            {"name": "p", "py": "p", "type": N("In1"), "default": [{"a_py": 5, "b": 7, "enumVal": "bee", "n": None}]},
        ]},
        {"name": "M1", "kind": "input", "fields": [
            {"name": "m", "py": "m2", "type": N("M2"), "default": None},
            {"name": "x", "py": "x", "type": N("ID"), "default": ["one"]},
        ]},
        {"name": "M2", "kind": "input", "fields": [
            {"name": "m", "py": "m1", "type": NN(N("M1")), "default": None},
            {"name": "tags", "py": "tags", "type": NN(L(N("String"))), "default": [["t"]]},
        ]},
    ]}


def gen_registry(rng):
    """Random registry: 1-2 enums, 2-4 (possibly recursive) input objects with defaults and python names."""
    types = [{"name": n, "kind": k} for n, k in SCALARS.items()] + [{"name": "Any", "kind": "custom"}]
    enums = []
    for i in range(rng.randint(1, 2)):
        name = "E%d" % i
        vals = []
        for k in range(rng.randint(1, 4)):
            vn = "V%d" % k
            internal = rng.choice([k + 100, "int_" + vn.lower(), vn, float(k) + 0.5, True if k == 0 else "x%d" % k])
            vals.append([vn, internal])
        types.append({"name": name, "kind": "enum", "values": vals})
        enums.append(name)
    n_in = rng.randint(2, 4)
    in_names = ["I%d" % i for i in range(n_in)]
    leafs = list(SCALARS) + enums + ["Any"]
    reg = {"types": types}
    pending = []
    for name in in_names:
        fields = []
        for k in range(rng.randint(1, 5)):
            base = rng.choice(leafs + in_names) if rng.random() < 0.75 else rng.choice(in_names)
            t = N(base)
            for _ in range(rng.choice([0, 0, 1, 1, 2])):
                t = L(t) if (t[0] == "nonNull" or rng.random() < 0.5) else NN(t)
            fname = "f%d" % k
            py = fname if rng.random() < 0.5 else "py_%s_%s" % (name.lower(), fname)
            fields.append({"name": fname, "py": py, "type": t, "default": None})
        d = {"name": name, "kind": "input", "fields": fields}
        types.append(d)
        pending.append(d)
    # a required chain must stay finite: a non-null field of input type without default may only point "forward"
    order = {n: i for i, n in enumerate(in_names)}
    for d in pending:
        for f in d["fields"]:
            b = ty_base(f["type"])
            if b in order and f["type"][0] == "nonNull" and order[b] <= order[d["name"]]:
                f["type"] = f["type"][1]
    # defaults: conforming python values for leaf-based fields
    for d in pending:
        for f in d["fields"]:
            if rng.random() < 0.5:
                v = default_for(reg, f["type"], rng, 2)
                if v is not _NO:
                    f["default"] = [v]
    # RegOK: every declared default must itself conform (defaults of nested input objects filled in); a default built
    # before a nested type got its own defaults is dropped
    changed = True
    while changed:
        changed = False
        for d in pending:
            for f in d["fields"]:
                if f["default"] is not None and conforms(reg, f["type"], f["default"][0]) is not None:
                    f["default"] = None
                    changed = True
    return reg


_NO = object()


def reg_get(reg, name):
    for t in reg["types"]:
        if t["name"] == name:
            return t
    return None


def default_for(reg, t, rng, depth):
    """A python value conforming to `t` (coerced form), or _NO."""
    if t[0] == "nonNull":
        return default_for(reg, t[1], rng, depth)
    if rng.random() < 0.15:
        return None
    if t[0] == "list":
        items = []
        for _ in range(rng.randint(0, 2)):
            x = default_for(reg, t[1], rng, depth - 1)
            if x is _NO or (x is None and t[1][0] == "nonNull"):
                return _NO
            items.append(x)
        return items
    d = reg_get(reg, t[1])
    k = d["kind"]
    if k == "int":
        return rng.choice([0, 1, -7, MAX32, MIN32, rng.randint(MIN32, MAX32)])
    if k == "float":
        return rng.choice([0.5, -2.25, 1e10, 3.0])
    if k == "string":
        return rng.choice(["", "dflt", "true"])
    if k == "boolean":
        return rng.choice([True, False])
    if k == "id":
        return rng.choice(["id", "42"])
    if k == "custom":
        impl = d.get("impl", "identity")
        if impl == "even":
            return rng.choice([0, 3, -8])
        if impl == "pos":
            return rng.choice([1, 42])
        if impl == "tagged":
            return {"v": "dflt"}
        return rng.choice(["any", 5, [1, "x"]])
    if k == "enum":
        return rng.choice(d["values"])[1]
    if k == "input":
        if depth <= 0:
            return _NO
        out = {}
        for f in d["fields"]:
            if f["default"] is not None:
                out[f["py"]] = f["default"][0]
            elif f["type"][0] == "nonNull" or rng.random() < 0.4:
                x = default_for(reg, f["type"], rng, depth - 1)
                if x is _NO or (x is None and f["type"][0] == "nonNull"):
                    return _NO
                out[f["py"]] = x
        return out
    return _NO


# --------------------------------------------------------------------------- wire formats

def pv_wire(v):
    """python value -> wire (floats as canonical text)"""
    if v is None or isinstance(v, (bool, str)):
        return v
    if isinstance(v, int):
        return v
    if isinstance(v, float):
        return {"f": repr(v)}
    if isinstance(v, (list, tuple)):
        return [pv_wire(x) for x in v]
    if isinstance(v, dict):
        return {"d": [[k, pv_wire(x)] for k, x in v.items()]}
    return {"opaque": type(v).__name__ + ":" + repr(v)}


def pv_from_model(w):
    """wire value answered by the model -> canonical wire (float sources evaluated with Python's float())"""
    if isinstance(w, list):
        return [pv_from_model(x) for x in w]
    if isinstance(w, dict):
        if "f" in w:
            return {"f": repr(float(w["f"]))}
        if "fi" in w:
            return {"f": repr(float(w["fi"]))}
        if "fb" in w:
            return {"f": repr(float(w["fb"]))}
        if "d" in w:
            return {"d": [[k, pv_from_model(x)] for k, x in w["d"]]}
    return w


def pv_canon(w):
    """canonical wire of an implementation value: float text normalised the same way"""
    return pv_from_model(w)


def jv_wire(j):
    """JSON value -> wire. A float travels as its number lexeme (Python's repr of the double); what int() / float() make of
    strings and floats is computed by the Lean lexeme model (PyGqlModel/PyNum.lean), nothing is annotated here."""
    if j is None or isinstance(j, bool):
        return j
    if isinstance(j, int):
        return j
    if isinstance(j, float):
        return {"f": repr(j)}
    if isinstance(j, str):
        return {"s": j}
    if isinstance(j, list):
        return [jv_wire(x) for x in j]
    if isinstance(j, dict):
        return {"o": [[k, jv_wire(v)] for k, v in j.items()]}
    raise TypeError(j)


def lit_wire(l):
    k = l[0]
    if k == "null":
        return {"k": "null"}
    if k == "list":
        return {"k": "list", "v": [lit_wire(x) for x in l[1]]}
    if k == "obj":
        return {"k": "obj", "v": [[n, lit_wire(x)] for n, x in l[1]]}
    return {"k": k, "v": l[1]}


def lit_from_wire(w):
    k = w["k"]
    if k == "null":
        return ("null",)
    if k == "list":
        return ("list", [lit_from_wire(x) for x in w["v"]])
    if k == "obj":
        return ("obj", [(n, lit_from_wire(x)) for n, x in w["v"]])
    return (k, w["v"])


def reg_wire(reg):
    out = []
    for t in reg["types"]:
        d = {"name": t["name"], "kind": t["kind"]}
        if t["kind"] == "custom":
            d["impl"] = t.get("impl", "identity")
        if t["kind"] == "enum":
            d["values"] = [[n, pv_wire(v)] for n, v in t["values"]]
        if t["kind"] == "input":
            d["fields"] = [{"name": f["name"], "py": f["py"], "type": ty_json(f["type"]),
                            "default": None if f["default"] is None else {"v": pv_wire(f["default"][0])}}
                           for f in t["fields"]]
        out.append(d)
    return {"types": out}


def reg_to_jsonable(reg):
    return {"types": [dict(t, fields=[dict(f, type=ty_json(f["type"])) for f in t["fields"]]) if t["kind"] == "input" else t
                      for t in reg["types"]]}


def reg_from_jsonable(d):
    return {"types": [dict(t, fields=[dict(f, type=ty_from_json(f["type"])) for f in t["fields"]]) if t["kind"] == "input" else t
                      for t in d["types"]]}


# --------------------------------------------------------------------------- literals

def render_string(s):
    out = ['"']
    for ch in s:
        o = ord(ch)
        if ch == '"':
            out.append('\\"')
        elif ch == "\\":
            out.append("\\\\")
        elif ch == "\n":
            out.append("\\n")
        elif ch == "\t":
            out.append("\\t")
        elif o < 0x20 or o == 0x7F:
            out.append("\\u%04x" % o)
        else:
            out.append(ch)
    out.append('"')
    return "".join(out)


def render_lit(l):
    k = l[0]
    if k == "null":
        return "null"
    if k == "int":
        return str(l[1])
    if k == "float":
        return l[1]
    if k == "str":
        return render_string(l[1])
    if k == "bool":
        return "true" if l[1] else "false"
    if k == "enum":
        return l[1]
    if k == "var":
        return "$" + l[1]
    if k == "list":
        return "[" + ", ".join(render_lit(x) for x in l[1]) + "]"
    if k == "obj":
        return "{" + ", ".join("%s: %s" % (n, render_lit(x)) for n, x in l[1]) + "}"
    raise ValueError(l)


def float_literal_text(f):
    """GraphQL FloatValue spelling of a Python float (finite: its repr, `1.5`, `1e+16`, `-0.0`; the infinities: an
    overflowing literal; NaN has no spelling, any non-finite literal stands in for it)."""
    if not math.isfinite(f):
        return "-1e999" if f < 0 else "1e999"
    r = repr(f)
    if "e" in r:                       # py_gql's lexer refuses a leading zero in the exponent (`1e-07`): spell it `1e-7`
        m, e = r.split("e")
        sign = e[0] if e[0] in "+-" else ""
        r = m + "e" + sign + (e.lstrip("+-").lstrip("0") or "0")
    return r


def is_enum_name(s):
    return bool(NAME_RE.match(s)) and s not in ("true", "false", "null")


def ast_of_json(reg, t, j):
    """The literal spelling of JSON value `j` at a position of type `t` (total; type-directed only
    for the string/enum choice, the element type of lists and the field types of objects)."""
    if j is None:
        return ("null",)
    if isinstance(j, bool):
        return ("bool", j)
    if isinstance(j, int):
        return ("int", j)
    if isinstance(j, float):
        return ("float", float_literal_text(j))
    if isinstance(j, str):
        d = reg_get(reg, ty_base(t))
        if d is not None and d["kind"] == "enum" and is_enum_name(j):
            return ("enum", j)
        return ("str", j)
    if isinstance(j, list):
        u = nullable(t)
        et = u[1] if u[0] == "list" else u
        return ("list", [ast_of_json(reg, et, x) for x in j])
    if isinstance(j, dict):
        d = reg_get(reg, ty_base(t))
        ftypes = {f["name"]: f["type"] for f in d["fields"]} if d is not None and d["kind"] == "input" else {}
        return ("obj", [(k, ast_of_json(reg, ftypes.get(k, N("String")), v)) for k, v in j.items()])
    raise TypeError(j)


# --------------------------------------------------------------------------- SPECIFICATION (direct oracle)

def conforms(reg, t, v, path="value"):
    """None if python value `v` conforms to type `t`, else a short reason naming the first offence.
    non-null => not None; enum => an internal value; input object => dict keyed by python names, every
    field conforming, defaults filled, nothing else; list => list; Int => int in [-2^31, 2^31-1]."""
    if t[0] == "nonNull":
        if v is None:
            return "null-at-nonnull"
        return conforms(reg, t[1], v, path)
    if v is None:
        return None
    if t[0] == "list":
        if not isinstance(v, list):
            return "not-a-list"
        for i, x in enumerate(v):
            r = conforms(reg, t[1], x, "%s[%d]" % (path, i))
            if r:
                return r
        return None
    d = reg_get(reg, t[1])
    k = d["kind"]
    if k == "int":
        if type(v) is bool:
            return "Int-is-bool"             # a resolver must receive the integer 1 / 0, not True / False
        if not isinstance(v, int):
            return "Int-not-int"
        if not (MIN32 <= v <= MAX32):
            return "Int-out-of-range"
        return None
    if k == "float":
        return None if isinstance(v, float) else "Float-not-float"
    if k in ("string", "id"):
        return None if isinstance(v, str) else d["name"] + "-not-str"
    if k == "boolean":
        return None if isinstance(v, bool) else "Boolean-not-bool"
    if k == "custom":
        return None if custom_accepts_kind(d.get("impl", "identity"), v) else "custom-scalar-value-not-from-its-parser"
    if k == "enum":
        for _, internal in d["values"]:
            if type(internal) is type(v) and internal == v:
                return None
        return "enum-not-internal-value"
    if k == "input":
        if not isinstance(v, dict):
            return "input-not-dict"
        allowed = set()
        for f in d["fields"]:
            allowed.add(f["py"])
            if f["py"] in v:
                r = conforms(reg, f["type"], v[f["py"]], path + "." + f["py"])
                if r:
                    return r
            elif f["default"] is not None:
                return "default-not-filled"
            elif f["type"][0] == "nonNull":
                return "required-field-absent"
        for key in v:
            if key not in allowed:
                return "key-not-a-python-name"
        return None
    return "unknown-kind"


def defects(reg, t, j):
    """Classes of input that the statement says MUST be rejected (set of strings; empty = none)."""
    if t[0] == "nonNull":
        if j is None:
            return {"null-for-nonnull"}
        return defects(reg, t[1], j)
    if j is None:
        return set()
    if t[0] == "list":
        if isinstance(j, list):
            out = set()
            for x in j:
                out |= defects(reg, t[1], x)
            return out
        return defects(reg, t[1], j)
    d = reg_get(reg, t[1])
    k = d["kind"]
    if k in ("int", "float", "string", "boolean", "id"):
        if isinstance(j, list):
            return {"list-at-%s" % d["name"]}
        if isinstance(j, dict):
            return {"object-at-%s" % d["name"]}
        return set()
    if k == "custom":
        return set()
    if k == "enum":
        if not isinstance(j, str):
            return {"non-string-at-enum"}
        if j not in [n for n, _ in d["values"]]:
            return {"unknown-enum-name"}
        return set()
    if k == "input":
        if not isinstance(j, dict):
            return {"non-object-at-input-object"}
        out = set()
        names = set()
        for f in d["fields"]:
            names.add(f["name"])
            if f["name"] in j:
                out |= defects(reg, f["type"], j[f["name"]])
            elif f["type"][0] == "nonNull" and f["default"] is None:
                out.add("missing-required-field")
        if any(key not in names for key in j):
            out.add("unknown-input-field")
        return out
    return set()


def natural(reg, t, j):
    """`j` is of the natural JSON kind for `t` (the kind its literal spelling has)."""
    if t[0] == "nonNull":
        return natural(reg, t[1], j)
    if j is None:
        return True
    if t[0] == "list":
        if isinstance(j, list):
            return all(natural(reg, t[1], x) for x in j)
        return natural(reg, t[1], j)
    d = reg_get(reg, t[1])
    k = d["kind"]
    isint = isinstance(j, int) and not isinstance(j, bool)
    if k == "int":
        return isint
    if k == "float":
        return isint or (isinstance(j, float) and math.isfinite(j))
    if k == "string":
        return isinstance(j, str)
    if k == "boolean":
        return isinstance(j, bool)
    if k == "id":
        return isinstance(j, str) or isint
    if k == "custom":
        impl = d.get("impl", "identity")
        if impl in ("even", "pos"):
            return isint
        if impl == "tagged":
            return isinstance(j, str)
        return isinstance(j, (str, bool))
    if k == "enum":
        return isinstance(j, str) and is_enum_name(j)
    if k == "input":
        if not isinstance(j, dict):
            return False
        ft = {f["name"]: f["type"] for f in d["fields"]}
        return all(is_enum_name(key) and (key not in ft or natural(reg, ft[key], v)) for key, v in j.items())
    return False


def ints_in_range(reg, t, j):
    """every JSON integer at an Int position lies in the closed signed 32-bit interval"""
    if j is None:
        return True
    if t[0] == "nonNull":
        return ints_in_range(reg, t[1], j)
    if t[0] == "list":
        if isinstance(j, list):
            return all(ints_in_range(reg, t[1], x) for x in j)
        return ints_in_range(reg, t[1], j)
    d = reg_get(reg, t[1])
    if d["kind"] == "int":
        return not (isinstance(j, int) and not isinstance(j, bool)) or MIN32 <= j <= MAX32
    if d["kind"] == "input" and isinstance(j, dict):
        ft = {f["name"]: f["type"] for f in d["fields"]}
        return all(ints_in_range(reg, ft[key], v) for key, v in j.items() if key in ft)
    return True


def must_accept(reg, t, j):
    """natural kind, no stated defect, integers inside the 32-bit range: the statement requires acceptance
    (full Int range, defaults filled in, single values wrapped)."""
    return natural(reg, t, j) and not defects(reg, t, j) and ints_in_range(reg, t, j) and _floats_ok(reg, t, j) and _customs_accept(reg, t, j)


def _customs_accept(reg, t, j):
    """custom scalars: the statement promises acceptance only of what the scalar's own parser accepts"""
    if j is None:
        return True
    if t[0] == "nonNull":
        return _customs_accept(reg, t[1], j)
    if t[0] == "list":
        if isinstance(j, list):
            return all(_customs_accept(reg, t[1], x) for x in j)
        return _customs_accept(reg, t[1], j)
    d = reg_get(reg, t[1])
    if d["kind"] == "custom":
        return custom_parse(d.get("impl", "identity"), j)[0] == "value"
    if d["kind"] == "input" and isinstance(j, dict):
        ft = {f["name"]: f["type"] for f in d["fields"]}
        return all(_customs_accept(reg, ft[key], v) for key, v in j.items() if key in ft)
    return True


def _floats_ok(reg, t, j):
    # Float positions: keep JSON integers inside the exactly-representable range (float(int) overflow is out of scope)
    if isinstance(j, list):
        return all(_floats_ok(reg, t, x) for x in j)
    if isinstance(j, dict):
        return all(_floats_ok(reg, t, x) for x in j.values())
    if isinstance(j, int) and not isinstance(j, bool):
        return abs(j) < 2 ** 200
    return True


# --------------------------------------------------------------------------- value generators

INT_EDGES = [0, 1, -1, MAX32, MIN32, MAX32 + 1, MIN32 - 1, MAX32 - 1, MIN32 + 1, 2 ** 40, -(2 ** 63)]


def leaf_natural(reg, d, rng):
    k = d["kind"]
    if k == "int":
        return INT_EDGES + [rng.randint(MIN32, MAX32), rng.randint(-300, 300)]
    if k == "float":
        return [1.5, 0.0, -0.0, 3, -2.25, 1e300, 1e-7, 1e16, rng.uniform(-1e6, 1e6), MAX32 + 1]
    if k == "string":
        return ["", "abc", "true", "A", "12", "é✓ q\"uote\\", "line\nbreak"]
    if k == "boolean":
        return [True, False]
    if k == "id":
        return ["id1", "", 7, -3, 2 ** 40]
    if k == "custom":
        impl = d.get("impl", "identity")
        if impl == "even":
            return [0, 2, -4, 7, 1000, MAX32 + 1]
        if impl == "pos":
            return [1, 5, 0, -3, 2 ** 40]
        if impl == "tagged":
            return ["x", "", "é"]
        return ["x", True, ""]
    if k == "enum":
        return [n for n, _ in d["values"]] + ["ZZ", d["values"][0][0].lower()]
    raise ValueError(k)


def leaf_wrong(reg, d):
    k = d["kind"]
    if k == "int":
        return [True, False, 1.0, 1.5, -0.0, 2147483648.0, "12", " 7 ", "1e3", "1.5", "abc", "", "1_0", [1], [], {}, {"a": 1},
                float("inf"), float("nan"), "inf", "nan", "1e999", 10 ** 400, -(10 ** 400)]
    if k == "float":
        return [float("inf"), float("-inf"), float("nan"), "inf", "-inf", "nan", "Infinity", "1e999", 10 ** 400, -(10 ** 400), 2 ** 1024, 2 ** 1024 - 2 ** 970,
                2 ** 1024 - 2 ** 970 - 1, True, "1.5", "1e3", "x", "",
                [1.5], [], {}, {"a": 1}]
    if k == "string":
        return [1, -5, 1.5, True, False, [1], ["a"], [], {}, {"a": "b"}, float("inf"), float("nan"), 10 ** 400]
    if k == "boolean":
        return [0, 1, 2, "false", "", "x", 0.0, 1.5, [1], [], [False], {}, {"a": True}, float("nan"), float("-inf"), 10 ** 400]
    if k == "id":
        return [1.5, True, [1], ["a"], {}, {"id": 1}]
    if k == "custom":
        impl = d.get("impl", "identity")
        if impl == "even":
            return ["2", 2.0, True, [2], {}, 1.5]
        if impl == "pos":
            return ["7", "x", "", 1.5, True, [1], {"a": 1}, [[2]]]
        if impl == "tagged":
            return [1, True, {"a": 1}, ["x"], 1.5]
        return [1, 1.5, [1, "a"], {"k": [True]}, {}, float("inf"), ["a", None, {"x": "A", "y": [False]}], [[]], {"k": None},
                [float("inf")], {"k": [1.5, float("nan")]}, [[float("-inf")]], float("nan")]
    if k == "enum":
        n0 = d["values"][0][0]
        return [1, True, 1.5, [n0, n0], {}, {n0: 1}, "not a name", "true"]
    raise ValueError(k)


def gen_object(reg, d, rng, depth, flavour):
    """flavour: ok | minimal | unknown | missing | bad"""
    out = {}
    fields = d["fields"]
    for f in fields:
        req = f["type"][0] == "nonNull" and f["default"] is None
        if flavour == "minimal":
            take = req
        elif flavour == "missing":
            take = (not req) and rng.random() < 0.5
        else:
            take = req or rng.random() < 0.6
        if not take:
            continue
        vals = values_for(reg, f["type"], rng, depth - 1, wrong=(flavour == "bad" and rng.random() < 0.5), cap=4)
        if not vals:
            if req and flavour != "missing":
                return None
            continue
        out[f["name"]] = rng.choice(vals)
    if flavour == "unknown":
        out[rng.choice(["zzz", "py_" + fields[0]["name"], fields[0]["py"] if fields[0]["py"] != fields[0]["name"] else "other"])] = 1
    return out


def values_for(reg, t, rng, depth, wrong=False, cap=12):
    """A small list of JSON values for a position of type `t`: natural kind (wrong=False) or structurally
    wrong / wrong-kind somewhere (wrong=True). Mandatory edge values first, then a sample."""
    if t[0] == "nonNull":
        vs = values_for(reg, t[1], rng, depth, wrong, cap)
        return ([None] + vs) if wrong else vs
    if t[0] == "list":
        inner = values_for(reg, t[1], rng, depth, wrong, max(3, cap // 2))
        good = values_for(reg, t[1], rng, depth, False, 3) if wrong else inner
        out = []
        if not wrong:
            out.append(None)
            out.append([])
        for x in inner[:cap]:
            out.append([x])
            out.append(x)                      # single value in a list position
        if inner and good:
            out.append([rng.choice(good), rng.choice(inner)])
            out.append([rng.choice(inner), rng.choice(good), rng.choice(inner)])
        if not wrong and t[1][0] != "nonNull" and inner:
            out.append([None, rng.choice(inner)])
        if wrong and t[1][0] == "nonNull":
            out.append([None])
        return _cap(out, rng, cap)
    d = reg_get(reg, t[1])
    if d["kind"] != "input":
        if wrong:
            return _cap(leaf_wrong(reg, d), rng, cap)
        return _cap([None] + leaf_natural(reg, d, rng), rng, cap, keep=8)
    if wrong:
        out = [1, "x", True, [1], [[]]]
        if depth > 0:
            for fl in ("unknown", "missing", "bad", "bad"):
                o = gen_object(reg, d, rng, depth, fl)
                if o is not None:
                    out.append(o)
        return _cap(out, rng, cap)
    out = [None]
    if depth > 0:
        for fl in ("minimal", "ok", "ok", "ok"):
            o = gen_object(reg, d, rng, depth, fl)
            if o is not None:
                out.append(o)
    return _cap(out, rng, cap)


def _cap(vals, rng, cap, keep=None):
    uniq = []
    seen = set()
    for v in vals:
        key = repr(v) + type(v).__name__
        if key not in seen:
            seen.add(key)
            uniq.append(v)
    if len(uniq) <= cap:
        return uniq
    keep = min(cap, keep if keep is not None else cap // 2)
    head, tail = uniq[:keep], uniq[keep:]
    return head + rng.sample(tail, cap - keep)


def has_boundary(j):
    if isinstance(j, list):
        return any(has_boundary(x) for x in j)
    if isinstance(j, dict):
        return any(has_boundary(x) for x in j.values())
    return isinstance(j, int) and not isinstance(j, bool) and j in (MIN32, MAX32)


def json_size(j):
    if isinstance(j, list):
        return 1 + sum(json_size(x) for x in j)
    if isinstance(j, dict):
        return 1 + sum(json_size(x) for x in j.values())
    return 1

# -*- coding: utf-8 -*-
"""
C02 (decoding part) \u2014 literal values are decoded as the specification prescribes:
escape sequences in quoted strings, BlockStringValue() for block strings (only LF | CR | CRLF are line
terminators, only space/tab are indentation), verbatim text for numbers and names.

* correspondence: `parse_block_string` vs Lean model `parseBlockString` (driver op "block_string");
  block/quoted string tokens vs the Lean lexer.
* direct oracles on the real code: `parse_block_string(raw)` == Lean specification `BlockStringValue(raw)`;
  quoted / block lexemes decode to the specification's semantic value (Spec/Lexical.lean through the driver);
  Integer / Float / Name token values are exactly `text[start:end]`.
"""
import itertools
import json

from corr import C01_lex as L

PROPERTY = "C02"
PART = "C02_decode"
RULE = ("block strings: raw values built from lines x indents (space, tab, NBSP, U+2003) x blank lines x terminators "
        "(LF, CR, CRLF, U+2028, U+2029, U+0085, VT, FF, FS, GS, RS), ALL raw strings of length <= 4 (quick) / 5 (thorough) over "
        "8 characters, direct calls of parse_block_string and through the lexer; quoted strings: every simple escape, \\\\uXXXX "
        "over edge and random code units, every truncation, non-hex look-alikes; numbers/names: generated lexemes inside "
        "token sequences. distinct = distinct raw/lexeme; non-trivial = decoding changes the text (indent removed, line "
        "stripped, escape decoded) or the lexeme is rejected")
ASSUMPTIONS = ["no source line is longer than sys.maxsize (the initial common_indent)"]
TRUSTED = []

TERMS = ["\n", "\r", "\r\n", "\u2028", "\u2029", "\x85", "\x0b", "\x0c", "\x1c", "\x1d", "\x1e"]
INDENTS = ["", " ", "  ", "\t", " \t", "    ", "\xa0", "\u2003", " \xa0", "\u2003 "]
BODIES = ["a", "b c", "", "\"", "\\", "x\xa0", "#", "\u0663"]


def real_pbs(raw):
    from py_gql._string_utils import parse_block_string
    try:
        return ("ok", parse_block_string(raw))
    except Exception as e:  # noqa
        return ("raises", type(e).__name__)


def gen_raw(rng):
    n = rng.choice([1, 2, 3, 4, 6])
    out = []
    deep = rng.random() < 0.35          # all content lines deeply indented, blank lines shorter than the indent
    for i in range(n):
        if deep:
            line = ("    " + rng.choice(INDENTS[:4]) + rng.choice(["a", "b c", "\""])) if rng.random() < 0.65 else rng.choice(["", " ", "  ", "\t", "   "])
            out.append(line)
        else:
            out.append(rng.choice(INDENTS) + rng.choice(BODIES) + (rng.choice(["", " ", "\t"]) if rng.random() < 0.2 else ""))
        if i + 1 < n or rng.random() < 0.3:
            t = rng.choice(TERMS[:3]) if rng.random() < 0.7 else rng.choice(TERMS)
            out.append(t * rng.choice([1, 1, 1, 2]))
    if rng.random() < 0.3:
        out.insert(0, rng.choice(TERMS[:3]))
    return "".join(out)


def feature(raw):
    """which line-splitting / blank feature is involved (for signatures)."""
    f = []
    if any(c in raw for c in "\u2028\u2029\x85\x0b\x0c\x1c\x1d\x1e"):
        f.append("unicode-line-break")
    if any(c.isspace() and c not in " \t\n\r" for c in raw if c not in "\u2028\u2029\x85\x0b\x0c\x1c\x1d\x1e"):
        f.append("unicode-blank")
    if "\r" in raw:
        f.append("cr")
    return "+".join(f) or "plain"


def check_block_raws(ctx, raws, stream):
    raws = list(raws)
    ans = ctx.driver.ask([{"op": "block_string", "raw": L.cps(r)} for r in raws]) if ctx.model_ok else [None] * len(raws)
    for raw, a in zip(raws, ans):
        ctx.count()
        r = real_pbs(raw)
        ctx.stat("block:%s:%s" % (stream, feature(raw)))
        if r[0] != "ok":
            raw2 = L.shrink(raw, lambda x: real_pbs(x)[0] != "ok")
            ctx.fail("parse_block_string-raises:%s:%s" % (r[1], L.classes(raw2)), "parse_block_string raises",
                     {"part": PART, "kind": "block_raw", "raw": L.cps(raw2)})
            continue
        if r[1] != raw:
            ctx.nontrivial(("block", raw))
        if a is None:
            continue
        spec, model = L.from_cps(a["spec"]), L.from_cps(a["model"])
        if r[1] != spec:
            def bad(x):
                rr = real_pbs(x)
                return rr[0] == "ok" and rr[1] != L.from_cps(ctx.driver.ask([{"op": "block_string", "raw": L.cps(x)}])[0]["spec"])
            raw2 = L.shrink(raw, bad, budget=50) if L._reported.setdefault("bsv", 0) < 4 else raw
            L._reported["bsv"] += 1
            ctx.fail("block-string-value:%s" % feature(raw2),
                     "parse_block_string differs from the specification's BlockStringValue()",
                     {"part": PART, "kind": "block_raw", "raw": L.cps(raw2), "impl": L.cps(real_pbs(raw2)[1])})
        if r[1] != model:
            ctx.fail("corr:parse_block_string:%s" % feature(raw), "model parseBlockString and parse_block_string differ",
                     {"part": PART, "kind": "block_raw", "raw": L.cps(raw), "impl": L.cps(r[1]), "model": a["model"]}, kind="correspondence")


def check_verbatim(ctx, texts):
    """Integer / Float / Name token values are the exact source slice."""
    for t in texts:
        r = L.real_lex(t)
        if r[0] != "ok":
            continue
        for (cls, s, e, v) in r[1]:
            if cls in ("Integer", "Float", "Name"):
                ctx.count()
                if v != t[s:e]:
                    ctx.fail("value-not-verbatim:%s:%s" % (cls, L.classes(t[s:e])), "token value is not the source slice",
                             {"part": PART, "kind": "verbatim", "text": L.cps(t)})


def check_token_spans(ctx, rng, n):
    """the token list mirrors the source: kinds in order, each token spanning exactly its lexeme, under every line
    terminator convention (LF, CRLF, old-Mac lone CR, mixed) and with comments closed by any of them or by the end of input."""
    for _ in range(n):
        toks = [L.gen_token(rng) for _ in range(rng.choice([1, 2, 3, 5, 8]))]
        spans = []
        style = rng.choice(["cr", "cr", "mixed", "lf", "crlf"])
        text = L.render(rng, toks, style=style, comments=rng.choice([0.3, 0.7]), spans=spans)
        ctx.count()
        ctx.stat("token-spans:%s" % style)
        r = L.real_lex(text)
        want = [(t[0], a, b) for t, (a, b) in zip(toks, spans)]
        got = [(x[0], x[1], x[2]) for x in r[1][1:-1]] if r[0] == "ok" else None
        if got != want:
            L._reported["spans"] = L._reported.get("spans", 0) + 1
            if L._reported["spans"] > 5:
                ctx.stat("token-span-failures-not-shrunk")
                continue
            # smallest failing form: two tokens around one separator
            small = None
            for sep in ("#c\r", "\r", "#c\n", " ", "#c"):
                for a, b in zip(toks, toks[1:] + [None]):
                    t2 = a[1] + sep + (b[1] if b else "")
                    r2 = L.real_lex(t2)
                    k2 = [x[0] for x in r2[1][1:-1]] if r2[0] == "ok" else None
                    if k2 != [a[0]] + ([b[0]] if b else []):
                        small = (t2, [a[0]] + ([b[0]] if b else []))
                        break
                if small:
                    break
            t2, kinds = small if small else (text, [t[0] for t in toks])
            ctx.fail("token-spans-differ:%s" % L.classes(t2, 16), "the token list does not mirror the source (kinds / order / spans)",
                     {"part": PART, "kind": "token_kinds", "text": L.cps(t2), "expect": kinds})
        elif len(toks) >= 2:
            ctx.nontrivial(("spans", text))


def _name_slices_ok(node, text):
    """every Name / IntValue / FloatValue node spans exactly its own text"""
    if isinstance(node, dict):
        k = node.get("__kind__")
        loc = node.get("loc")
        if k in ("Name", "IntValue", "FloatValue") and loc and text[loc[0]:loc[1]] != str(node.get("value")):
            return False
        return all(_name_slices_ok(v, text) for v in node.values())
    if isinstance(node, (list, tuple)):
        return all(_name_slices_ok(v, text) for v in node)
    return True


def check_layout_invariance(ctx, rng, n):
    """the tree does not depend on the ignored characters: a derivation rendered with plain spaces and rendered with
    comments / commas / BOMs under old-Mac (lone CR), CRLF or mixed line ends parses to the same tree (positions aside),
    and in the located tree every Name / number node spans its own text."""
    from gen import document as gd
    from py_gql.lang import parser as P
    from py_gql.exc import GraphQLSyntaxError
    for _ in range(n):
        ts = rng.random() < 0.5
        fv = rng.random() < 0.3
        toks = gd.gen_document(rng, size=rng.randint(1, 3), executable=(not ts) or rng.random() < 0.7, type_system=ts,
                               fragment_variables=fv, max_depth=rng.randint(1, 3))
        toks3 = [(c, l, None) for c, l in toks]
        plain = L.render(rng, toks3, style="lf", comments=0.0)
        style = rng.choice(["cr", "cr", "mixed", "crlf"])
        fancy = L.render(rng, toks3, style=style, comments=0.7)
        ctx.count()
        ctx.stat("layout-invariance:%s" % style)
        out = []
        for text in (plain, fancy):
            try:
                out.append(("ok", P.parse(text, no_location=True, allow_type_system=True, experimental_fragment_variables=fv).to_dict()))
            except GraphQLSyntaxError:
                out.append(("syntax", None))
            except Exception as e:  # noqa
                out.append(("internal:" + type(e).__name__, None))
        if out[0][0] == "ok":
            ctx.nontrivial(("layout", fancy))
        bad = out[0] != out[1]
        if not bad and out[1][0] == "ok":
            located = P.parse(fancy, allow_type_system=True, experimental_fragment_variables=fv).to_dict()
            bad = not _name_slices_ok(located, fancy)
        if bad:
            ctx.fail("tree-depends-on-ignored-characters:%s:%s->%s" % (style, out[0][0], out[1][0]),
                     "the same token sequence parses to a different tree (or is rejected) when the ignored characters change",
                     {"part": PART, "kind": "layout", "plain": L.cps(plain), "fancy": L.cps(fancy), "fv": fv})


def _strip_loc(x):
    if isinstance(x, dict):
        return {k: _strip_loc(v) for k, v in x.items() if k != "loc"}
    if isinstance(x, (list, tuple)):
        return [_strip_loc(v) for v in x]
    return x


def _walk(node):
    from py_gql.lang import ast as A
    if isinstance(node, A.Node):
        yield node
        for attr in node.__slots__:
            if attr not in ("source", "loc"):
                yield from _walk(getattr(node, attr, None))
    elif isinstance(node, (list, tuple)):
        for x in node:
            yield from _walk(x)


def _reparse_node(node, fv):
    """re-parse `node.source[loc[0]:loc[1]]` — the slice of the text THE NODE carries — with the matching entry point.
    Returns None if it parses back to an equal node (positions aside), else a short reason."""
    from py_gql.lang import ast as A
    from py_gql.lang import parser as P
    src, loc = node.source, node.loc
    if src is None or loc is None:
        return "skip"
    piece = src[loc[0]:loc[1]]
    if isinstance(piece, (bytes, bytearray)):
        # the statement only asks that the spanned text parses back; the entry points accept bytes
        try:
            piece = bytes(piece).decode("utf8")
        except UnicodeDecodeError:
            return "slice-not-decodable"
    want = _strip_loc(node.to_dict())
    try:
        if isinstance(node, A.Name):
            return None if piece == node.value else "name-slice-differs"
        if isinstance(node, A.Document):
            got = P.parse(piece, allow_type_system=True, experimental_fragment_variables=fv)
        elif isinstance(node, A.Value) or isinstance(node, A.Variable):
            got = P.parse_value(piece)
        elif isinstance(node, A.Type):
            got = P.parse_type(piece)
        elif isinstance(node, A.Definition):
            got = P.parse(piece, allow_type_system=True, experimental_fragment_variables=fv).definitions[0]
        elif isinstance(node, A.SelectionSet):
            got = P.parse(piece).definitions[0].selection_set
        elif isinstance(node, A.Field):
            got = P.parse("{" + piece + "}").definitions[0].selection_set.selections[0]
        else:
            return "skip"
    except Exception as e:  # noqa
        return "reparse-raises-%s" % type(e).__name__
    return None if _strip_loc(got.to_dict()) == want else "reparse-differs"


NON_ASCII_DOCS = [
    "# \xe9\n{ a }", "# \U0001F600\n{ a(b: 1) }", "{ a(b: \"\xe9\") c }", "{ a(b: \"\U0001F600\", c: [1, 2]) d }", "# e\u0301\n{ a { b } }",
    "\"\xe9\" type A { a: Int }", "\"\"\"\n\U0001F600\n\"\"\" type A { \"e\u0301\" a(b: Int = 1): [Int!]! }", "{ a } # \u2028\nquery Q { b }",
    "query Q($v: String = \"\u0663\") { a(b: $v) } # \xe9\nfragment F on T { c }", "\ufeff{ a(b: \"\xe9\\u00e9\") \ufeff c }",
]


def check_node_source(ctx, rng, n):
    """every node carries the text it came from: `node.source[loc[0]:loc[1]]` parses back to an equal node — for str AND
    UTF-8 bytes submissions, with non-ASCII characters (BMP, astral, combining) in comments / strings / descriptions
    before the node."""
    from gen import document as gd
    from py_gql.lang import parser as P
    from py_gql.exc import GraphQLSyntaxError
    docs = [(t, False) for t in NON_ASCII_DOCS]
    for _ in range(n):
        ts = rng.random() < 0.5
        fv = rng.random() < 0.3
        toks = gd.gen_document(rng, size=rng.randint(1, 3), executable=(not ts) or rng.random() < 0.7, type_system=ts,
                               fragment_variables=fv, max_depth=rng.randint(1, 3))
        text = L.render(rng, [(c, l, None) for c, l in toks], comments=0.7)
        docs.append((text, fv))
    for text, fv in docs:
        subs = [("str", text)]
        try:
            subs.append(("bytes", text.encode("utf8")))
        except UnicodeEncodeError:
            pass
        for label, sub in subs:
            ctx.count()
            try:
                doc = P.parse(sub, allow_type_system=True, experimental_fragment_variables=fv)
            except GraphQLSyntaxError:
                ctx.stat("node-source:%s:rejected" % label)
                continue
            except Exception as e:  # noqa
                ctx.fail("internal:%s:node-source:%s" % (type(e).__name__, label), "parse raises %s" % type(e).__name__,
                         {"part": PART, "kind": "node_source", "text": L.cps(text), "submit": label, "fv": fv})
                continue
            ctx.stat("node-source:%s:%s" % (label, "non-ascii" if any(ord(c) > 127 for c in text) else "ascii"))
            ctx.nontrivial(("nodesrc", label, text))
            for node in _walk(doc):
                why = _reparse_node(node, fv)
                if why in (None, "skip"):
                    continue
                ctx.fail("node-source-slice:%s:%s:%s" % (label, type(node).__name__, why),
                         "node.source[loc[0]:loc[1]] does not parse back to the node (%s input)" % label,
                         {"part": PART, "kind": "node_source", "text": L.cps(text), "submit": label, "fv": fv,
                          "node": type(node).__name__, "loc": list(node.loc)})
                break


def escape_lexemes(rng, n):
    out = []
    for e in list(L.ESCAPES) + list("acdeghijklmopqsvwxyzABFNRTU0'` \n\t"):
        out += ['"\\%s"' % e, '"x\\%sy"' % e]
    units = [0, 1, 8, 9, 0xA, 0xD, 0x1F, 0x20, 0x22, 0x5C, 0x7F, 0x80, 0xFF, 0x100, 0x2028, 0xD7FF, 0xD800, 0xDBFF, 0xDC00, 0xDFFF, 0xE000, 0xFEFF, 0xFFFE, 0xFFFF]
    units += [rng.randrange(0x10000) for _ in range(n)]
    for u in units:
        h = "%04x" % u
        out += ['"\\u%s"' % h, '"\\u%s"' % h.upper(), '"a\\u%sb"' % "".join(rng.choice([c, c.upper()]) for c in h)]
    # surrogate pairs of escapes (fix C02-U1) and every way of NOT being a pair
    for hi, lo in [(0xD83D, 0xDE00), (0xD800, 0xDC00), (0xDBFF, 0xDFFF), (rng.randrange(0xD800, 0xDC00), rng.randrange(0xDC00, 0xE000))]:
        H, Lo = "%04X" % hi, "%04x" % lo
        out += ['"\\u%s\\u%s"' % (H, Lo), '"a\\u%s\\u%sb"' % (H, Lo), '"\\u%s\\u%s"' % (Lo, H), '"\\u%s\\u%s\\u%s"' % (H, H, Lo),
                '"\\u%s %s"' % (H, chr(lo)), '"\\u%s%s"' % (H, chr(lo)), '"%s\\u%s"' % (chr(hi), Lo), '"\\u%s\\n\\u%s"' % (H, Lo),
                '"\\u%s\\u%s' % (H, Lo), '"\\u%s\\u%s' % (H, Lo[:3]), '"\\u%s\\u%sg"' % (H, Lo[:3]), '"\\u%s\\u0041"' % H]
    look = ["\u0661\u0662\u0663\u0664", "0x12", "0X1f", "123 ", " 123", "+123", "-123", "12_3", "1_23", "123\n", "123\t", "12\xa03", "\uff11234", "123g", "g123", "12\ud8003",
            "1234", "12345", "123", "12", "1", "", "12\"4", "1\\u0", "abcf", "ABCF", "aBcF", "000A", "00a0"]
    for k in look:
        out += ['"\\u%s"' % k, '"\\u%sz"' % k]
    full = '"a\\u12Ab\\n\\\\\\"\\/z"'
    out += [full[:i] for i in range(len(full) + 1)]
    return out


def run(ctx):
    rng = ctx.rng
    L._reported.clear()
    from common import CORPUS
    corpus = []
    for p in sorted((CORPUS / "C02").glob("decode_*.json")):
        try:
            d = json.loads(p.read_text())
        except Exception:  # noqa
            continue
        corpus += [L.from_cps(x) if isinstance(x, list) else x for x in d.get("raws", [])]
    hand = ["", "a", "\n", "\r", "\r\n", "\n\n", "a\n", "\na", " a", "  a\n  b", "a\n  b\n   c", "\n    a\n  b", "a\r\n  b\r  c\n  d",
            "a\u2028b", "a\u2029b", "a\x85b", "a\x0bb", "a\x0cb", "a\x1cb", "a\x1db", "a\x1eb", "\n\xa0a\n\xa0b", "\n\u2003a\n\u2003b",
            "a\n\xa0\nb", "\xa0", " \xa0 ", "\n \n", "  \n\t\n", "a\n\n\nb", "a\n \n  b", "\n\n a \n\n", "a\r\rb", "a\n\rb", "a\r\n\r\nb",
            "a\n    b\n  \n    c", "\n    a\n \n    b\n", "a\n    b\n\t\n    c", "    a\n    b\n  \n    c", "a\n  b\n \n  c\n", "\n      a\n   \n\n      b",
            "a\r\n    b\r\n  \r\n    c", "a\n  b\n \t\n  c",
            "  a", "\ta\n\tb", " \ta\n \tb", "\t a\n \tb", "a\n  ", "a\n  \n", "   \n  a\n   ", "a\n b\nc", "\n a\n\n b"]
    check_block_raws(ctx, corpus + hand, "hand")
    check_block_raws(ctx, [gen_raw(rng) for _ in range(ctx.n(1500, 15000))], "generated")
    # bounded-exhaustive raw values
    alpha = ["a", " ", "\t", "\n", "\r", "\u2028", "\xa0", "\""]
    maxlen = 4 if ctx.tier == "quick" else 5
    allraw = ["".join(p) for k in range(1, maxlen + 1) for p in itertools.product(alpha, repeat=k)]
    ctx.extra["exhaustive_raw_block_values"] = len(allraw)
    for i in range(0, len(allraw), 5000):
        if ctx.time_left() < 6:
            ctx.notes.append("exhaustive raw stream cut short at %d" % i)
            break
        check_block_raws(ctx, allraw[i:i + 5000], "exhaustive")

    # through the lexer: complete block / quoted lexemes against the specification's semantic value
    lexemes = []
    for raw in corpus + hand + [gen_raw(rng) for _ in range(ctx.n(400, 4000))]:
        esc = raw.replace('"""', '\\"""')
        if esc.endswith('"') or esc.endswith("\\"):
            esc += rng.choice([" ", "\n"])
        lexemes.append('"""' + esc + '"""')
    lexemes += escape_lexemes(rng, ctx.n(60, 600))
    for _ in range(ctx.n(300, 3000)):
        lexemes.append(L.gen_string(rng)[0])
    L.oracle_single_lexemes(ctx, lexemes, "decode", part=PART)
    L.check_texts(ctx, lexemes, "decode", error_contract=False)
    ctx.sample({"raw": hand[11], "parse_block_string": real_pbs(hand[11])[1]})

    # verbatim numbers / names
    texts = []
    for _ in range(ctx.n(300, 3000)):
        toks = [L.gen_token(rng) for _ in range(rng.choice([1, 2, 4, 7]))]
        texts.append(L.render(rng, toks))
    check_verbatim(ctx, texts)
    check_token_spans(ctx, rng, ctx.n(500, 5000))
    if ctx.time_left() > 5:
        check_layout_invariance(ctx, rng, ctx.n(150, 1500))
    if ctx.time_left() > 5:
        check_node_source(ctx, rng, ctx.n(80, 800))


def replay(ctx, data):
    inp = data.get("input") or {}
    if inp.get("part") not in (None, PART):
        return True
    kind = inp.get("kind")
    if kind == "block_raw":
        raw = L.from_cps(inp.get("raw", []))
        r = real_pbs(raw)
        if r[0] != "ok":
            return False
        if ctx.driver.available():
            a = ctx.driver.ask([{"op": "block_string", "raw": L.cps(raw)}])[0]
            return r[1] == L.from_cps(a["spec"])
        return True
    if kind == "lexeme" and ctx.driver.available():
        before = len(ctx.found)
        L.oracle_single_lexemes(ctx, [L.from_cps(inp.get("text", []))], "replay", part=PART)
        return len(ctx.found) == before
    if kind == "node_source":
        from py_gql.lang import parser as P
        text = L.from_cps(inp.get("text", []))
        sub = text.encode("utf8") if inp.get("submit") == "bytes" else text
        fv = bool(inp.get("fv"))
        try:
            doc = P.parse(sub, allow_type_system=True, experimental_fragment_variables=fv)
        except Exception:  # noqa
            return True
        return all(_reparse_node(nd, fv) in (None, "skip") for nd in _walk(doc))
    if kind == "token_kinds":
        t = L.from_cps(inp.get("text", []))
        r = L.real_lex(t)
        return r[0] == "ok" and [x[0] for x in r[1][1:-1]] == inp.get("expect")
    if kind == "layout":
        from py_gql.lang import parser as P
        res = []
        for key in ("plain", "fancy"):
            try:
                res.append(P.parse(L.from_cps(inp.get(key, [])), no_location=True, allow_type_system=True,
                                   experimental_fragment_variables=bool(inp.get("fv"))).to_dict())
            except Exception as e:  # noqa
                res.append(type(e).__name__)
        return res[0] == res[1]
    if kind == "verbatim":
        before = len(ctx.found)
        check_verbatim(ctx, [L.from_cps(inp.get("text", []))])
        return len(ctx.found) == before
    return True

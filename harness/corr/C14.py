# -*- coding: utf-8 -*-
"""
C14 — extending, cloning and transforming schemas keeps them closed and intact; clone-based
transforms leave the source unmodified.

Direct oracle on the live objects (closedness by identity, frame condition on the source with
identities, preserved attributes, hidden elements unreachable through real introspection and
real queries, source still usable) + correspondence with the Lean object-heap model
(`PyGqlModel/Heap.lean`) up to renaming of identities.
"""
import ast
import textwrap
import copy
import json
import re

from common import REPO
from corr import C14_world as W

PROPERTY = "C14"
RULE = ("one generated source schema (harness/gen/schema.py + code-built resolvers / python names / type resolvers) "
        "and a random sequence of clone / transform_schema(visibility | camel-case | schema-directive visitor) / "
        "extend_schema / _replace_types_and_directives / in-place on_schema steps, each applied to the source or (40%) to the "
        "RESULT of an earlier step (camel-case then visibility, a hidden field then clone, clone of a clone, extend after a "
        "transform, a wrapped resolver then any derivation: every derivation must succeed, and a field that is still there must "
        "carry and execute the resolver REGISTERED for it, under its new name), each followed by registrations "
        "(register_resolver / register_subscription / register_default_resolver, method and decorator forms) on the DERIVED "
        "schema for a type with and a type without registry entries in the source; one evaluation = one step checked; "
        "non-trivial = distinct (step kind, what it hid/added, schema shape) whose result differs from the source")
ASSUMPTIONS = [
    "visibility predicates are finite sets of hidden names (the theorems quantify over arbitrary predicates); 40% of them also answer False for specified scalars / introspection type names (deny-lists naming them, allow-list style predicates): those are never hidden, whatever the predicate says - `VisP.isTypeVisible p n = isProtected n || p.typeVis n` in the model, `_is_type_visible` in the code - so input fields / arguments / fields of such types stay",
    "type object names are immutable (no modelled operation assigns .name of a NamedType), so a reference carries its target's name",
    "wrapper objects (ListType/NonNullType) are immutable values: only the identity of the named type at their base is tracked",
    "rare-but-valid names (single leading underscore, `_`+digits, one letter, case-only differences, keyword-like) are generated in the C14 world builder for ~45% of the sources; every such type references other user types and is referenced from Query",
    "recursive input objects are not generated (defect S1 makes extend_schema recurse forever on them)",
    "steps rejected by schema validation (SchemaValidationError / ExtensionError / SDLError) produce no schema; their side effects on the heap are still compared; any other exception, a plain SchemaError included, is a failure of the derivation",
    "about half of the object types of a source get their resolvers through the schema's registries; 12% of the sources hold one or two type objects that are instances of an application-defined subclass of ObjectType / InterfaceType / InputObjectType",
    "default values are opaque to the heap model (`dflt` = repr of the coerced value): the steps sent to the model add no input field WITH a default and remove no enum value / input field a default mentions through an extension, so `ArgKept.dflt` (the default is kept) is what the code does; defaults that must CHANGE (an extension adding a defaulted input field, T15) or that mention removed members (T13, T14) are checked by the direct oracle only (`default_cases`, `directive_cases`)",
    "the ORDER of the `types` / `directives` dicts is compared with the model (corr:registry-order) for every clone / transform / in-place / replace / extend result, extension results and their descendants included (extendOrder: the depth-first registration order of Schema.__init__ over the rebuilt types; the heap comparison itself is order-insensitive)",
    "about half of the extension documents that define an object type let it implement an interface of the schema (with the interface's fields): decided by a fixed function of the step number and the schema, without drawing from the generator's rng; `extend type X implements I` on an EXISTING type is not generated (not modelled)",
    "named probes run after everything that draws from ctx.rng and draw nothing themselves: python names through camel-case, input fields of a clone, in-place visitor on an earlier result while a sibling clone / a clone of it / an extension of it exist",
    "resolver identity is by function object (every resolver of the harness is a distinct function with a stable id); the registry model compares these ids",
]
TRUSTED = [
    "Cfg extraction: which keyword arguments the _extend_* constructors pass and which clone()/replace variants are present is read from the source with `ast`/regex (Generated/HeapCfg.lean)",
    "snakecase_to_camelcase is not modelled: the renaming table is computed by the real function and passed to the model (theorems hold for every renaming function)",
    "schema validation (validate()) is not part of the heap model",
]

SCHEMA_PY = REPO / "src/py_gql/schema/schema.py"
BUILDER_PY = REPO / "src/py_gql/sdl/ast_type_builder.py"
FROM_AST_PY = REPO / "src/py_gql/sdl/schema_from_ast.py"

CFG_KEYS = ["keepAllTypes", "deepClone", "accumulateBusted", "cloneSchemaDres",
            "extObjDres", "extFieldSub", "extFieldPy", "extIfaceRtype", "extUnionDesc", "extUnionRtype",
            "extArgPy", "extInputPy", "extKeepAll", "extSchemaDres", "extInputFieldExtended", "cloneRegsDeep",
            "cloneRegsFiltered", "cloneRegsByValue", "extKeepRegs", "extLeafCopied"]


def _accumulates(replace_src):
    assigns = re.findall(r"^[ \t]*busted_cache[ \t]*(\|=|=)[ \t]*(.*)$", replace_src, re.M)
    later = [(op, rhs.strip()) for op, rhs in assigns if not (op == "=" and rhs.strip() == "False")]
    if not later:
        return False
    return all(op == "|=" or re.match(r"(busted_cache\s+or\b|True\b)", rhs) for op, rhs in later)


def read_cfg():
    """Which variant of the anchored code is in the working tree (see Heap.lean `Cfg`)."""
    src = SCHEMA_PY.read_text()
    tree = ast.parse(src)
    clone = None
    replace = None
    for n in ast.walk(tree):
        if isinstance(n, ast.FunctionDef) and n.name == "clone":
            clone = n
        if isinstance(n, ast.FunctionDef) and n.name == "_replace_types_and_directives":
            replace = n
    if clone is None or replace is None:
        raise ValueError("Schema.clone / _replace_types_and_directives not found")
    clone_src = ast.get_source_segment(src, clone)
    replace_src = ast.get_source_segment(src, replace)
    if "copy.copy(t)" not in clone_src and "_clone_type(t)" not in clone_src:
        raise ValueError("clone(): unexpected way of copying types")
    if "busted_cache" not in replace_src:
        raise ValueError("_replace_types_and_directives: busted_cache flag not found")
    cfg = {
        "keepAllTypes": bool(re.search(r"types\.setdefault\(|types=list\(self\.types", clone_src)),
        "deepClone": "_clone_type(t)" in clone_src and "_clone_field" in src,
        # EVERY assignment to the flag (types loop and directives loop) must accumulate: `busted_cache = busted_cache or …`,
        # `busted_cache |= …`, or a guarded `busted_cache = True`; one overwriting assignment is the legacy variant (T3)
        "accumulateBusted": _accumulates(replace_src),
        "cloneSchemaDres": "cloned.default_resolver" in clone_src,
    }
    # how clone() copies the resolver registries:
    #   cloned.resolvers.update(self.resolvers)                      outer maps only, inner dicts SHARED        (shallow)
    #   cloned.merge_resolvers(self)                                 replayed through register_resolver, every entry
    #   cloned.merge_resolvers(self._applicable_resolvers(cloned))   replayed, only entries naming a field of the clone (d328eb2)
    #   self._copy_registries_to(cloned)                             entries naming a field of the clone, copied by value
    def _fn(name):
        for n in ast.walk(tree):
            if isinstance(n, ast.FunctionDef) and n.name == name:
                return ast.get_source_segment(src, n)
        return None

    def _check_registered():
        reg = _fn("_registered")
        if reg is None:
            raise ValueError("clone(): _registered not found")
        if not (re.search(r"isinstance\(type_,\s*ObjectType\)", reg) and re.search(r"fieldname in type_\.field_map", reg)
                and re.search(r"schema\.types\.get\(typename\)", reg)):
            raise ValueError("_registered: unexpected filter")

    cfg["cloneRegsFiltered"] = False
    cfg["cloneRegsByValue"] = False
    if re.search(r"\.merge_resolvers\(\s*self\._applicable_resolvers\(\s*cloned\s*\)\s*\)", clone_src):
        appl = _fn("_applicable_resolvers")
        if appl is None:
            raise ValueError("clone(): _applicable_resolvers not found")
        if not (re.search(r"=\s*ResolverMap\(\)", appl) and "_registered(self.resolvers, target)" in appl
                and re.search(r"_registered\(\s*self\.subscriptions,\s*target\s*\)", appl)
                and "register_resolver(typename, fieldname, resolver)" in appl
                and "register_subscription(typename, fieldname, resolver)" in appl):
            raise ValueError("_applicable_resolvers: unexpected shape")
        _check_registered()
        cfg["cloneRegsDeep"] = True
        cfg["cloneRegsFiltered"] = True
    elif re.search(r"self\._copy_registries_to\(\s*cloned\s*\)", clone_src):
        helper = _fn("_copy_registries_to")
        if helper is None:
            raise ValueError("clone(): _copy_registries_to not found")
        helper = ast.unparse(ast.parse(textwrap.dedent(helper)))      # (no comments, canonical layout)
        if not (re.search(r"_registered\(\s*self\.resolvers,\s*target\s*\)", helper)
                and re.search(r"_registered\(\s*self\.subscriptions,\s*target\s*\)", helper)
                and re.search(r"target\.resolvers\.setdefault\(typename,\s*\{\}\)\[fieldname\]\s*=\s*resolver", helper)
                and re.search(r"target\.subscriptions\.setdefault\(typename,\s*\{\}\)\[\s*fieldname\s*\]\s*=\s*resolver", helper)
                and "register_resolver(" not in helper and "register_subscription(" not in helper):
            raise ValueError("_copy_registries_to: unexpected shape")
        _check_registered()
        cfg["cloneRegsDeep"] = True
        cfg["cloneRegsFiltered"] = True
        cfg["cloneRegsByValue"] = True
        cfg["cloneSchemaDres"] = bool(re.search(r"target\.default_resolver\s*=\s*self\.default_resolver", helper))
    elif re.search(r"\.merge_resolvers\(\s*self\s*\)", clone_src):
        cfg["cloneRegsDeep"] = True
    elif re.search(r"\.resolvers\.update\(\s*self\.resolvers\s*\)", clone_src):
        cfg["cloneRegsDeep"] = False
    else:
        raise ValueError("clone(): unexpected way of copying the resolver registries")
    bsrc = BUILDER_PY.read_text()
    btree = ast.parse(bsrc)
    kw = {}
    found = set()
    for n in ast.walk(btree):
        if isinstance(n, ast.FunctionDef) and n.name.startswith("_extend_"):
            found.add(n.name)
            for c in ast.walk(n):
                if isinstance(c, ast.Call) and isinstance(c.func, ast.Name) and c.func.id in (
                        "ObjectType", "Field", "InterfaceType", "UnionType", "InputField", "Argument"):
                    kw.setdefault(c.func.id, set()).update(k.arg for k in c.keywords if k.arg)
    need = {"_extend_object_type", "_extend_field", "_extend_interface_type", "_extend_union_type", "_extend_argument",
            "_extend_input_object_type"}
    if not need <= found:
        raise ValueError("ASTTypeBuilder._extend_* methods missing: %s" % sorted(need - found))
    for cls in ("ObjectType", "Field", "InterfaceType", "UnionType", "InputField", "Argument"):
        if cls not in kw:
            raise ValueError("no %s(...) constructor call in the _extend_* methods" % cls)
    cfg.update({
        "extObjDres": "default_resolver" in kw["ObjectType"],
        "extFieldSub": "subscription_resolver" in kw["Field"],
        "extFieldPy": "python_name" in kw["Field"],
        "extIfaceRtype": "resolve_type" in kw["InterfaceType"],
        "extUnionDesc": "description" in kw["UnionType"],
        "extUnionRtype": "resolve_type" in kw["UnionType"],
        "extArgPy": "python_name" in kw["Argument"],
        "extInputPy": "python_name" in kw["InputField"],
    })
    # leaf types on extension: rebuilt as plain ScalarType(...) / EnumType(...) (the class of a subclass instance is lost)
    # or copied with copy.copy (T9)
    leaf = {}
    for n in ast.walk(btree):
        if isinstance(n, ast.FunctionDef) and n.name in ("_extend_scalar_type", "_extend_enum_type"):
            cls = "ScalarType" if n.name == "_extend_scalar_type" else "EnumType"
            arg = n.args.args[1].arg
            calls = [c for c in ast.walk(n) if isinstance(c, ast.Call)]
            rebuilt = any(isinstance(c.func, ast.Name) and c.func.id == cls for c in calls)
            copied = any(isinstance(c.func, ast.Attribute) and c.func.attr == "copy" and isinstance(c.func.value, ast.Name)
                         and c.func.value.id == "copy" and len(c.args) == 1 and isinstance(c.args[0], ast.Name) and c.args[0].id == arg
                         for c in calls)
            if rebuilt == copied:
                raise ValueError("%s: neither a plain %s(...) rebuild nor copy.copy(%s)" % (n.name, cls, arg))
            if copied and cls == "EnumType" and not any(isinstance(c.func, ast.Attribute) and c.func.attr == "_set_values" for c in calls):
                raise ValueError("_extend_enum_type: copied enum without _set_values(values)")
            leaf[cls] = copied
    if set(leaf) != {"ScalarType", "EnumType"}:
        raise ValueError("_extend_scalar_type / _extend_enum_type not found")
    if leaf["ScalarType"] != leaf["EnumType"]:
        raise ValueError("_extend_scalar_type and _extend_enum_type differ in how they derive the new type object (one flag in the model)")
    cfg["extLeafCopied"] = leaf["ScalarType"]
    # attributes that MUST be copied for the model to be right (always copied today)
    for cls, ks in (("Field", {"description", "deprecation_reason", "resolver", "args"}),
                    ("Argument", {"default_value", "description"}), ("InputField", {"default_value", "description"}),
                    ("ObjectType", {"description", "fields", "interfaces"}), ("InterfaceType", {"description", "fields"})):
        if not ks <= kw[cls]:
            raise ValueError("%s(...) in _extend_* no longer passes %s" % (cls, sorted(ks - kw[cls])))
    fsrc = FROM_AST_PY.read_text()
    m = re.search(r"def extend_schema\(.*?\n(?=def )", fsrc, flags=re.S)
    if not m:
        raise ValueError("extend_schema not found")
    esrc = m.group(0)
    cfg["extKeepAll"] = "if t.name in type_exts" not in esrc
    cfg["extInputFieldExtended"] = bool(re.search(r"_extend_input_field\(\s*self\._build_input_field\(ext_field\)", bsrc))
    cfg["extSchemaDres"] = bool(re.search(r"\.default_resolver\s*=\s*schema\.default_resolver", esrc))
    # does extend_schema carry the resolvers / subscriptions registries over (by value, like clone)?
    cfg["extKeepRegs"] = False
    if re.search(r"schema\._copy_registries_to\(\s*extended\s*\)", esrc):
        helper = ast.unparse(ast.parse(textwrap.dedent(_fn("_copy_registries_to") or "")))
        cfg["extKeepRegs"] = bool(cfg["cloneRegsByValue"] or re.search(r"target\.resolvers\.setdefault\(typename,\s*\{\}\)\[fieldname\]\s*=\s*resolver", helper))
        if not cfg["extKeepRegs"]:
            raise ValueError("extend_schema: _copy_registries_to has an unexpected shape")
        cfg["extSchemaDres"] = bool(re.search(r"target\.default_resolver\s*=\s*self\.default_resolver", helper))
    elif re.search(r"\.merge_resolvers\(|\.resolvers\.update\(|\.resolvers\s*=", esrc):
        raise ValueError("extend_schema: unexpected way of copying the resolver registries")
    return cfg


def extract(ctx):
    cfg = read_cfg()
    lines = ["/- GENERATED on every run from src/py_gql/schema/schema.py, sdl/ast_type_builder.py, sdl/schema_from_ast.py -/",
             "import PyGqlModel.HeapCfg", "namespace PyGql.Generated.HeapCfg", "open PyGql.Heap", "",
             "/-- the variant of clone / _replace_types_and_directives / _extend_* present in the working tree -/",
             "def currentCfg : Cfg := {"]
    lines.append(",\n".join("  %s := %s" % (k, "true" if cfg[k] else "false") for k in CFG_KEYS))
    lines.append("}")
    lines.append("end PyGql.Generated.HeapCfg")
    return {"PyGqlModel/Generated/HeapCfg.lean": "\n".join(lines) + "\n"}


# ---------------------------------------------------------------------------
# steps
# ---------------------------------------------------------------------------

def live_names(schema):
    from py_gql.schema import EnumType, InputObjectType, InterfaceType, ObjectType, ScalarType, UnionType
    out = {"object": [], "interface": [], "union": [], "enum": [], "input": [], "scalar": []}
    for n, t in schema.types.items():
        if n.startswith("__") or n in W.SCALARS:
            continue
        for k, cls in (("object", ObjectType), ("interface", InterfaceType), ("union", UnionType), ("enum", EnumType),
                       ("input", InputObjectType), ("scalar", ScalarType)):
            if isinstance(t, cls):
                out[k].append(n)
    return out


INTROSPECTION_NAMES = ["__Schema", "__Type", "__Field", "__InputValue", "__EnumValue", "__Directive", "__TypeKind", "__DirectiveLocation"]


def gen_visibility(rng, schema):
    from py_gql.schema import InputObjectType, InterfaceType, ObjectType, SPECIFIED_DIRECTIVES
    names = live_names(schema)
    roots = {r.name for r in (schema.query_type, schema.mutation_type, schema.subscription_type) if r is not None}
    cand = [n for k in names for n in names[k] if n not in roots]
    v = {"k": "visibility", "types": [], "fields": [], "inputs": [], "dirs": []}
    if rng.random() < 0.12:
        return v      # hides nothing: must behave like clone() and must not be rejected
    r = rng.random()
    if cand and r < 0.7:
        v["types"] = sorted(rng.sample(cand, rng.randint(1, min(2, len(cand)))))
    if rng.random() < 0.05 and roots:
        v["types"].append(sorted(roots)[0])
    # predicates that also answer False for names the transform must never hide: a deny-list naming specified scalars /
    # introspection types, or an ALLOW-list style predicate (`return name in EXPOSED`: False for every name that is not a user
    # type the application exposes — all specified scalars and introspection types included)
    k = rng.random()
    if k < 0.2:
        v["types"] = sorted(set(v["types"]) | set(rng.sample(W.SCALARS, rng.randint(1, 3))) | set(rng.sample(INTROSPECTION_NAMES, rng.randint(0, 2))))
        v["style"] = "deny-list-naming-protected-types"
    elif k < 0.4:
        v["types"] = sorted(set(v["types"]) | set(W.SCALARS) | set(INTROSPECTION_NAMES))
        v["style"] = "allow-list"
    fcand = [(n, f.name) for n, t in schema.types.items() if isinstance(t, (ObjectType, InterfaceType)) and not n.startswith("__")
             for f in t.fields]
    if fcand and rng.random() < 0.6:
        v["fields"] = sorted(rng.sample(fcand, rng.randint(1, min(3, len(fcand)))))
    icand = [(n, f.name) for n, t in schema.types.items() if isinstance(t, InputObjectType) for f in t.fields]
    if icand and rng.random() < 0.4:
        mentioned = sorted({(b.name, f.name) for _, el, b in _defaulted_members(schema) if isinstance(b, InputObjectType)
                            and isinstance(el.default_value, dict) for f in b.fields if f.python_name in el.default_value})
        v["inputs"] = sorted(rng.sample(mentioned if mentioned and rng.random() < 0.5 else icand, 1))
    dcand = [d.name for d in schema.directives.values() if d not in SPECIFIED_DIRECTIVES]
    if dcand and rng.random() < 0.4:
        v["dirs"] = [rng.choice(dcand)]
    v["fields"] = [list(x) for x in v["fields"]]
    v["inputs"] = [list(x) for x in v["inputs"]]
    return v


def gen_sdir(rng, schema):
    """A schema-directive style visitor: drops some fields, replaces others by a rebuilt Field with a wrapped resolver."""
    from py_gql.schema import InterfaceType, ObjectType
    fcand = [(n, f.name) for n, t in schema.types.items() if isinstance(t, (ObjectType, InterfaceType)) and not n.startswith("__")
             for f in t.fields]
    rng.shuffle(fcand)
    k = rng.randint(0, min(2, len(fcand)))
    drop = sorted(fcand[:k]) if rng.random() < 0.4 else []
    wrap = sorted(fcand[k:k + rng.randint(1, 3)])
    return {"k": "sdir", "drop": [list(x) for x in drop], "wrap": [list(x) for x in wrap]}


def gen_ext(rng, schema, n, force_wrapdir=False):
    """Structured extension document (also rendered to SDL)."""
    from py_gql.schema import InterfaceType, ObjectType
    names = live_names(schema)
    ext = {"new_types": [], "fields": {}, "input_fields": {}, "members": {}, "values": {}, "new_dirs": []}
    out_pool = W.SCALARS + names["object"] + names["interface"] + names["union"] + names["enum"]

    def ty(base):
        t = {"k": "named", "n": base}
        r = rng.random()
        if r < 0.25:
            t = {"k": "list", "t": t}
        elif r < 0.4:
            t = {"k": "nonNull", "t": t}
        return t

    # rare-but-valid names in the extension DOCUMENT: blocks on types named `_…` / `on` / `type` / one letter (when the
    # source has them), and new types / fields / values / directives with a leading underscore
    rare = rng.random() < 0.4
    u = "_" if rare else ""

    def pick(pool):
        special = [x for x in pool if x in W.RARE_TYPE_NAMES]
        return rng.choice(special) if special and rng.random() < 0.6 else rng.choice(pool)

    zed = None
    if rng.random() < 0.7:
        zed = "%sZed%d" % (u, n)
        ext["new_types"].append({"kind": "object", "name": zed, "fields": [
            {"name": u + "z_val", "ty": ty("Int"), "args": []},
            {"name": "z_ref", "ty": ty(rng.choice(out_pool + [zed])), "args": [{"name": u + "z_arg", "ty": ty("Int")}] if rng.random() < 0.5 else []}]})
        out_pool = out_pool + [zed]
        # `type Zed implements I { …I's fields… }`: an object type DEFINED by the document that declares an interface of the
        # source (the heap model carries them: Ext.newIfaces / setNewIfaces). Decided WITHOUT drawing from `rng` (the stream
        # of every later choice stays what it was): a fixed function of the step number and the schema's interfaces.
        ifs = sorted(names["interface"])
        if ifs and (n * 7 + len(ifs) + len(names["object"])) % 2 == 0:
            iname = ifs[(n + len(names["object"])) % len(ifs)]
            iface = schema.types[iname]
            mine = {f["name"] for f in ext["new_types"][-1]["fields"]}
            from py_gql.schema import NonNullType
            # (the extension format carries no default values: an argument that is REQUIRED once its default is gone would make
            #  the new type's field unusable by the coverage query — such interfaces are not implemented)
            plain = all(not isinstance(a.type, NonNullType) for f in iface.fields for a in f.arguments)
            if plain and not (mine & {f.name for f in iface.fields}):
                ext["new_types"][-1]["fields"] += [
                    {"name": f.name, "ty": _ty_json(f.type), "args": [{"name": a.name, "ty": _ty_json(a.type)} for a in f.arguments]}
                    for f in iface.fields]
                ext["new_types"][-1]["implements"] = [iname]
    wrap_targets = []
    if names["object"] and rng.random() < 0.6:
        o = pick(names["object"])
        ext["fields"].setdefault(o, []).append({"name": "%sext_f%d" % (u, n), "ty": ty(rng.choice(out_pool)), "args": []})
        wrap_targets.append([o, "%sext_f%d" % (u, n)])
    if names["interface"] and rng.random() < 0.35:
        i = pick(names["interface"])
        f = {"name": "%sext_if%d" % (u, n), "ty": ty(rng.choice(W.SCALARS)), "args": []}
        ext["fields"].setdefault(i, []).append(f)
        for o in names["object"]:
            if any(x.name == i for x in schema.types[o].interfaces):
                ext["fields"].setdefault(o, []).append(copy.deepcopy(f))
        for t in ext["new_types"]:
            if i in t.get("implements", []):
                t["fields"].append(copy.deepcopy(f))
    if names["union"] and zed and rng.random() < 0.5:
        ext["members"][pick(names["union"])] = [zed]
    if names["enum"] and rng.random() < 0.4:
        ext["values"][pick(names["enum"])] = ["%sEXT_V%d" % (u, n)]
    if names["input"] and rng.random() < 0.4:
        t = ty(rng.choice(W.SCALARS + names["enum"]))
        if t["k"] == "nonNull":
            t = t["t"]      # a new REQUIRED input field would invalidate existing default values of that input type
        ext["input_fields"][pick(names["input"])] = [{"name": "%sext_i%d" % (u, n), "ty": t}]
    if rng.random() < 0.25:
        ext["new_dirs"].append({"name": "%sext_dir%d" % (u, n), "args": [{"name": u + "d_arg", "ty": ty("Int")}], "locs": ["FIELD"]})
    if not any(ext[k] for k in ext):
        ext["new_types"].append({"kind": "object", "name": "Zed%d" % n, "fields": [{"name": "z_val", "ty": ty("Int"), "args": []}]})
    if rng.random() < 0.45 or force_wrapdir:
        # `extend_schema(…, schema_directives=[Wrap])`: the extension document uses a schema directive (`@c14wrap`, a resolver
        # wrapper) on fields it ADDS — or on none; fields of the source that carry it were wrapped when they were added
        ext["wrapdir"] = {"define": WRAPDIR not in schema.directives, "targets": wrap_targets if rng.random() < 0.8 else []}
    return ext


WRAPDIR = "c14wrap"


def _ty_json(t):
    from py_gql.schema import ListType, NonNullType
    if isinstance(t, ListType):
        return {"k": "list", "t": _ty_json(t.type)}
    if isinstance(t, NonNullType):
        return {"k": "nonNull", "t": _ty_json(t.type)}
    return {"k": "named", "n": t.name}


def ty_sdl(t):
    return t["n"] if t["k"] == "named" else ("[%s]" % ty_sdl(t["t"]) if t["k"] == "list" else ty_sdl(t["t"]) + "!")


def ext_sdl(ext, schema):
    from py_gql.schema import InputObjectType, InterfaceType
    parts = []
    wd = ext.get("wrapdir") or {"targets": []}
    targets = {tuple(x) for x in wd["targets"]}

    def fields(fs, owner=None):
        return "{ " + " ".join("%s%s: %s%s" % (f["name"], ("(" + ", ".join("%s: %s" % (a["name"], ty_sdl(a["ty"])) for a in f["args"]) + ")")
                                               if f.get("args") else "", ty_sdl(f["ty"]),
                                               " @" + WRAPDIR if (owner, f["name"]) in targets else "") for f in fs) + " }"
    for t in ext["new_types"]:
        parts.append("type %s%s %s" % (t["name"], (" implements " + " & ".join(t["implements"])) if t.get("implements") else "",
                                       fields(t["fields"])))
    for n, fs in ext["fields"].items():
        kw = "interface" if isinstance(schema.types[n], InterfaceType) else "type"
        parts.append("extend %s %s %s" % (kw, n, fields(fs, n)))
    for n, fs in ext["input_fields"].items():
        parts.append("extend input %s { %s }" % (n, " ".join("%s: %s" % (f["name"], ty_sdl(f["ty"])) for f in fs)))
    for n, ms in ext["members"].items():
        parts.append("extend union %s = %s" % (n, " | ".join(ms)))
    for n, vs in ext["values"].items():
        parts.append("extend enum %s { %s }" % (n, " ".join(vs)))
    for d in ext["new_dirs"]:
        parts.append("directive @%s(%s) on %s" % (d["name"], ", ".join("%s: %s" % (a["name"], ty_sdl(a["ty"])) for a in d["args"]),
                                                  " | ".join(d["locs"])))
    if wd.get("define"):
        parts.append("directive @%s on FIELD_DEFINITION" % WRAPDIR)
    return "\n".join(parts)


def gen_step(rng, schema, i, src=0):
    """One step starting from `schema` (= the schema number `src` of the sequence: the source or an earlier RESULT)."""
    r = rng.random()
    if src != 0 and r >= 0.92:
        r = 0.1            # (replace steps only on the source)
    if src != 0 and WRAPDIR in schema.directives and rng.random() < 0.6:
        # a second extension, with schema directives again, of a schema whose fields already carry an applied directive
        return {"op": "extend", "src": src, "ext": gen_ext(rng, schema, i, force_wrapdir=True)}
    if r < 0.15:
        return {"op": "clone", "src": src}
    if r < 0.55:
        vs = []
        k = rng.random()
        if k < 0.55:
            vs.append(gen_visibility(rng, schema))
        elif k < 0.75:
            vs.append({"k": "camel"})
        elif k < 0.88:
            vs.append(gen_sdir(rng, schema))
        else:
            vs.append(gen_visibility(rng, schema))
            vs.append({"k": "camel"})
        return {"op": "transform", "src": src, "visitors": vs}
    if r < 0.8:
        vs = []
        for _ in range(rng.randint(1, 2)):
            k = rng.random()
            vs.append(gen_visibility(rng, schema) if k < 0.6 else ({"k": "camel"} if k < 0.8 else gen_sdir(rng, schema)))
        if sum(1 for v in vs if v["k"] == "camel") > 1:
            vs = vs[:1]
        vs.sort(key=lambda v: v["k"] == "camel")     # predicates name elements by their source names: rename last
        return {"op": "inplace", "src": src, "visitors": vs}
    if r < 0.92:
        return {"op": "extend", "src": src, "ext": gen_ext(rng, schema, i)}
    names = live_names(schema)
    roots = {r.name for r in (schema.query_type, schema.mutation_type, schema.subscription_type) if r is not None}
    cand = [n for k in ("object", "interface", "union", "input") for n in names[k] if n not in roots]
    rng.shuffle(cand)
    entries = [[n, rng.choice(["copy", "same", "same", "delete"] if j else ["copy"])] for j, n in enumerate(cand[:3])]
    rng.shuffle(entries)
    return {"op": "replace", "src": src, "entries": entries}


def gen_steps(rng, schema, n_steps):
    return [gen_step(rng, schema, i) for i in range(n_steps)]


# ---------------------------------------------------------------------------
# running a step on the real code
# ---------------------------------------------------------------------------

def camel_table(schema):
    from py_gql._string_utils import snakecase_to_camelcase
    from py_gql.schema import InputObjectType, InterfaceType, ObjectType
    names = set()
    for n, t in schema.types.items():
        if n.startswith("__"):
            continue
        if isinstance(t, (ObjectType, InterfaceType)):
            for f in t.fields:
                names.add(f.name)
                names.update(a.name for a in f.arguments)
        if isinstance(t, InputObjectType):
            names.update(f.name for f in t.fields)
    for d in schema.directives.values():
        names.update(a.name for a in d.arguments)
    out = []
    for n in sorted(names):
        try:
            out.append([n, snakecase_to_camelcase(n)])
        except Exception:  # noqa  (the transform itself will raise on this name; reported as a step failure)
            out.append([n, n])
    return out


def make_visitor(v, funcs):
    from py_gql.schema import Field, SchemaVisitor
    from py_gql.schema.transforms import CamelCaseSchemaTransform, VisibilitySchemaTransform
    if v["k"] == "camel":
        return CamelCaseSchemaTransform()
    if v["k"] == "visibility":
        types, dirs = set(v["types"]), set(v["dirs"])
        fields, inputs = {tuple(x) for x in v["fields"]}, {tuple(x) for x in v["inputs"]}

        class Vis(VisibilitySchemaTransform):
            def is_type_visible(self, name):
                return name not in types

            def is_directive_visible(self, name):
                return name not in dirs

            def is_field_visible(self, t, f):
                return (t, f) not in fields

            def is_input_field_visible(self, t, f):
                return (t, f) not in inputs
        return Vis()
    if v["k"] == "sdir":
        drop, wrap = {tuple(x) for x in v["drop"]}, {tuple(x) for x in v["wrap"]}
        v.setdefault("wrap_ids", {})

        class SDir(SchemaVisitor):
            """What a SchemaDirective implementation typically does: drop a field / rebuild it with a wrapped resolver."""

            def on_object(self, t):
                self._t = t.name
                return super().on_object(t)

            def on_interface(self, t):
                self._t = t.name
                return super().on_interface(t)

            def on_field(self, f):
                key = (self._t, f.name)
                if key in drop:
                    return None
                if key in wrap:
                    inner = f.resolver
                    fn = funcs.make(lambda *a, **kw: (inner or W.universal_resolver)(*a, **kw))
                    v["wrap_ids"]["%s.%s" % key] = fn._vid
                    f = Field(f.name, f.type, args=f.arguments, description=f.description,
                              deprecation_reason=f.deprecation_reason, resolver=fn,
                              subscription_resolver=f.subscription_resolver, node=f.node, python_name=f.python_name)
                return super().on_field(f)
        return SDir()
    raise ValueError(v["k"])


def make_wrap_directive(wd, funcs):
    """The implementation of `@c14wrap`: what a resolver-wrapping SchemaDirective does (`definition` by name: the directive is
    defined in the schema / the extension document)."""
    from py_gql.schema import Field
    from py_gql.sdl import SchemaDirective

    class Wrap(SchemaDirective):
        definition = WRAPDIR

        def on_field(self, f):
            inner = f.resolver
            fn = funcs.make(lambda *a, **kw: (inner or W.universal_resolver)(*a, **kw))
            wd["wrap_ids"].setdefault(f.name, []).append(fn._vid)
            return Field(f.name, f.type, args=f.arguments, description=f.description, deprecation_reason=f.deprecation_reason,
                         resolver=fn, subscription_resolver=f.subscription_resolver, node=f.node, python_name=f.python_name)
    return Wrap


def apply_step(step, schemas, funcs):
    """Run one step on the live schemas. Returns (result schema | None, 'ok' | 'rejected:<Class>' | 'internal:<Class>')."""
    from py_gql.exc import ExtensionError, SchemaError, SchemaValidationError, SDLError
    from py_gql.schema import InterfaceType, ObjectType
    from py_gql.schema.transforms import transform_schema
    from py_gql.sdl import extend_schema
    src = schemas[step["src"]]
    for v in step.get("visitors", []):
        for t, f in v.get("inputs", []) if v["k"] == "visibility" else []:
            ty = src.types.get(t)
            fo = next((x for x in getattr(ty, "fields", []) if x.name == f), None) if ty is not None else None
            if fo is not None:
                step.setdefault("hidden_input_py", {})["%s.%s" % (t, f)] = fo.python_name
    try:
        if step["op"] == "clone":
            return src.clone(), "ok"
        if step["op"] == "transform":
            for v in step["visitors"]:
                if v["k"] == "camel":
                    v["table"] = camel_table(src)
            return transform_schema(src, *[make_visitor(v, funcs) for v in step["visitors"]]), "ok"
        if step["op"] == "inplace":
            # ONE schema object: use it (derived caches get filled), transform it IN PLACE, use it again (done by the caller)
            c = src.clone()
            cur = c
            for v in step["visitors"]:
                W.use_schema(cur)
                if v["k"] == "camel":
                    v["table"] = camel_table(cur)
                cur = make_visitor(v, funcs).on_schema(cur)
                if cur is not c:
                    return None, "internal:NotInPlace"
                # an invalid intermediate schema (e.g. the query type hidden) is a rejected step; validate_schema is called
                # directly: an in-place visitor that replaces no type leaves the cached `_is_valid` of the schema untouched
                from py_gql.schema.validation import validate_schema
                validate_schema(c)
            return c, "ok"
        if step["op"] == "extend":
            step["sdl"] = ext_sdl(step["ext"], src)
            wd = step["ext"].get("wrapdir")
            if wd is None:
                return extend_schema(src, step["sdl"]), "ok"
            # fields of the schema being extended whose parse node carries the directive: it was applied when they were added
            step["already_wrapped"] = sorted(
                "%s.%s" % (n, f.name) for n, t in src.types.items() if isinstance(t, (ObjectType, InterfaceType)) and not n.startswith("__")
                for f in t.fields if f.node is not None and any(d.name.value == WRAPDIR for d in f.node.directives))
            wd["wrap_ids"] = {}
            return extend_schema(src, step["sdl"], schema_directives=[make_wrap_directive(wd, funcs)]), "ok"
        if step["op"] == "replace":
            c = src.clone()
            d = {}
            for name, mode in step["entries"]:
                if name not in c.types:
                    continue
                d[name] = copy.copy(c.types[name]) if mode == "copy" else (c.types[name] if mode == "same" else None)
            step["entries"] = [[n, m] for n, m in step["entries"] if n in d]
            c._replace_types_and_directives(d)
            return c, "ok"
    except (SchemaValidationError, ExtensionError, SDLError) as e:
        return None, "rejected:" + type(e).__name__
    except Exception as e:  # noqa
        # (a plain SchemaError is NOT a verdict on the requested schema: it is what the registries / the replacement
        #  machinery raise when a derivation cannot be carried out)
        step["raised"] = ("%s: %s" % (type(e).__name__, e))[:300]
        return None, "internal:" + type(e).__name__ + _slug(e)
    raise ValueError(step["op"])


_SLUGS = [(r"different kind of type", "different-kind-of-type"), (r"already has a (resolver|subscription)", "already-has-a-resolver"),
          (r"unknown field", "registry-names-unknown-field"), (r"Cannot assign (resolver|subscription) to", "registry-names-non-object-type")]


def _slug(e):
    msg = str(e)
    for pat, slug in _SLUGS:
        if re.search(pat, msg):
            return ":" + slug
    return ""


# ---------------------------------------------------------------------------
# the direct oracle
# ---------------------------------------------------------------------------

def _by_name(world, si):
    """{type name: type obj}, objs of schema number si in a canon() world."""
    return {n: world["objs"][a] for n, a in world["schemas"][si]["types"]}


def _ty_str(t):
    return t["n"] if t["k"] == "named" else ("[%s]" % _ty_str(t["t"]) if t["k"] == "list" else _ty_str(t["t"]) + "!")


def _ty_base(t):
    while t["k"] != "named":
        t = t["t"]
    return t["n"]


def _reachable(world, si):
    """names of the types reachable from the root operation types of schema si (what `_build_type_map` finds)."""
    objs = world["objs"]
    sc = world["schemas"][si]
    seen = set()
    todo = [r[1] for r in (sc["query"], sc["mutation"], sc["subscription"]) if r is not None]
    names = set()
    while todo:
        a = todo.pop()
        if a in seen:
            continue
        seen.add(a)
        o = objs[a]
        if o["o"] == "type":
            names.add(o["name"])
            todo += [b for _, b in o["ifaces"]] + [b for _, b in o["members"]] + list(o["fields"])
        elif o["o"] == "field":
            todo += list(o["args"])
            t = o["ty"]
            while t["k"] != "named":
                t = t["t"]
            todo.append(t["a"])
        elif o["o"] == "arg":
            t = o["ty"]
            while t["k"] != "named":
                t = t["t"]
            todo.append(t["a"])
    return names


def expected_effect(step):
    """(hidden types, hidden fields, hidden inputs, hidden dirs, rename fn, wrapped, dropped) of a step."""
    hid_t, hid_f, hid_i, hid_d, wrapped, dropped = set(), set(), set(), set(), {}, set()
    table = None
    for v in step.get("visitors", []):
        if v["k"] == "visibility":
            hid_t |= set(v["types"])
            hid_f |= {tuple(x) for x in v["fields"]}
            hid_i |= {tuple(x) for x in v["inputs"]}
            hid_d |= set(v["dirs"])
        elif v["k"] == "camel":
            table = dict(v.get("table", []))
        elif v["k"] == "sdir":
            dropped |= {tuple(x) for x in v["drop"]}
            wrapped.update(v.get("wrap_ids", {}))
    if step["op"] == "replace":
        hid_t |= {n for n, m in step["entries"] if m == "delete"}
    # specified scalars and introspection types are never hidden, whatever the predicate says (`_is_type_visible`)
    hid_t -= set(W.SCALARS) | set(INTROSPECTION_NAMES)
    return hid_t, hid_f, hid_i, hid_d, (lambda n: table.get(n, n)) if table else (lambda n: n), wrapped, dropped


def check_result(step, src_world, world, ri, fail):
    """Intactness + preserved attributes + hidden elements gone, comparing canon dumps of source (0) and result (ri)."""
    op = step["op"]
    so, ro = world["objs"], world["objs"]
    S, R = _by_name(world, 0), _by_name(world, ri)
    hid_t, hid_f, hid_i, hid_d, ren, wrapped, dropped = expected_effect(step)
    sdirs = {n: so[a] for n, a in world["schemas"][0]["dirs"]}
    rdirs = {n: ro[a] for n, a in world["schemas"][ri]["dirs"]}
    # --- hidden things are gone
    for n in hid_t:
        if n in R:
            fail("hidden-reachable:type:registry", "hidden type %s is still registered" % n)

    def arg_expected(a):
        return _ty_base(a["ty"]) not in hid_t

    def cmp_arg(where, kind, a, b):
        for k in ("py", "dflt", "desc"):
            if a[k] != b[k]:
                fail("preserved:%s:%s:%s" % (op, kind, k), "%s: %s %r -> %r" % (where, k, a[k], b[k]))
        if _ty_str(a["ty"]) != _ty_str(b["ty"]):
            fail("preserved:%s:%s:type" % (op, kind), "%s: type %s -> %s" % (where, _ty_str(a["ty"]), _ty_str(b["ty"])))

    def cmp_args(where, kind, sargs, rargs):
        exp = [a for a in sargs if arg_expected(a)]
        got = {a["name"]: a for a in rargs}
        if [ren(a["name"]) for a in exp] != [a["name"] for a in rargs if a["name"] in {ren(x["name"]) for x in sargs}]:
            missing = [a["name"] for a in exp if ren(a["name"]) not in got]
            extra = [a["name"] for a in sargs if not arg_expected(a) and ren(a["name"]) in got]
            if missing:
                fail("intact:%s-dropped:%s" % (kind, op), "%s: %s %s lost" % (where, kind, missing))
            if extra:
                fail("hidden-reachable:%s" % kind, "%s: %s %s of a hidden type survived" % (where, kind, extra))
        for a in exp:
            if ren(a["name"]) in got:
                cmp_arg("%s(%s)" % (where, a["name"]), kind, a, got[ren(a["name"])])

    for n, t in S.items():
        if t["prot"]:
            continue
        if n in hid_t:
            continue
        if n not in R:
            reach = _reachable(world, 0)
            if n in reach:
                why = "reachable"
            elif t["kind"] == "object" and any(i in reach for i, _ in t["ifaces"]):
                why = "implementer-only"
            else:
                why = "unreachable"
            fail("intact:type-dropped:%s:%s" % (op, why), "type %s (%s) of the source is missing from the result" % (n, t["kind"]))
            continue
        r = R[n]
        if r["kind"] != t["kind"]:
            fail("preserved:%s:type:kind" % op, "%s: kind %s -> %s" % (n, t["kind"], r["kind"]))
            continue
        for k in ("desc", "dres", "rtype"):
            if t[k] != r[k]:
                fail("preserved:%s:%s:%s" % (op, t["kind"], k), "type %s: %s %r -> %r" % (n, k, t[k], r[k]))
        if t["kind"] == "enum" and r["values"][:len(t["values"])] != t["values"]:
            fail("preserved:%s:enum:values" % op, "enum %s: values changed" % n)
        exp_if = [i for i, _ in t["ifaces"] if i not in hid_t]
        if [i for i, _ in r["ifaces"]][:len(exp_if)] != exp_if:
            fail("preserved:%s:object:interfaces" % op, "type %s: interfaces %s -> %s" % (n, t["ifaces"], r["ifaces"]))
        exp_m = [m for m, _ in t["members"] if m not in hid_t]
        if [m for m, _ in r["members"]][:len(exp_m)] != exp_m:
            fail("preserved:%s:union:members" % op, "union %s: members %s -> %s" % (n, t["members"], r["members"]))
        if t["kind"] in ("object", "interface"):
            sf = [so[f] for f in t["fields"]]
            rf = {ro[f]["name"]: ro[f] for f in r["fields"]}
            for f in sf:
                hidden = (n, f["name"]) in hid_f or (n, f["name"]) in dropped or _ty_base(f["ty"]) in hid_t
                g = rf.get(ren(f["name"]))
                if hidden:
                    if g is not None and ren(f["name"]) not in {ren(x["name"]) for x in sf if x is not f}:
                        fail("hidden-reachable:field", "%s.%s should be hidden but is in the result" % (n, f["name"]))
                    continue
                if g is None:
                    fail("intact:field-dropped:%s" % op, "%s.%s lost" % (n, f["name"]))
                    continue
                where = "%s.%s" % (n, f["name"])
                for k in ("desc", "depr", "res", "sub", "py"):
                    exp = f[k]
                    if k == "res" and where in wrapped:
                        exp = wrapped[where]
                    if exp != g[k]:
                        if k == "res" and op == "extend" and where in step.get("already_wrapped", []):
                            fail("preserved:extend:field:schema-directive-applied-again",
                                 "%s carries @%s, applied when the field was added; extend_schema(…, schema_directives=…) with an "
                                 "extension that does not mention it applied the directive AGAIN: resolver #%s -> #%s" % (where, WRAPDIR, exp, g[k]))
                        else:
                            fail("preserved:%s:field:%s" % (op, k), "%s: %s %r -> %r" % (where, k, exp, g[k]))
                if _ty_str(f["ty"]) != _ty_str(g["ty"]):
                    fail("preserved:%s:field:type" % op, "%s: type %s -> %s" % (where, _ty_str(f["ty"]), _ty_str(g["ty"])))
                cmp_args(where, "argument", [so[a] for a in f["args"]], [ro[a] for a in g["args"]])
        if t["kind"] == "input":
            sargs = [so[a] for a in t["fields"]]
            rargs = [ro[a] for a in r["fields"]]
            vis = [a for a in sargs if (n, a["name"]) not in hid_i]
            for a in sargs:
                if (n, a["name"]) in hid_i and ren(a["name"]) in {x["name"] for x in rargs}:
                    fail("hidden-reachable:input-field", "%s.%s should be hidden" % (n, a["name"]))
            cmp_args(n, "input-field", vis, [x for x in rargs if x["name"] in {ren(a["name"]) for a in vis}])
    for n, d in sdirs.items():
        if n in hid_d:
            if n in rdirs:
                fail("hidden-reachable:directive", "directive @%s should be hidden" % n)
            continue
        if n not in rdirs:
            fail("intact:directive-dropped:%s" % op, "directive @%s lost" % n)
            continue
        r = rdirs[n]
        if d["desc"] != r["desc"] or d["locs"] != r["locs"]:
            fail("preserved:%s:directive:desc" % op, "directive @%s changed" % n)
        cmp_args("@" + n, "directive-argument", [so[a] for a in d["args"]], [ro[a] for a in r["args"]])
    if world["schemas"][0]["dres"] != world["schemas"][ri]["dres"]:
        fail("preserved:%s:schema:default_resolver" % op, "schema-level default_resolver %r -> %r"
             % (world["schemas"][0]["dres"], world["schemas"][ri]["dres"]))


def check_hidden_live(step, result, fail, intro=None):
    """Hidden elements cannot be reached through the REAL introspection query nor a REAL query."""
    hid_t, hid_f, hid_i, hid_d, ren, wrapped, dropped = expected_effect(step)
    if not (hid_t or hid_f or hid_i or hid_d or dropped):
        return
    types, dirs = intro if intro is not None else W.introspect(result)
    if types is None:
        fail("result-unusable:introspection", "introspection query on the result reports errors")
        return
    for n in hid_t:
        if n in types:
            fail("hidden-reachable:type:introspection", "hidden type %s visible through introspection" % n)
    blob = json.dumps(types)
    for (t, f) in sorted(hid_f | dropped):
        if t in types and ren(f) in types[t]["fields"] and not any(x != f and ren(x) == ren(f) for x in types[t]["fields"]):
            fail("hidden-reachable:field:introspection", "hidden field %s.%s visible through introspection" % (t, f))
    for (t, f) in sorted(hid_i):
        if t in types and ren(f) in types[t]["inputFields"]:
            fail("hidden-reachable:input-field:introspection", "hidden input field %s.%s visible" % (t, f))
    for d in hid_d:
        if d in dirs:
            fail("hidden-reachable:directive:introspection", "hidden directive @%s visible" % d)
    # no default value hands a hidden input field to resolvers
    for (t, f) in sorted(hid_i):
        py = (step.get("hidden_input_py") or {}).get("%s.%s" % (t, f))
        for w, el, b in _defaulted_members(result):
            if py is not None and b.name == t and isinstance(el.default_value, dict) and py in el.default_value:
                fail("hidden-reachable:input-field:default",
                     "input field %s.%s is hidden, yet the default value of %s still carries it (%r)" % (t, f, w, py))
    # a real query selecting a hidden root field must be refused
    q = result.query_type
    for (t, f) in sorted(hid_f | dropped):
        if q is not None and t == q.name:
            out = W.run_query(result, "{ %s }" % ren(f))
            if isinstance(out, dict) and out.get("data") is not None and not out["errors"]:
                fail("hidden-reachable:field:query", "hidden root field %s answered by a real query" % f)


def check_possible_live(step, result, fail, intro=None):
    """`possibleTypes` reported by the REAL introspection query = the registered members / implementers."""
    from py_gql.schema import InterfaceType, UnionType
    types, _ = intro if intro is not None else W.introspect(result)
    if types is None:
        fail("result-unusable:introspection", "introspection query on the result reports errors")
        return
    for name, t in result.types.items():
        if name.startswith("__") or not isinstance(t, (InterfaceType, UnionType)):
            continue
        exp = sorted(o.name for o in W.expected_possible(result, t))
        got = (types.get(name) or {}).get("possibleTypes")
        if got != exp:
            extra = [n for n in (got or []) if n not in exp]
            kind = "lists-removed-type" if any(n not in result.types for n in extra) else ("extra" if extra else "missing")
            fail("closed:%s:possibleTypes-introspection:%s" % (step["op"], kind),
                 "introspection reports possibleTypes of %s = %s, the registry says %s" % (name, got, exp))


_SOURCE_RANK = [("frame:", 0), ("source-unusable:", 1)]
_RESULT_RANK = [("step-raises:", 0), ("closed:", 1), ("intact:", 2), ("preserved:", 3), ("hidden-reachable:", 4), ("result-", 5)]


def first_category(found):
    """Consequences of an earlier failure are not reported: per group (source / result) keep the first failing category."""
    out = []
    for table in (_SOURCE_RANK, _RESULT_RANK):
        ranked = [(r, sig, what) for sig, what in found for pre, r in table if sig.startswith(pre)]
        if ranked:
            m = min(r for r, _, _ in ranked)
            out += [(sig, what) for r, sig, what in ranked if r == m]
    known = {sig for sig, _ in out}
    out += [(sig, what) for sig, what in found if sig not in known and not any(sig.startswith(pre) for pre, _ in _SOURCE_RANK + _RESULT_RANK)]
    return out


def _step_label(step):
    return step["op"] + ("/" + "+".join(v["k"] for v in step["visitors"]) if step["op"] in ("transform", "inplace") else "")


def _to_string(schema):
    try:
        return schema.to_string()
    except Exception as e:  # noqa
        return "exc:" + type(e).__name__


def check_leaf_behaviour(step, src, res, fail):
    """A custom scalar / enum the step did not remove is an object of the same Python class and serializes / parses alike."""
    from py_gql.schema import EnumType, InputObjectType, InterfaceType, ObjectType, ScalarType
    for name, t in src.types.items():
        r = res.types.get(name)
        if name.startswith("__") or r is None:
            continue
        if isinstance(t, (ObjectType, InterfaceType, InputObjectType)):
            # (an instance of an application-defined subclass rebuilt by a VISITOR keeps its class, T16; extend_schema still
            #  rebuilds composite types as plain ones: not checked for extend)
            if step["op"] != "extend" and type(t) not in (ObjectType, InterfaceType, InputObjectType) and type(r) is not type(t):
                fail("preserved:%s:composite:class" % step["op"], "type %s was an instance of %s, the result registers an instance of %s"
                     % (name, type(t).__name__, type(r).__name__))
            continue
        if not isinstance(t, (ScalarType, EnumType)):
            continue
        kind = "scalar" if isinstance(t, ScalarType) else "enum"
        if type(r) is not type(t):
            fail("preserved:%s:%s:class" % (step["op"], kind), "%s %s was an instance of %s, the result registers an instance of %s"
                 % (kind, name, type(t).__name__, type(r).__name__))
        elif kind == "scalar" and name not in W.SCALARS:
            try:
                a, b = (t.serialize("v"), t.parse("v")), (r.serialize("v"), r.parse("v"))
            except Exception:  # noqa
                continue
            if a != b:
                fail("preserved:%s:scalar:behaviour" % step["op"], "scalar %s serializes / parses 'v' as %r, in the result as %r" % (name, a, b))


def track_registered(step, tracked_src, res, fail):
    """The resolvers REGISTERED on the source (through `register_resolver` / `register_subscription`) followed through the
    chain of derivations: {(type, current field name): (id, attribute)}. A field that is still there must still CARRY the
    resolver registered for it (under its new name after a camel-case transform) unless this very step wrapped it."""
    from py_gql.schema import ObjectType
    hid_t, hid_f, hid_i, hid_d, ren, wrapped, dropped = expected_effect(step)
    out = {}
    for (t, f), (vid, attr) in tracked_src.items():
        ty = res.types.get(t)
        if not isinstance(ty, ObjectType) or (t, f) in hid_f or (t, f) in dropped:
            continue
        if "%s.%s" % (t, f) in wrapped and attr == "resolver":
            continue       # (a wrapper now: no longer followed)
        f2 = ren(f)
        names = [x.name for x in ty.fields]
        if f2 not in names or names.count(f2) != 1:
            continue
        got = W._fid(getattr(ty.field_map[f2], attr))
        if got != vid:
            fail("preserved:%s:registered-%s-lost" % (step["op"], attr.replace("_", "-")),
                 "%s.%s carried the %s registered through the schema's registry (#%s); after the step %s.%s carries #%s"
                 % (t, f, attr, vid, t, f2, got))
            continue
        out[(t, f2)] = (vid, attr)
    return out


def directive_cases(ctx, source, funcs, rng, fail, sdl=None):
    """Two uses of schema directives / visitors checked by the direct oracle only (no model step):
    (1) a SchemaDirective whose `definition` is given INLINE and whose arguments use types the schema does not know;
    (2) a visitor that removes an enum value some default value names."""
    from py_gql.exc import SchemaError, SDLError
    from py_gql.schema import (Argument, Directive, EnumType, InputField, InputObjectType, InterfaceType, ObjectType,
                               SchemaVisitor)
    from py_gql.schema.transforms import transform_schema
    from py_gql.sdl import SchemaDirective
    from py_gql.sdl.schema_directives import apply_schema_directives
    lvl = EnumType("C14Level", ["LOW", "HIGH"])
    opts = InputObjectType("C14Opts", [InputField("level", lvl)])

    class Inline(SchemaDirective):
        definition = Directive("c14inline", ["FIELD_DEFINITION"],
                               [Argument("level", lvl, default_value="LOW")] + ([Argument("opts", opts)] if rng.random() < 0.5 else []))
    try:
        r = apply_schema_directives(source.clone(), [Inline])
        r.validate()
    except (SchemaError, SDLError) as e:
        r = None
        fail("step-raises:schema-directive-inline-definition:%s" % type(e).__name__,
             "apply_schema_directives with an inline directive definition raised %s: %s" % (type(e).__name__, e))
    if r is not None:
        ctx.count()
        ctx.stat("directive-case:inline-definition")
        bad = [b for b in W.closed_violations(r) if "directive argument" in b or "C14" in b]
        if bad:
            fail("closed:schema-directive-inline-definition:unregistered",
                 "after applying a schema directive whose definition is given inline the schema is not closed: %s" % bad[0])
        else:
            types, dirs = W.introspect(r)
            if types is None or "C14Level" not in types or "c14inline" not in (dirs or []):
                fail("closed:schema-directive-inline-definition:introspection",
                     "introspection does not list the directive given inline / the type of its argument")
    # (1b) two-phase build from ONE document: the base's directives are not applied again by the extension phase
    from py_gql import build_schema
    from py_gql.lang import parse
    from py_gql.schema import Field, ScalarType
    from py_gql.sdl import extend_schema
    q = source.query_type.name
    applied = {}

    class Wrap(SchemaDirective):
        definition = WRAPDIR

        def on_field(self, f):
            applied[f.name] = applied.get(f.name, 0) + 1
            inner = f.resolver
            return Field(f.name, f.type, args=f.arguments, description=f.description, deprecation_reason=f.deprecation_reason,
                         resolver=funcs.make(lambda *a, **kw: (inner or W.universal_resolver)(*a, **kw)),
                         subscription_resolver=f.subscription_resolver, node=f.node, python_name=f.python_name)
    if sdl and WRAPDIR not in source.directives:
        try:
            doc = parse(sdl + "\ndirective @%s on FIELD_DEFINITION\ntype C14Holder { h: Int @%s }\nextend type %s { c14_w: Int @%s }\n"
                        % (WRAPDIR, WRAPDIR, q, WRAPDIR), allow_type_system=True)
            base = build_schema(doc, ignore_extensions=True, schema_directives=[Wrap])
            extend_schema(base, doc, strict=False, schema_directives=[Wrap])
            ctx.count()
            ctx.stat("directive-case:two-phase-build-from-one-document")
            if applied.get("h", 0) != 1:
                fail("preserved:extend:field:schema-directive-applied-again:same-document",
                     "build_schema(doc, ignore_extensions=True, schema_directives=…) then extend_schema(base, doc, strict=False, "
                     "schema_directives=…): the directive on the base field C14Holder.h was applied %d times" % applied.get("h", 0))
        except (SchemaError, SDLError) as e:
            ctx.notes.append("two-phase build case: %s" % e)
    # (1c) a schema directive that gives an argument a NEW type (the library's own test pattern)
    class NewType(SchemaDirective):
        definition = "c14len"

        def on_argument(self, arg):
            arg.type = ScalarType("C14Limited", serialize=str, parse=str)
            return arg
    if sdl:
        try:
            r = build_schema(sdl + "\ndirective @c14len on ARGUMENT_DEFINITION\ntype C14Holder2 { h(x: String @c14len): Int }\n"
                             "extend type %s { c14_holder2: C14Holder2 }\n" % q, schema_directives=[NewType])
            ctx.count()
            ctx.stat("directive-case:directive-gives-an-argument-a-new-type")
            bad = [b for b in W.closed_violations(r) if "C14Limited" in b]
            h = r.types.get("C14Holder2")
            if bad or h is None or not h.field_map["h"].arguments:
                fail("closed:schema-directive-new-argument-type:unregistered",
                     "a schema directive gave C14Holder2.h(x:) the new type C14Limited: %s"
                     % (bad[0] if bad else "the argument was silently dropped by a healing pass"))
        except (SchemaError, SDLError) as e:
            ctx.notes.append("new-argument-type case: %s" % e)
    # (2)
    cands = []
    for n, t in source.types.items():
        if n.startswith("__"):
            continue
        members = []
        if isinstance(t, (ObjectType, InterfaceType)):
            members = [(n, f.name, a) for f in t.fields for a in f.arguments]
        elif isinstance(t, InputObjectType):
            members = [(n, None, f) for f in t.fields]
        for tn, fn_, a in members:
            from py_gql.schema import unwrap_type
            b = unwrap_type(a.type)
            if isinstance(b, EnumType) and a.has_default_value and isinstance(a.default_value, str) and len(b.values) > 1:
                cands.append((b.name, a.default_value))
    if not cands:
        # (no default mentions an enum value: still remove one value of a subclassed enum, if the source has one)
        cands = [(n, t.values[-1].name) for n, t in source.types.items() if isinstance(t, EnumType) and type(t) is not EnumType
                 and not n.startswith("__") and len(t.values) > 1]
    if not cands:
        return
    sub = [c for c in sorted(set(cands)) if type(source.types[c[0]]) is not EnumType]
    en, val = rng.choice(sub if sub else sorted(set(cands)))

    class DropValue(SchemaVisitor):
        def on_enum(self, e):
            self._e = e.name
            return super().on_enum(e)

        def on_enum_value(self, v):
            return None if (self._e == en and v.name == val) else v
    try:
        r = transform_schema(source, DropValue())
    except Exception:  # noqa  (refusing the removal is one acceptable policy)
        ctx.stat("directive-case:enum-value-removal:refused")
        return
    ctx.count()
    ctx.stat("directive-case:enum-value-removal")
    if r.types.get(en) is not None and type(r.types[en]) is not type(source.types[en]):
        fail("preserved:transform:enum:class", "enum %s was an instance of %s; a visitor removed ONE value and the result registers an instance of %s"
             % (en, type(source.types[en]).__name__, type(r.types[en]).__name__))
    e = r.types.get(en)
    if e is None or any(v.name == val for v in e.values):
        return
    from py_gql import graphql_blocking
    from py_gql.utilities import introspection_query
    try:
        out = graphql_blocking(r, introspection_query()).response()
        errs = out.get("errors")
    except Exception as x:  # noqa
        errs = "%s: %s" % (type(x).__name__, x)
    if errs:
        fail("hidden-reachable:enum-value:default:introspection",
             "enum value %s.%s was removed by a visitor but a default value still names it: the introspection query fails with %s"
             % (en, val, str(errs)[:200]))


def _defaulted_members(schema):
    """[(where, element, base type)] for every argument / input field of the schema that has a default value."""
    from py_gql.schema import InputObjectType, InterfaceType, ObjectType, unwrap_type
    out = []
    for n, t in schema.types.items():
        if n.startswith("__"):
            continue
        if isinstance(t, (ObjectType, InterfaceType)):
            out += [("%s.%s(%s:)" % (n, f.name, a.name), a, unwrap_type(a.type)) for f in t.fields for a in f.arguments if a.has_default_value]
        elif isinstance(t, InputObjectType):
            out += [("%s.%s" % (n, f.name), f, unwrap_type(f.type)) for f in t.fields if f.has_default_value]
    return out


def default_cases(ctx, source, sdl, rng, fail):
    """Default values and the types they are values OF (direct oracle only, no model step):
    (1) an extension whose new default uses a member (enum value / input field) the same extension adds must be accepted;
    (2) after `extend input In { c14_b: Int = 5 }` an existing default written `{…}` of type In is the value of that literal in
        the EXTENDED In (it has c14_b = 5), as it is for a schema built from the merged document;
    (3) the same through build_schema: a default of the base document using a member added by an `extend` of that document;
    (4) a visibility transform hiding an input field: no default value hands the hidden field to resolvers."""
    from py_gql import build_schema
    from py_gql.exc import SDLError
    from py_gql.schema import EnumType, InputObjectType, NonNullType
    from py_gql.schema.transforms import VisibilitySchemaTransform, transform_schema
    from py_gql.sdl import extend_schema
    q = source.query_type.name
    enums = sorted(n for n, t in source.types.items() if isinstance(t, EnumType) and not n.startswith("__"))
    inputs = sorted(n for n, t in source.types.items() if isinstance(t, InputObjectType))
    if enums:
        e = rng.choice(enums)
        doc = "extend enum %s { C14_NEW }\nextend type %s { c14_g(m: %s = C14_NEW): Int }" % (e, q, e)
        ctx.count()
        ctx.stat("default-case:extension-default-uses-added-enum-value")
        try:
            r = extend_schema(source, doc)
            got = r.types[q].field_map["c14_g"].arguments[0].default_value
            if got != "C14_NEW":
                fail("preserved:extend:default:added-member", "default C14_NEW of the new argument is %r" % (got,))
        except SDLError as x:
            fail("step-raises:extend:default-uses-member-added-by-the-extension",
                 "extend_schema refused %r: %s" % (doc, x))
        ctx.count()
        ctx.stat("default-case:build_schema-default-uses-extension-member")
        try:
            build_schema(sdl + "\nextend enum %s { C14_NEW }\ntype C14Holder { h(m: %s = C14_NEW): Int }\n" % (e, e))
        except SDLError as x:
            fail("step-raises:build_schema:default-uses-extension-member",
                 "build_schema refused a document whose default uses an enum value added by an `extend enum` of the same document: %s" % x)
    if inputs:
        used = sorted({b.name for _, el, b in _defaulted_members(source) if isinstance(b, InputObjectType) and isinstance(el.default_value, dict)})
        i = rng.choice(used if used and rng.random() < 0.8 else inputs)
        doc = "extend input %s { c14_b: Int = 5 }\nextend type %s { c14_h(m: %s = {c14_b: 1}): Int }" % (i, q, i)
        ctx.count()
        ctx.stat("default-case:extension-default-uses-added-input-field")
        try:
            r = extend_schema(source, doc)
        except SDLError as x:
            r = None
            # (a required field of the input type without default makes `{c14_b: 1}` invalid: not a defect)
            if not any(isinstance(f.type, NonNullType) and not f.has_default_value for f in source.types[i].fields):
                fail("step-raises:extend:default-uses-member-added-by-the-extension", "extend_schema refused %r: %s" % (doc, x))
        try:
            r = extend_schema(source, "extend input %s { c14_b: Int = 5 }" % i)
        except SDLError:
            r = None
        if r is not None:
            ctx.count()
            olds = [w for w, el, b in _defaulted_members(source) if b is source.types[i] and isinstance(el.default_value, dict)]
            if olds:
                ctx.stat("default-case:existing-default-of-the-extended-input-type")
            stale = [w for w, el, b in _defaulted_members(r)
                     if b is r.types[i] and isinstance(el.default_value, dict) and "c14_b" not in el.default_value]
            if stale:
                fail("preserved:extend:default:stale-after-input-extension",
                     "after `extend input %s { c14_b: Int = 5 }` the default of %s is still the value coerced against the old %s "
                     "(no c14_b): resolvers get a different value for the default than for the same literal" % (i, stale[0], i))
        # … also when the schema was camel-cased first (the SDL literal of the default no longer spells the field names)
        try:
            from py_gql.schema.transforms import CamelCaseSchemaTransform
            rc = extend_schema(transform_schema(source, CamelCaseSchemaTransform()), "extend input %s { c14_b: Int = 5 }" % i)
        except Exception:  # noqa
            rc = None
        if rc is not None:
            ctx.count()
            ctx.stat("default-case:extend-after-camel-case")
            stale = [w for w, el, b in _defaulted_members(rc)
                     if b is rc.types[i] and isinstance(el.default_value, dict) and "c14_b" not in el.default_value]
            if stale:
                fail("preserved:extend:default:stale-after-input-extension",
                     "camel-case then `extend input %s { c14_b: Int = 5 }`: the default of %s has no c14_b (extend after camel-case differs "
                     "from camel-case after extend)" % (i, stale[0]))
    # (4)
    cands = []
    for w, el, b in _defaulted_members(source):
        if isinstance(b, InputObjectType) and isinstance(el.default_value, dict):
            for f in b.fields:
                if f.python_name in el.default_value and len(b.fields) > 1:
                    cands.append((b.name, f.name, f.python_name))
    if cands:
        tn, fn_, py = rng.choice(sorted(set(cands)))

        class Hide(VisibilitySchemaTransform):
            def is_input_field_visible(self, t, f):
                return (t, f) != (tn, fn_)
        try:
            r = transform_schema(source, Hide())
        except Exception:  # noqa  (refusing is one acceptable policy)
            return
        ctx.count()
        ctx.stat("default-case:hidden-input-field-mentioned-by-a-default")
        left = [w for w, el, b in _defaulted_members(r) if b.name == tn and isinstance(el.default_value, dict) and py in el.default_value]
        if left:
            fail("hidden-reachable:input-field:default",
                 "input field %s.%s is hidden, yet the default value of %s still carries it (%r): `{ field }` hands it to the resolver"
                 % (tn, fn_, left[0], py))


def one_sequence(ctx, seed_note, size, n_steps, steps=None, build_seed=None):
    """Build one source, apply the steps (each starts from the source or from the RESULT of an earlier step), check
    everything after every step. Returns a replayable record."""
    import random
    seed = build_seed if build_seed is not None else ctx.rng.getrandbits(48)
    rng = random.Random(seed)
    funcs = W.Funcs()
    desc, sdl, source = W.build_source(rng, size, funcs)
    lazy = steps is None
    n_total = n_steps if lazy else len(steps)
    dumper = W.Dumper()
    base_raw = dumper.dump([source])
    base_world = W.canon(base_raw)
    base_q = W.use_schema(source)                   # the schema is in use: every derived cache is populated
    base_text = _to_string(source)
    ctx.stat("source:types=%d" % min(len(base_world["schemas"][0]["types"]), 30))
    ctx.stat("source:rare-names=%s" % desc.get("rare_names"))
    if desc.get("subclassed"):
        ctx.stat("source:type-objects-of-a-subclass")
    if desc.get("rare_names"):
        for n, _ in base_world["schemas"][0]["types"]:
            if n.startswith("_"):
                ctx.stat("source:type-name-with-one-leading-underscore")
                break
    base_registry = W.registry_digest(source)
    ctx.stat("source:registry-types=%d" % min(len(base_registry["resolvers"]) + len(base_registry["default_resolvers"]), 9))
    post_rng = random.Random(seed ^ 0x5EED)
    record = {"seed": seed, "size": size, "steps": [], "sdl": sdl}
    schemas = [source]
    labels = ["source"]
    chainable = []          # results a later step may start from
    tracked = [dict([((t, f), (v, "resolver")) for t, d in base_registry["resolvers"].items() for f, v in d.items()])]
    tracked_sub = [dict([((t, f), (v, "subscription_resolver")) for t, d in base_registry["subscriptions"].items() for f, v in d.items()])]
    failures = []
    model_steps = []
    for i in range(n_total):
        if ctx.out_of_time():
            break
        if lazy:
            src_i = rng.choice(chainable) if chainable and rng.random() < 0.4 else 0
            wrapped_ones = [k for k in chainable if WRAPDIR in schemas[k].directives]
            if wrapped_ones and rng.random() < 0.5:
                src_i = wrapped_ones[-1]
            step = gen_step(rng, schemas[src_i], i, src_i)
        else:
            step = copy.deepcopy(steps[i])
        if step["src"] >= len(schemas):
            step["src"] = 0
        si = step["src"]
        cur = schemas[si]
        ctx.count()
        if si == 0:
            cur_raw, cur_world, cur_registry, cur_q, cur_text = base_raw, base_world, base_registry, base_q, base_text
        else:
            # (the source itself is used once before the first step and after every step)
            cur_q = W.use_schema(cur)
            cur_raw = dumper.dump([cur])
            cur_world = W.canon(cur_raw)
            cur_registry = W.registry_digest(cur)
            cur_text = _to_string(cur)
            ctx.stat("chain:%s->%s" % (labels[si], _step_label(step)))
            if any(cur_registry["resolvers"].get(t, {}).get(f) is not None and
                   not (hasattr(cur.types.get(t), "field_map") and f in cur.types[t].field_map)
                   for t, d in cur_registry["resolvers"].items() for f in d):
                ctx.stat("chain:registry-of-the-derived-source-names-a-field-that-is-gone")
        res, status = apply_step(step, schemas, funcs)
        step["status"] = status
        record["steps"].append(step)
        model_steps.append(step)
        ctx.stat("step:%s:%s" % (_step_label(step), status.split(":")[0]))
        for v in step.get("visitors", []):
            if v.get("style"):
                ctx.stat("visibility-predicate:%s:%s" % (v["style"], status.split(":")[0]))
        if step["op"] == "extend":
            e = step["ext"]
            targets = list(e["fields"]) + list(e["input_fields"]) + list(e["members"]) + list(e["values"])
            if any(t in W.RARE_TYPE_NAMES for t in targets):
                ctx.stat("extend:block-on-a-type-with-a-rare-name:%s" % status.split(":")[0])
            if e.get("wrapdir") is not None:
                ctx.stat("extend:schema_directives:%d-new-fields-carry-it:%d-source-fields-carry-it:%s" % (
                    len(e["wrapdir"]["targets"]), min(len(step.get("already_wrapped", [])), 3), status.split(":")[0]))
            if any(t.get("implements") for t in e["new_types"]):
                ctx.stat("extend:new-type-implements-an-interface:%s" % status.split(":")[0])
            if any(t["name"].startswith("_") for t in e["new_types"]):
                ctx.stat("extend:new-names-with-a-leading-underscore:%s" % status.split(":")[0])
        found = []

        def fail(sig, what, found=found):
            if not any(s == sig for s, _ in found):
                found.append((sig, what))

        if status.startswith("rejected:") and step["op"] in ("clone", "transform", "inplace") and not any(
                [t for t in v.get("types", []) if t not in W.SCALARS and t not in INTROSPECTION_NAMES]
                or v.get("fields") or v.get("inputs") or v.get("dirs") or v.get("drop") for v in step.get("visitors", [])):
            fail("step-raises:%s:rejected-without-removal:%s" % (step["op"], "+".join(v["k"] for v in step.get("visitors", []))),
                 "%s that removes nothing was rejected with %s (the source validates)" % (step["op"], status))
        if status.startswith("internal:"):
            sig = "step-raises:%s:%s" % (step["op"], status.split(":", 1)[1])
            what = "%s%s raised %s" % (step["op"], "" if si == 0 else " of the result of step %d (%s)" % (si, labels[si]),
                                       step.get("raised", status))
            if any(v["k"] == "camel" for v in step.get("visitors", [])) and status == "internal:IndexError":
                bad_names = [n for n, _ in camel_table(cur) if n and not n.strip("_")]
                if bad_names:
                    sig = "step-raises:camel-case:underscore-only-name:IndexError"
                    what = "CamelCaseSchemaTransform raised IndexError: the schema has a field / argument named %r" % bad_names[0]
            fail(sig, what)
        # --- frame condition on the schema the step started from, and on the original source (identities included)
        after_raw = dumper.dump([cur])
        if after_raw != cur_raw:
            d = W.first_diff(cur_raw, after_raw)
            kind = "object-graph"
            m = re.search(r"\.objs\.(\d+)\.(\w+)", d or "")
            if m:
                o = cur_raw["objs"].get(int(m.group(1)), {})
                kind = "%s.%s" % (o.get("o", "?"), m.group(2))
            fail("frame:source-modified:%s:%s" % (step["op"], kind),
                 "the SOURCE schema's object graph changed during %s: %s" % (step["op"], d))
        if si != 0 and dumper.dump([source]) != base_raw:
            fail("frame:source-modified:%s:ancestor" % step["op"],
                 "the ORIGINAL schema's object graph changed during a %s of a schema derived from it: %s"
                 % (step["op"], W.first_diff(base_raw, dumper.dump([source]))))
        reg_now = W.registry_digest(cur)
        if reg_now != cur_registry:
            d = W.first_diff(cur_registry, reg_now) or ""
            fail("frame:source-registry-modified:%s:%s" % (step["op"], d.split(".")[1] if "." in d else "registry"),
                 "the SOURCE schema's resolver registries changed during %s: %s" % (step["op"], d))
        if si != 0 and W.registry_digest(source) != base_registry:
            fail("frame:source-registry-modified:%s:ancestor" % step["op"],
                 "the ORIGINAL schema's resolver registries changed during a %s of a schema derived from it" % step["op"])
        undo_post = None
        if res is not None and step["op"] != "replace":
            # the application goes on using the DERIVED schema: registrations on it must not reach the source
            try:
                done, undo_post = W.post_derivation_registrations(res, cur, funcs, post_rng)
                for x in done:
                    ctx.stat("post-registration:%s" % x.split("(")[1].rstrip(")"))
            except Exception as e:  # noqa
                fail("step-raises:post-registration:%s:%s" % (step["op"], type(e).__name__),
                     "register_resolver / register_subscription / register_default_resolver on the %s result raised %r" % (step["op"], e))
            reg_now = W.registry_digest(cur)
            if reg_now != cur_registry or W.registry_digest(source) != base_registry:
                d = W.first_diff(cur_registry, reg_now) or W.first_diff(base_registry, W.registry_digest(source)) or ""
                fail("frame:source-registry-modified:registration-on-%s-result:%s" % (step["op"], d.split(".")[1] if "." in d else "registry"),
                     "registering resolvers on the %s RESULT changed the SOURCE schema's registries: %s" % (step["op"], d))
            after_raw2 = dumper.dump([cur])
            if after_raw2 != cur_raw and after_raw == cur_raw:
                fail("frame:source-modified:registration-on-%s-result" % step["op"],
                     "registering resolvers on the %s RESULT changed the SOURCE schema's objects: %s" % (step["op"], W.first_diff(cur_raw, after_raw2)))
        bad = W.closed_violations(cur)
        if bad:
            fail("source-unusable:not-closed:%s" % step["op"], "source no longer closed: %s" % bad[0])
        qa = W.use_schema(cur) if si != 0 else W.run_query(cur, W.coverage_query(cur))
        if qa != cur_q:
            fail("source-unusable:query-differs:%s" % step["op"], "coverage query on the source answers differently after the step")
        if _to_string(cur) != cur_text:
            fail("source-unusable:print-differs:%s" % step["op"], "source prints differently after the step")
        if undo_post is not None:
            undo_post()         # the derived schema is put back as derived (the model knows nothing about these registrations)
        if res is not None:
            if step["op"] in ("clone", "extend"):
                # a derived schema shows the registry entries of its source that still name one of its fields
                exp = W.restrict_registry(cur_registry, res)
                got = W.registry_digest(res)
                if got != exp:
                    d = W.first_diff(exp, got) or ""
                    if step["op"] == "clone":
                        fail("preserved:clone:schema:resolver-registry", "a clone's resolver registries differ from its source's: %s" % d)
                    else:
                        fail("registry:extend:%s" % ("dropped" if (exp["resolvers"] or exp["subscriptions"]) and not (got["resolvers"] or got["subscriptions"])
                                                      else "differs"),
                             "the resolver registries of the schema extend_schema returned differ from its source's "
                             "(get_resolver / get_subscription answer differently): %s" % d)
            schemas.append(res)
            labels.append(_step_label(step))
            if step["op"] != "replace":
                chainable.append(len(schemas) - 1)
            def closed_check(when):
                bad = W.closed_violations(res)
                if bad:
                    kind = "stale-object" if "stale" in bad[0] else ("unregistered" if "unregistered" in bad[0] else
                                                                      ("incomplete" if "incomplete" in bad[0] else "index"))
                    where = re.split(r"[\[(]", bad[0].split(" ")[0])[0]
                    fail("closed:%s:%s:%s" % (step["op"], kind, where), "result not closed (%s): %s" % (when, bad[0]))
            closed_check("right after the step")
            world = W.canon(dumper.dump([cur, res]))
            check_result(step, cur_world, world, 1, fail)
            if step["op"] == "clone":
                # REFINEMENT (Props/C14_refine.lean `clone_refines`): a clone has exactly the by-name dump of its source
                b0, b1 = W.byname(world, 0), W.byname(world, 1)
                if b0 != b1:
                    fail("result-differs:by-name-dump:clone", "dump(clone(s)) != dump(s) by name: %s" % W.first_diff(b0, b1))
            check_leaf_behaviour(step, cur, res, fail)
            tracked.append(track_registered(step, tracked[si], res, fail))
            tracked_sub.append(track_registered(step, tracked_sub[si], res, fail))
            if step["op"] != "replace":
                intro = W.introspect(res)
                check_hidden_live(step, res, fail, intro)
                check_possible_live(step, res, fail, intro)
            del funcs.calls[:]
            rq = W.use_schema(res) if step["op"] != "replace" else {}
            # execution on the result uses the registered resolver — under the field's new name
            for vid, tn, fname in funcs.calls:
                want = tracked[-1].get((tn, fname))
                if want is not None and want[0] != vid:
                    fail("result-differs:execution:registered-resolver-not-used:%s" % step["op"],
                         "executing %s.%s on the result called resolver #%s, the one registered for it is #%s" % (tn, fname, vid, want[0]))
            if si != 0 and tracked[-1]:
                ctx.stat("chain:registered-resolver-followed-through-two-derivations")
            closed_check("after using the result")
            if not isinstance(rq, dict):
                msg = W.LAST_EXC[0]
                if rq == "exc:RuntimeError" and "is not a possible type" in msg:
                    fail("result-unusable:runtime-type-object-of-another-schema:%s" % step["op"],
                         "a real query on the result raised %s (a type resolver of the source returns the ObjectType object, "
                         "which is not the object the derived schema registers under that name)" % msg[:200])
                else:
                    fail("result-unusable:query:%s" % step["op"], "coverage query on the result raised %s" % (msg[:200] or rq))
            elif [m for m in rq.get("errors", []) if not m.endswith("is not nullable")] and isinstance(cur_q, dict) and not cur_q.get("errors"):
                # ("is not nullable" = the harness' resolver has no possible object left for an abstract type: not a defect)
                fail("result-unusable:query-errors:%s" % step["op"], "coverage query (fragments on every possible type) on the result reports %s"
                     % [m for m in rq["errors"] if not m.endswith("is not nullable")][:2])
            elif step["op"] in ("clone",) and rq != cur_q:
                fail("result-differs:query:clone", "a clone answers the coverage query differently from its source")
            key = (step["op"], json.dumps(step.get("visitors", step.get("ext", step.get("entries"))), sort_keys=True)[:400],
                   len(cur_world["objs"]), si)
            if world["schemas"][1] != world["schemas"][0] or step["op"] == "clone":
                ctx.nontrivial(key)
        if found:
            new = [(sig, what) for sig, what in first_category(found) if not any(sig == s0 for s0, _ in failures)]
            for sig, what in new:
                step.setdefault("failed", []).append(sig)
            failures += new
            # a step that raised (nothing derived, the frame checks passed) or only lost registry entries: the sequence goes on
            if not all(sig.startswith(("registry:", "result-unusable:runtime-type-object-of-another-schema:"))
                       or (sig.startswith("step-raises:") and res is None) for sig, _ in found):
                break
    hard = any(not sig.startswith(("registry:", "step-raises:", "result-unusable:runtime-type-object-of-another-schema:")) for sig, _ in failures)
    if not hard:
        try:
            wc = W.canon(dumper.dump([source, source.clone()]))
            b0, b1 = W.byname(wc, 0), W.byname(wc, 1)
            ctx.count()
            ctx.stat("refinement:dump(clone(source))==dump(source)")
            if b0 != b1 and not any(s0 == "result-differs:by-name-dump:clone" for s0, _ in failures):
                failures.append(("result-differs:by-name-dump:clone", "dump(clone(s)) != dump(s) by name: %s" % W.first_diff(b0, b1)))
        except Exception as x:  # noqa
            if not any(s0.startswith("step-raises:clone") for s0, _ in failures):
                failures.append(("step-raises:clone:%s" % type(x).__name__, "source.clone() raised %s" % x))
    if not hard and not ctx.out_of_time() and (seed % 2 == 0 or not lazy):
        extra = []

        def fail_extra(sig, what):
            if not any(s0 == sig for s0, _ in failures + extra):
                extra.append((sig, what))
        directive_cases(ctx, source, funcs, random.Random(seed ^ 0xD1EC), fail_extra, sdl)
        default_cases(ctx, source, sdl, random.Random(seed ^ 0xDEFA), fail_extra)
        if W.dump_differs(dumper, source, base_raw):
            fail_extra("frame:source-modified:schema-directive-case", "the source changed while schema directives were applied to a clone of it")
        failures += extra
    if not hard:
        # (at the END of the sequence: the registrations on these extra clones must not interfere with the steps above)
        cfg_now = getattr(ctx, "_c14_cfg", None)
        cases = [("clone", source, "source")]
        if chainable:
            cases.append(("clone", schemas[chainable[-1]], labels[chainable[-1]]))
        cases.append(("extend", source, "source"))
        for kind, sch, label in cases:
            if cfg_now is None:
                break
            try:
                req, impl = W.registry_case(sch, funcs, random.Random(seed ^ 0xFEED), cfg_now, kind)
            except Exception as e:  # noqa
                ctx.notes.append("registry case failed: %s: %s" % (type(e).__name__, e))
                continue
            ctx.__dict__.setdefault("_c14_reg_cases", []).append((req, impl, seed, size, label))
    return record, failures, schemas, dumper, model_steps, base_world


def to_model_request(base_world, steps, cfg):
    msteps = []
    for s in steps:
        m = {"op": "transform" if s["op"] == "inplace" else s["op"], "src": s["src"], "rejected": not s["status"] == "ok"}
        if s["op"] in ("transform", "inplace", "inplace_on"):
            vs = []
            for v in s["visitors"]:
                v2 = {k: v[k] for k in v if k not in ("wrap_ids",)}
                if v["k"] == "sdir":
                    v2["wrap"] = [[t, f, v.get("wrap_ids", {}).get("%s.%s" % (t, f), 0)] for t, f in v["wrap"]]
                vs.append(v2)
            m["visitors"] = vs
        if s["op"] == "extend":
            m["ext"] = ext = copy.deepcopy(s["ext"])
            wd = ext.pop("wrapdir", None)
            if wd is not None:
                for tn, fn_ in wd["targets"]:
                    for f in ext["fields"].get(tn, []):
                        if f["name"] == fn_ and wd.get("wrap_ids", {}).get(fn_):
                            f["res"] = wd["wrap_ids"][fn_][-1]
                if wd["define"]:
                    ext["new_dirs"] = ext["new_dirs"] + [{"name": WRAPDIR, "args": [], "locs": ["FIELD_DEFINITION"]}]
        if s["op"] == "replace":
            m["entries"] = s["entries"]
        msteps.append(m)
    return {"op": "run", "cfg": cfg, "objs": base_world["objs"], "schema": base_world["schemas"][0], "steps": msteps}


# --- named probe: python names through camel-casing (deterministic: consumes no ctx.rng) -----------------------------------
PYNAME_PROBE_STEPS = [
    {"op": "transform", "src": 0, "visitors": [{"k": "camel"}]},
    {"op": "inplace", "src": 0, "visitors": [{"k": "camel"}]},
    {"op": "clone", "src": 0},
    {"op": "transform", "src": 3, "visitors": [{"k": "camel"}]},      # camel-casing the clone: the source's python names again
    {"op": "transform", "src": 1, "visitors": []},                      # clone of the camel-cased result
]
PYNAME_PROBE_SEEDS = [(2, 2), (3, 14)] + [(3, k) for k in range(1, 80)]


def _pyname_precondition(seed, size):
    """The source built from (seed, size) has an input field, an argument, a field and a directive argument whose
    python_name differs from its GraphQL name (what CamelCaseSchemaTransform must carry over: seeded C07-9, C14-1)."""
    import random
    from py_gql.schema import InputObjectType, InterfaceType, ObjectType
    _, _, source = W.build_source(random.Random(seed), size, W.Funcs())
    user = [t for n, t in source.types.items() if not n.startswith("__")]
    inp = any(f.python_name != f.name for t in user if isinstance(t, InputObjectType) for f in t.fields)
    comp = [t for t in user if isinstance(t, (ObjectType, InterfaceType))]
    arg = any(a.python_name != a.name for t in comp for f in t.fields for a in f.arguments)
    fld = any(f.python_name != f.name for t in comp for f in t.fields)
    dr = any(a.python_name != a.name for d in source.directives.values() for a in d.arguments)
    return inp and arg and fld and dr


def pyname_probes(ctx, want=2):
    """(size, steps, build_seed) of the named probe `pyname-through-camel-case`: the first `want` fixed seeds whose source
    satisfies the precondition (a fixed list searched in order: the probe survives changes of the shared generator)."""
    out = []
    for size, seed in PYNAME_PROBE_SEEDS:
        try:
            ok = _pyname_precondition(seed, size)
        except Exception:  # noqa
            ok = False
        if ok:
            out.append((size, copy.deepcopy(PYNAME_PROBE_STEPS), seed))
            if len(out) == want:
                break
    ctx.stat("probe:pyname-through-camel-case:sources=%d" % len(out))
    if len(out) < want:
        ctx.notes.append("probe pyname-through-camel-case: only %d of %d sources satisfy the precondition" % (len(out), want))
    return out


# --- named probe: the input fields of a clone are its own (deterministic: consumes no ctx.rng; seeded C14-11) -------------
NESTED_INPUT_PROBE_STEPS = [
    {"op": "clone", "src": 0},
    {"op": "transform", "src": 0, "visitors": [{"k": "camel"}]},
    {"op": "inplace", "src": 1, "visitors": [{"k": "camel"}]},        # in place on the clone: the source must not see it
    {"op": "transform", "src": 0, "visitors": []},
]
NESTED_INPUT_PROBE_SEEDS = [(2, k) for k in range(1, 40)] + [(3, k) for k in range(1, 60)]


def _nested_input_precondition(seed, size):
    """The source has an input object with a field whose (unwrapped) type is a non-specified type (enum, custom scalar,
    another input object): healing a clone re-points exactly these references."""
    import random
    from py_gql.schema import InputObjectType, SPECIFIED_SCALAR_TYPES, unwrap_type
    _, _, source = W.build_source(random.Random(seed), size, W.Funcs())
    user = [t for n, t in source.types.items() if not n.startswith("__")]
    return any(unwrap_type(f.type) not in SPECIFIED_SCALAR_TYPES for t in user if isinstance(t, InputObjectType) for f in t.fields) \
        and any(isinstance(unwrap_type(f.type), InputObjectType) for t in user if isinstance(t, InputObjectType) for f in t.fields)


def nested_input_probes(ctx, want=2):
    out = []
    for size, seed in NESTED_INPUT_PROBE_SEEDS:
        try:
            ok = _nested_input_precondition(seed, size)
        except Exception:  # noqa
            ok = False
        if ok:
            out.append((size, copy.deepcopy(NESTED_INPUT_PROBE_STEPS), seed, "input-fields-of-a-clone"))
            if len(out) == want:
                break
    ctx.stat("probe:input-fields-of-a-clone:sources=%d" % len(out))
    if len(out) < want:
        ctx.notes.append("probe input-fields-of-a-clone: only %d of %d sources satisfy the precondition" % (len(out), want))
    return out


# --- named probe: IN-PLACE visitor on an EARLIER result while later schemas exist (deterministic: consumes no ctx.rng) -----------
# Props/C14_inplace.lean (`history_inplace_closed_framed`): the step writes objects of the result it works on only; the source,
# a sibling clone, a clone OF that result and an extension OF that result — all created before the step — stay as they are.
LATE_INPLACE_SEEDS = [(2, 4), (2, 6), (3, 2), (3, 5)]


def _late_inplace_visitors(r1, which):
    from py_gql.schema import EnumType, InputObjectType, InterfaceType, ObjectType
    if which == "camel":
        return [{"k": "camel", "table": camel_table(r1)}]
    roots = {t.name for t in (r1.query_type, r1.mutation_type, r1.subscription_type) if t is not None}
    user = [n for n, t in r1.types.items() if not n.startswith("__") and n not in roots
            and isinstance(t, (ObjectType, InterfaceType, EnumType, InputObjectType))]
    comp = [t for n, t in r1.types.items() if not n.startswith("__") and isinstance(t, (ObjectType, InterfaceType)) and len(t.fields) > 1]
    return [{"k": "visibility", "types": sorted(user)[:1], "dirs": [],
             "fields": [[comp[0].name, comp[0].fields[-1].name]] if comp else [], "inputs": []}]


def late_inplace_cases(ctx, cfg, only=None, fail=None):
    """[(model request, canonical world of the live objects, record, closedness verdicts)] + direct oracle."""
    fail = fail or ctx.fail
    import random
    from py_gql.exc import ExtensionError, SchemaError, SDLError
    from py_gql.schema.transforms import transform_schema
    from py_gql.sdl import extend_schema
    out = []
    for size, seed in ([only[:2]] if only else LATE_INPLACE_SEEDS[:ctx.n(2, 4)]):
        for which in ((only[2],) if only else ("camel", "visibility")):
            if not only and ctx.time_left() < 4:
                ctx.notes.append("probe inplace-on-earlier-result skipped (time)")
                return out
            funcs = W.Funcs()
            record = {"seed": seed, "size": size, "probe": "inplace-on-earlier-result", "which": which, "steps": []}
            try:
                desc, sdl, source = W.build_source(random.Random(seed), size, funcs)
                dumper = W.Dumper()
                base_world = W.canon(dumper.dump([source]))
                W.use_schema(source)
                v1 = {"k": "camel", "table": camel_table(source)}
                r1 = transform_schema(source, make_visitor(v1, funcs))
                r2 = source.clone()
                r3 = transform_schema(r1)
                ext = {"new_types": [{"name": "C14Late", "fields": [{"name": "z", "ty": {"k": "named", "n": "Int"}, "args": []}]}],
                       "fields": {}, "input_fields": {}, "members": {}, "values": {}, "new_dirs": []}
                r4 = extend_schema(r1, ext_sdl(ext, r1))
                steps = [{"op": "transform", "src": 0, "visitors": [v1], "status": "ok"},
                         {"op": "clone", "src": 0, "status": "ok"},
                         {"op": "transform", "src": 1, "visitors": [], "status": "ok"},
                         {"op": "extend", "src": 1, "ext": ext, "status": "ok"}]
                schemas = [source, r1, r2, r3, r4]
                for x in schemas:
                    W.use_schema(x)
                before = {k: dumper.dump([schemas[k]]) for k in (0, 2, 3, 4)}
                vs = _late_inplace_visitors(r1, which)
                cur = r1
                for v in vs:
                    cur = make_visitor(v, funcs).on_schema(cur)
                if cur is not r1:
                    fail("step-raises:inplace-on-earlier-result:NotInPlace", "on_schema returned another schema object", record)
                    continue
                steps.append({"op": "inplace_on", "src": 1, "visitors": vs, "status": "ok"})
            except (SchemaError, SDLError, ExtensionError) as e:
                ctx.notes.append("probe inplace-on-earlier-result: %s: %s" % (type(e).__name__, e))
                continue
            except Exception as e:  # noqa
                fail("step-raises:inplace-on-earlier-result:%s" % type(e).__name__,
                         "clone / transform / extend / in-place visitor on an earlier result raised %r" % e, record)
                continue
            record["steps"] = steps
            ctx.count()
            ctx.nontrivial(("late-inplace", seed, size, which))
            ctx.stat("probe:inplace-on-earlier-result:%s" % which)
            names = {0: "source", 2: "sibling-clone", 3: "clone-of-it", 4: "extension-of-it"}
            for k in (0, 2, 3, 4):
                after = dumper.dump([schemas[k]])
                if after != before[k]:
                    d = W.first_diff(before[k], after)
                    m = re.search(r"\.objs\.(\d+)\.(\w+)", d or "")
                    kind = "object-graph"
                    if m:
                        o = before[k]["objs"].get(int(m.group(1)), {})
                        kind = "%s.%s" % (o.get("o", "?"), m.group(2))
                    fail("frame:%s-modified:inplace-on-earlier-result:%s" % ("source" if k == 0 else "other-schema", kind),
                             "an in-place %s visitor on a result changed the object graph of the %s (created before the step): %s"
                             % (which, names[k], d), record)
            for k, x in enumerate(schemas):
                bad = [b for b in W.closed_violations(x) if not b.startswith("implementations")]
                if bad:
                    fail("closed:inplace-on-earlier-result:%s" % (names.get(k, "the-result-worked-on")),
                             "after an in-place %s visitor on an earlier result a reference is not the registered object: %s" % (which, bad[0]),
                             record)
            if cfg is not None and ctx.model_ok:
                raw = dumper.dump(schemas)
                impl = W.canon(raw)
                pyc = [not [b for b in W.closed_violations(x) if not b.startswith("implementations")] for x in schemas]
                req = to_model_request(base_world, steps, cfg)
                order0 = [[n for n, _ in raw["schemas"][0]["types"]], [n for n, _ in raw["schemas"][0]["dirs"]]]
                sch0 = dict(req["schema"])
                for wk, k in (("types", 0), ("dirs", 1)):
                    pos = {n: j for j, n in enumerate(order0[k])}
                    sch0[wk] = sorted(sch0[wk], key=lambda e: pos.get(e[0], len(pos)))
                req["schema"] = sch0
                out.append((req, impl, record, pyc))
    return out


def run(ctx):
    try:
        cfg = read_cfg()
    except Exception as e:  # noqa
        cfg = None
        ctx.notes.append("cfg extraction failed: %s" % e)
    ctx.extra["code_variant"] = cfg
    ctx._c14_cfg = cfg
    ctx._c14_reg_cases = []
    n_seq = ctx.n(40, 330)
    budget_each = 0.8
    batch = []
    seen_sigs = set()
    probes = [p + ("pyname-through-camel-case",) for p in pyname_probes(ctx)] + nested_input_probes(ctx)
    # the probes run AFTER the random sequences: `ctx.later` draws from ctx.rng once its reservoir is full, so anything
    # inserted before them would shift every later random choice (and with it the classes other detections rely on)
    stopped = False
    for i in list(range(n_seq)) + list(range(-len(probes), 0)):
        if i >= 0 and (stopped or ctx.time_left() < 12):
            if not stopped:
                ctx.notes.append("stopped after %d sequences (time)" % i)
            stopped = True
            continue
        if i < 0 and ctx.time_left() < 5:
            ctx.notes.append("named probe skipped (time)")
            continue
        try:
            if i < 0:
                size, psteps, pseed, pname = probes[i + len(probes)]
                record, failures, schemas, dumper, msteps, base_world = one_sequence(
                    ctx, "probe:" + pname, size, len(psteps), steps=psteps, build_seed=pseed)
                record["probe"] = pname
            else:
                size = ctx.rng.choice([1, 2, 2, 3, 4])
                n_steps = ctx.rng.randint(2, 6)
                record, failures, schemas, dumper, msteps, base_world = one_sequence(ctx, i, size, n_steps)
        except Exception as e:  # noqa
            import traceback
            ctx.fail("harness:internal:%s" % type(e).__name__, "sequence raised outside the code under test",
                     {"trace": traceback.format_exc()[-1500:]})
            continue
        if 0 <= i < 3:
            ctx.sample({"sdl_head": record["sdl"][:300], "steps": [{k: v for k, v in s.items() if k in ("op", "visitors", "status", "entries")}
                                                                   for s in record["steps"]][:3]})
        for sig, what in failures:
            upto = next((k for k, st in enumerate(record["steps"]) if sig in st.get("failed", [])), len(record["steps"]) - 1)
            cut = dict(record, steps=record["steps"][:upto + 1])
            rec = shrink(ctx, cut, sig) if sig not in seen_sigs else cut
            seen_sigs.add(sig)
            ctx.fail(sig, what, rec)
        if any("preserved:extend:field:schema-directive-applied-again" in st.get("failed", []) for st in record["steps"]):
            # (the model applies the schema directives of an extension to the fields the extension adds; a run in which the code
            #  applied them to source fields AGAIN — reported above by the direct oracle — is not compared object by object)
            ctx.stat("corr:not-compared:schema-directive-applied-again")
            msteps = []
        if cfg is not None and ctx.model_ok and msteps:
            try:
                raw = dumper.dump(schemas)
                impl = W.canon(raw)
                record["_order"] = [[[n for n, _ in x["types"]], [n for n, _ in x["dirs"]]] for x in raw["schemas"]]
                pyc = [not [b for b in W.closed_violations(x) if not b.startswith("implementations")] for x in schemas]
                req = to_model_request(base_world, msteps, cfg)
                # the model gets the registries of the source in the code's dict order (canon sorts them)
                sch0 = dict(req["schema"])
                for which, k in (("types", 0), ("dirs", 1)):
                    pos = {n: j for j, n in enumerate(record["_order"][0][k])}
                    sch0[which] = sorted(sch0[which], key=lambda e: pos.get(e[0], len(pos)))
                req["schema"] = sch0
                batch.append((req, impl, record, pyc))
            except Exception as e:  # noqa
                ctx.notes.append("dump failed: %s" % e)
    # --- correspondence with the heap model
    if batch:
        answers = ctx.driver.ask([b[0] for b in batch])
        for (req, impl, record, pyc), ans in zip(batch, answers):
            ctx.count()
            if "error" in ans:
                ctx.fail("corr:model-error:%s" % ans["error"], "model could not run the sequence", {"record": record, "answer": ans},
                         kind="correspondence")
                continue
            model = W.canon({"objs": ans["objs"], "schemas": ans["schemas"]})
            if model != impl:
                d = W.first_diff(impl, model)
                last = record["steps"][-1]
                ctx.fail("corr:heap-differs:%s" % (last["op"] + ("/" + "+".join(v["k"] for v in last.get("visitors", [])) if last["op"] == "transform" else "")),
                         "object graph of model and implementation differ (impl vs model): %s" % d,
                         {"record": record, "diff": d}, kind="correspondence")
            # ORDER of the registries (Python dicts keep insertion order): `clone_types_order` (the clone lists its types in the
            # order of Schema.__init__'s type map), `clone_refines_directives` (directives in the source's order), in-place
            # replacement keeps positions. The order of `extend_schema`'s result is not modelled: results with an extension
            # in their ancestry are only counted.
            oks = [st for st in record["steps"] if st.get("status") == "ok"]
            tainted = [False]
            for st in oks:
                src = st.get("src", 0)
                tainted.append(st["op"] == "extend" or (tainted[src] if src < len(tainted) else True))
            for i, (mo, io) in enumerate(zip(ans["schemas"], record.get("_order", []))):
                if i == 0 or i - 1 >= len(oks):
                    continue
                opn = oks[i - 1]["op"]
                for which, k in (("types", 0), ("dirs", 1)):
                    m_names = [n for n, _ in mo[which]]
                    if tainted[i]:
                        # `extendOrder` (HeapExt.lean): the depth-first registration order of Schema.__init__ over the rebuilt types
                        ctx.stat("order:%s:%s:extension-in-ancestry:%s" % (which, opn, "same" if m_names == io[k] else "DIFFERS"))
                    ctx.stat("order:%s:%s:%s" % (which, opn, "same" if m_names == io[k] else "DIFFERS"))
                    if m_names != io[k]:
                        ctx.fail("corr:registry-order:%s:%s" % (which, opn),
                                 "order of the %s dict after %s differs (impl vs model): %r vs %r" % (which, opn, io[k], m_names),
                                 {"record": record, "schema_index": i, "impl": io[k], "model": m_names}, kind="correspondence")
            # the model's closedness verdicts = the oracle's
            if ans.get("closed") != pyc:
                ctx.fail("corr:closed-verdict", "closedness verdict of the model (closedB) differs from the identity check on the live objects",
                         {"record": record, "model": ans.get("closed"), "impl": pyc}, kind="correspondence")
    ctx.extra["sequences"] = len(batch)
    # --- named probe inplace-on-earlier-result (after everything that draws from ctx.rng)
    late = late_inplace_cases(ctx, cfg)
    if late:
        answers = ctx.driver.ask([b[0] for b in late])
        for (req, impl, record, pyc), ans in zip(late, answers):
            ctx.count()
            if "error" in ans:
                ctx.fail("corr:model-error:%s" % ans["error"], "model could not run the sequence", {"record": record, "answer": ans},
                         kind="correspondence")
                continue
            model = W.canon({"objs": ans["objs"], "schemas": ans["schemas"]})
            if model != impl:
                ctx.fail("corr:heap-differs:inplace-on-earlier-result:%s" % record["which"],
                         "object graph of model and implementation differ (impl vs model): %s" % W.first_diff(impl, model),
                         {"record": record}, kind="correspondence")
            if ans.get("closed") != pyc:
                ctx.fail("corr:closed-verdict", "closedness verdict of the model (closedB) differs from the identity check on the live objects",
                         {"record": record, "model": ans.get("closed"), "impl": pyc}, kind="correspondence")
    ctx.extra["late_inplace_cases"] = len(late)
    # --- correspondence of the resolver REGISTRIES (source.clone() + registrations on the clone) with Registry.lean
    reg_cases = ctx._c14_reg_cases
    if reg_cases and ctx.model_ok:
        answers = ctx.driver.ask([c[0] for c in reg_cases])
        for (req, impl, seed, size, label), ans in zip(reg_cases, answers):
            ctx.count()
            if req["ops"] or label != "source":
                ctx.nontrivial(("regs", req["kind"], label, json.dumps(req["ops"], sort_keys=True)[:300], seed))
            ctx.stat("regs:%s:%s:%s" % (req["kind"], "source" if label == "source" else "derived", "raised" if impl["rejected"] else "ok"))
            detail = {"seed": seed, "size": size, "derived_by": label, "request": {k: v for k, v in req.items() if k != "cfg"},
                      "impl": impl, "model": ans}
            if bool(ans.get("rejected")) != impl["rejected"]:
                ctx.fail("corr:registries:raises", "%s(): the code %s, the model %s" % (
                    req["kind"], "raised " + impl.get("why", "") if impl["rejected"] else "succeeded",
                    "rejects" if ans.get("rejected") else "succeeds"), detail, kind="correspondence")
                continue
            for which in ("source",) if impl["rejected"] else ("source", "clone"):
                if ans.get(which) != impl[which]:
                    ctx.fail("corr:registries:%s" % which, "registries of the %s after %s() + registrations differ (impl vs model): %s"
                             % (which, req["kind"], W.first_diff(impl[which], ans.get(which))), detail, kind="correspondence")
                    break
    ctx.extra["registry_cases"] = len(reg_cases)


def shrink(ctx, record, sig):
    """Try to reproduce the signature with the failing step alone (on a freshly built source)."""
    steps = record["steps"]
    if not steps:
        return record
    # the failing step and, if it started from an earlier RESULT, the chain of steps that produced that result
    ok_steps = [st for st in steps[:-1] if st.get("status") == "ok"]
    chain = [copy.deepcopy(steps[-1])]
    while chain[0].get("src", 0) != 0:
        k = chain[0]["src"] - 1
        if k >= len(ok_steps) or len(chain) > 8:
            return record
        chain.insert(0, copy.deepcopy(ok_steps[k]))
    if len(chain) == len(steps):
        return record
    for n, st in enumerate(chain):
        st["src"] = n
        for k in ("status", "sdl", "failed", "raised"):
            st.pop(k, None)
    try:
        rec2, failures, *_ = one_sequence(ctx, "shrink", record["size"], len(chain), steps=chain, build_seed=record["seed"])
        if any(s == sig for s, _ in failures):
            return rec2
    except Exception:  # noqa
        pass
    return record


def replay(ctx, data):
    inp = data.get("input", {})
    if "record" in inp:
        inp = inp["record"]
    if "seed" not in inp:
        return True
    if inp.get("probe") == "inplace-on-earlier-result":
        found = []
        late_inplace_cases(ctx, None, only=(inp["size"], inp["seed"], inp["which"]),
                           fail=lambda sig, what, detail=None, kind="property": found.append((sig, what)))
        for sig, what in found:
            print("  ", sig, "--", what)
        return not found
    steps = copy.deepcopy(inp["steps"])
    for s in steps:
        for k in ("status", "failed", "raised"):
            s.pop(k, None)
    record, failures, *_ = one_sequence(ctx, "replay", inp["size"], len(steps), steps=steps, build_seed=inp["seed"])
    want = data.get("signature")
    if want and want.startswith("corr:"):
        return True
    for sig, what in failures:
        print("  ", sig, "--", what)
    return not failures

# -*- coding: utf-8 -*-
"""
C02 (shape / span part) — every node of an accepted tree: `loc` = (start of its first token, end of its
last token), children nested in the parent and ordered, `source` recorded, `no_location` erases exactly
the `loc`s; and THE DIRECT ORACLE of the statement: the spanned text parses back to an equal node.

    for each node n of parse(text):  parse_<kind of n>(text[n.loc[0]:n.loc[1]]) == n   (locs shifted by n.loc[0])

The model side (shape = derivation, spans) is compared in corr/C01_parse.py (whole `to_dict()` incl. `loc`);
here the generated documents are additionally sent to the Lean op `parse` and the answer's `spec` flag
(WF + yield + span specification evaluated by the compiled model on its own output) is checked.
"""
from corr import C01_parse as cp
from gen import document as gd

PROPERTY = "C02"
PART = "C02_spans"
RULE = ("spans: every node of every accepted generated / fixture document, value and type; distinct = distinct "
        "(node kind, spanned text); non-trivial = node with >= 2 tokens whose span was re-parsed with the matching "
        "entry point")
ASSUMPTIONS = [
    "\\uXXXX escapes: June-2018 (2.9.4) defines \\u EscapedUnicode as a 16-bit CODE UNIT and the string value as the "
    "character sequence of the units; reading chosen: the unit sequence is UTF-16, i.e. a high-surrogate escape directly "
    "followed by a low-surrogate escape denotes ONE astral character (as in JSON / graphql-js >= 16 / the 2021 spec text), "
    "an unpaired surrogate escape stays a lone code point (Python str can hold it; it is not UTF-8 encodable, which "
    "concerns C10's strict JSON, not parsing)",
    "Document span: the property's 'first token .. last token' is read LITERALLY for the oracle (first/last lexical "
    "token); the code (and the Lean view `documentV`) count the lexer's synthetic <SOF>/<EOF> as the Document's first and "
    "last tokens, giving (0, len(text)) - finding P5, pinned by 15 tests","a node is re-parsed with the Parser method that produced it (public Parser.parse_* methods); "
               "constant-ness is not part of a node, the re-parse uses const=False (a superset)"]
TRUSTED = []

def extract(ctx):
    """the model this part depends on uses the tables of parser.py: regenerate them on C02 runs too"""
    return cp.extract(ctx)


# node class -> how to re-parse its span
METHOD = {
    "Name": "parse_name", "Variable": "parse_variable", "VariableDefinition": "parse_variable_definition",
    "SelectionSet": "parse_selection_set", "Field": "parse_field", "FragmentSpread": "parse_fragment",
    "InlineFragment": "parse_fragment", "Argument": "parse_argument", "ObjectField": "parse_object_field",
    "Directive": "parse_directive", "OperationTypeDefinition": "parse_operation_type_definition",
    "FieldDefinition": "parse_field_definition", "InputValueDefinition": "parse_input_value_definition",
    "EnumValueDefinition": "parse_enum_value_definition",
    "NamedType": "parse_type_reference", "ListType": "parse_type_reference", "NonNullType": "parse_type_reference",
}
VALUE_KINDS = {"IntValue", "FloatValue", "StringValue", "BooleanValue", "NullValue", "EnumValue", "ListValue",
               "ObjectValue"}


def reparse(kind, text, flags):
    """re-parse `text` as a node of class `kind`; returns dict or ('error', what)"""
    from py_gql.lang import parser as P
    from py_gql.lang import token as T
    from py_gql.exc import GraphQLSyntaxError
    try:
        if kind == "Document":
            return P.parse(text, **flags).to_dict()
        p = P.Parser(text, **flags)
        p.expect(T.SOF)
        if kind in VALUE_KINDS:
            n = p.parse_value_literal(False)
        elif kind in METHOD:
            n = getattr(p, METHOD[kind])()
        else:
            n = p.parse_definition()
        p.expect(T.EOF)
        return n.to_dict()
    except GraphQLSyntaxError as e:
        return ("syntax", e.position)
    except Exception as e:  # noqa
        return ("internal:" + type(e).__name__, repr(e)[:200])


CONTEXT = {"Field", "FragmentSpread", "InlineFragment", "SelectionSet", "Directive", "Argument", "ObjectField", "VariableDefinition", "FieldDefinition", "InputValueDefinition",
           "EnumValueDefinition", "OperationTypeDefinition", "Name"}
_WRAPPED, _WRAPPED_SEEN = [], set()
# members of type-system definitions: keyword of the enclosing definition, its class, the attribute holding the members
TS_MEMBER = {"FieldDefinition": ("type", "ObjectTypeDefinition", "fields"),
             "InputValueDefinition": ("input", "InputObjectTypeDefinition", "fields"),
             "EnumValueDefinition": ("enum", "EnumTypeDefinition", "values")}


def context_reparse(kind, piece, flags):
    """parse() on the minimal context around `piece`; ('ok', wrapped, node dict, prefix length, True | what is odd) or
    (error class, wrapped, ...). LF before the closing part: it ends nothing but satisfies every follow restriction."""
    from py_gql.lang import parser as P
    from py_gql.lang import ast as A
    from py_gql.exc import GraphQLSyntaxError
    if kind == "SelectionSet":
        pre, post = "", ""
    elif kind in ("Field", "FragmentSpread", "InlineFragment"):
        pre, post = "{ ", "\n}"
    elif kind == "Directive":
        pre, post = "{ a ", "\n}"
    elif kind == "Argument":
        pre, post = "{ a(", "\n)}"
    elif kind == "VariableDefinition":
        pre, post = "query(", "\n){a}"
    elif kind in TS_MEMBER:
        pre, post = TS_MEMBER[kind][0] + " A {", "\n}"
    elif kind == "OperationTypeDefinition":
        pre, post = "schema {", "\n}"
    elif kind == "Name":
        pre, post = "{ ", "\n}"
    else:
        pre, post = "", "\nscalar A"
    if kind == "ObjectField":
        pre, post = "{ ", "\n}"
    wrapped = pre + piece + post
    try:
        if kind == "ObjectField":               # through parse_value: the object literal whose only field is the node
            v = P.parse_value(wrapped, **flags)
            odd = True
            if not (isinstance(v, A.ObjectValue) and len(v.fields) == 1 and v.loc == (0, len(wrapped))):
                odd = "object"
            return ("ok", wrapped, v.fields[0].to_dict(), len(pre), odd)
        doc = P.parse(wrapped, **flags)
    except GraphQLSyntaxError as e:
        return ("syntax", wrapped, e.position)
    except Exception as e:  # noqa
        return ("internal:" + type(e).__name__, wrapped, repr(e)[:200])
    odd = True
    try:
        if len(doc.definitions) != 1 or doc.loc != (0, len(wrapped)):
            odd = "document"
        d0 = doc.definitions[0]
        if kind in TS_MEMBER:
            kw, cls, attr = TS_MEMBER[kind]
            members = getattr(d0, attr)
            node = members[0]
            if not (type(d0).__name__ == cls and d0.name.value == "A" and d0.name.loc == (len(kw) + 1, len(kw) + 2)
                    and d0.description is None and not d0.directives and len(members) == 1 and d0.loc == (0, len(wrapped))
                    and not getattr(d0, "interfaces", None)):
                odd = cls
            return ("ok", wrapped, node.to_dict(), len(pre), odd)
        if kind == "OperationTypeDefinition":
            node = d0.operation_types[0]
            if not (isinstance(d0, A.SchemaDefinition) and len(d0.operation_types) == 1 and not d0.directives
                    and d0.loc == (0, len(wrapped))):
                odd = "schema"
            return ("ok", wrapped, node.to_dict(), len(pre), odd)
        if kind == "Name":
            f = d0.selection_set.selections[0]
            if not (isinstance(d0, A.OperationDefinition) and len(d0.selection_set.selections) == 1 and isinstance(f, A.Field)
                    and f.alias is None and not f.arguments and not f.directives and f.selection_set is None
                    and f.loc == f.name.loc and d0.loc == (0, len(wrapped))):
                odd = "field"
            return ("ok", wrapped, f.name.to_dict(), len(pre), odd)
        if kind == "VariableDefinition":
            node = d0.variable_definitions[0]
            ss = d0.selection_set
            n_ = len(wrapped)
            if not (isinstance(d0, A.OperationDefinition) and d0.operation == "query" and d0.name is None
                    and len(d0.variable_definitions) == 1 and not d0.directives and d0.loc == (0, n_)
                    and ss.loc == (n_ - 3, n_) and len(ss.selections) == 1 and ss.selections[0].loc == (n_ - 2, n_ - 1)
                    and ss.selections[0].name.value == "a"):
                odd = "query"
            return ("ok", wrapped, node.to_dict(), len(pre), odd)
        if kind == "StringValue":
            node = d0.description
            if not (isinstance(d0, A.ScalarTypeDefinition) and d0.name.value == "A" and not d0.directives
                    and d0.loc == (0, len(wrapped))):
                odd = "scalar"
        else:
            ss = d0.selection_set
            if not (isinstance(d0, A.OperationDefinition) and d0.operation == "query" and d0.name is None
                    and not d0.variable_definitions and not d0.directives and ss.loc == (0, len(wrapped)) == d0.loc):
                odd = "shorthand"
            if kind == "SelectionSet":
                node = ss
            else:
                if len(ss.selections) != 1:
                    odd = "selections"
                f = ss.selections[0]
                if kind == "Directive":
                    node = f.directives[0]
                    if not (len(f.directives) == 1 and not f.arguments and f.alias is None and f.selection_set is None
                            and f.name.value == "a" and f.name.loc == (2, 3) and f.loc == (2, 4 + len(piece))):
                        odd = "field"
                elif kind == "Argument":
                    node = f.arguments[0]
                    if not (len(f.arguments) == 1 and not f.directives and f.alias is None and f.selection_set is None
                            and f.name.value == "a" and f.name.loc == (2, 3) and f.loc == (2, 6 + len(piece))):
                        odd = "field"
                else:
                    node = f
        return ("ok", wrapped, node.to_dict(), len(pre), odd)
    except Exception as e:  # noqa  (the document does not have the expected shape at all)
        return ("shape:" + type(e).__name__, wrapped, repr(e)[:200])


def shift(d, off):
    if isinstance(d, dict):
        return {k: ((v[0] + off, v[1] + off) if k == "loc" and v is not None else shift(v, off)) for k, v in d.items()}
    if isinstance(d, list):
        return [shift(x, off) for x in d]
    return d


def erase(d):
    if isinstance(d, dict):
        return {k: (None if k == "loc" else erase(v)) for k, v in d.items()}
    if isinstance(d, list):
        return [erase(x) for x in d]
    return d


def walk(node):
    """(node, [children]) for every Node below (children in slot order, lists flattened)"""
    from py_gql.lang import ast as A
    kids = []
    for attr in node._props():
        v = getattr(node, attr)
        if isinstance(v, A.Node):
            kids.append((attr, v))
        elif isinstance(v, list):
            kids += [(attr, x) for x in v if isinstance(x, A.Node)]
    yield node, kids
    for _, k in kids:
        for x in walk(k):
            yield x


def check_tree(ctx, text, entry, flags, root, origin):
    """all span checks on one accepted tree (flags have no_location False)"""
    from py_gql.lang.lexer import Lexer
    toks = [t for t in Lexer(text)]
    starts = {t.start for t in toks[1:-1]}
    ends = {t.end for t in toks[1:-1]}
    ok = True

    def det(n, **kw):
        d = {"part": PART, "text": text, "entry": entry, "flags": flags, "origin": origin,
             "node": type(n).__name__, "loc": list(n.loc) if n.loc else None}
        d.update(kw)
        return d

    for n, kids in walk(root):
        kind = type(n).__name__
        ctx.count()
        ctx.stat("node=%s" % kind)
        if getattr(n, "source", None) != text:
            d = det(n)
            if n.loc is not None and kind != "Document":      # shrink: the node's own text reproduces it
                piece = text[n.loc[0]:n.loc[1]]
                r = cp.real_parse(piece, "document", flags)
                if r[0] == "ok" and any(getattr(x, "source", None) != piece for x, _ in walk(r[1])):
                    d = dict(d, text=piece, entry="document", loc=None)
            ctx.fail("node-source-missing:%s" % kind, "a parsed node does not record its source text", d)
            ok = False
        if n.loc is None:
            ctx.fail("node-without-loc:%s" % kind, "a node has no loc although locations are enabled", det(n))
            ok = False
            continue
        a, b = n.loc
        if kind == "Document":
            if (a, b) != (0, toks[-1].end):
                ctx.fail("document-span", "Document.loc is not (0, end of text after ignored characters)", det(n))
                ok = False
            real_toks = toks[1:-1]
            if real_toks and (a, b) != (real_toks[0].start, real_toks[-1].end):
                # literal reading of the statement: first character of the first token .. end of the last token
                ctx.fail("document-span-includes-ignored",
                         "Document.loc includes leading / trailing ignored text (it is (SOF.start, EOF.end))",
                         dict(det(n), text=(" {a} " if len(text) > 200 else text), entry="document"))
                ok = False
        elif a not in starts or b not in ends or not a < b:
            ctx.fail("span-not-on-token-boundaries:%s" % kind, "loc does not start/end on token boundaries", det(n))
            ok = False
        # children nested, pairwise ordered inside lists, disjoint
        prev_end = {}
        spans = []
        for attr, k in kids:
            if k.loc is None:
                continue
            ka, kb = k.loc
            if not (a <= ka and kb <= b):
                ctx.fail("child-span-not-nested:%s.%s" % (kind, attr), "a child's span is not inside its parent's", det(n, child=list(k.loc)))
                ok = False
            if attr in prev_end and ka < prev_end[attr]:
                ctx.fail("list-children-not-ordered:%s.%s" % (kind, attr), "list elements' spans are not in source order", det(n))
                ok = False
            prev_end[attr] = kb
            spans.append((ka, kb))
        spans.sort()
        for (x0, x1), (y0, y1) in zip(spans, spans[1:]):
            # the only legal overlap: NamedType/Variable... no: a child never overlaps a sibling
            if y0 < x1:
                ctx.fail("sibling-spans-overlap:%s" % kind, "two children of a node have overlapping spans", det(n))
                ok = False
        # decoded value of a quoted string = the UTF-16 reading of its escapes (reference: JSON string decoding,
        # of which GraphQL's quoted-string escapes are a subset)
        if kind == "StringValue" and not n.block:
            lexeme = text[a:b]
            try:
                import json as _json
                want_s = _json.loads(lexeme, strict=False)
            except Exception:
                want_s = None
            if want_s is not None and want_s != n.value:
                pair = any(0xD800 <= ord(x) <= 0xDBFF and 0xDC00 <= ord(y) <= 0xDFFF for x, y in zip(n.value, n.value[1:]))
                ctx.fail("string-escape-decoding:%s" % ("surrogate-pair-not-combined" if pair else "other"),
                         "a quoted string's escapes do not decode to the UTF-16 reading of the code units",
                         dict(det(n), text=lexeme, entry="value", loc=None,
                              got=[ord(c) for c in n.value], want=[ord(c) for c in want_s]))
                ok = False
        # THE statement: the spanned text parses back to an equal node
        piece = text[a:b]
        want = n.to_dict()
        got = reparse(kind, piece, flags)
        if isinstance(got, tuple):
            ctx.fail("span-does-not-reparse:%s:%s" % (kind, got[0].split(":")[0]),
                     "the text of a node's span does not parse back (with the method that produced the node)",
                     det(n, piece=piece, error=list(got)))
            ok = False
        elif shift(got, a) != want:
            ctx.fail("span-reparses-to-different-node:%s:%s" % (kind, cp.first_diff(cp.canon(want), cp.canon(shift(got, a)))),
                     "the text of a node's span parses back to a different node", det(n, piece=piece))
            ok = False
        # ... and, for the node kinds without an entry point of their own, THROUGH THE PUBLIC `parse` ENTRY POINT inside the
        # minimal context (Props/C02_reparse_ctx.lean: span_reparse_selection / _selection_set / _directive / _argument /
        # _description): the wrapped text parses to a document containing an equal node modulo the offset of the context
        if kind in CONTEXT or (kind == "StringValue" and flags.get("allow_type_system")):
            cg = context_reparse(kind, piece, flags)
            ctx.count()
            ctx.stat("context-reparse=%s" % kind)
            if cg[0] != "ok":
                ctx.fail("context-reparse-fails:%s:%s" % (kind, cg[0].split(":")[0]),
                         "the text of a node's span, wrapped in its minimal context, is not accepted by parse()",
                         det(n, piece=piece, wrapped=cg[1], error=list(cg[2:])))
                ok = False
            elif shift(cg[2], a - cg[3]) != want:
                ctx.fail("context-reparse-differs:%s:%s" % (kind, cp.first_diff(cp.canon(want), cp.canon(shift(cg[2], a - cg[3])))),
                         "the text of a node's span, wrapped in its minimal context, parses to a document that does not "
                         "contain an equal node (modulo the offset)", det(n, piece=piece, wrapped=cg[1]))
                ok = False
            elif cg[4] is True and kind != "ObjectField" and len(_WRAPPED) < 600 and (kind, cg[1]) not in _WRAPPED_SEEN:
                _WRAPPED_SEEN.add((kind, cg[1]))
                _WRAPPED.append((cg[1], flags, kind))       # also sent to the Lean lexer + parser at the end of the run
            if cg[0] == "ok" and shift(cg[2], a - cg[3]) == want and cg[4] is not True:
                ctx.fail("context-reparse-shape:%s:%s" % (kind, cg[4]),
                         "the document parsed from the wrapped text is not the minimal context around the node",
                         det(n, piece=piece, wrapped=cg[1]))
                ok = False
        if len(kids) >= 1 or b - a >= 2:
            ctx.nontrivial((kind, piece))
    return ok


def check_noloc(ctx, text, entry, flags, located):
    """no_location=True gives the same tree with every loc absent"""
    r = cp.real_parse(text, entry, dict(flags, no_location=True))
    ctx.count()
    if r[0] != "ok":
        ctx.fail("noloc-changes-acceptance:%s" % entry, "no_location=True changes accept/reject",
                 {"part": PART, "text": text, "entry": entry, "flags": flags, "noloc": r[0]})
        return False
    if r[1].to_dict() != erase(located.to_dict()):
        ctx.fail("noloc-not-erasure:%s" % entry, "the no_location tree is not the erasure of the located tree",
                 {"part": PART, "text": text, "entry": entry, "flags": flags, "noloc": True})
        return False
    return True


def inputs(ctx):
    rng = ctx.rng
    out = []
    for _ in range(ctx.n(120, 900)):
        ts = rng.random() < 0.6
        fv = rng.random() < 0.5
        toks = gd.gen_document(rng, size=rng.randint(1, 4), executable=(not ts) or rng.random() < 0.7, type_system=ts,
                               fragment_variables=fv, max_depth=rng.randint(1, 3))
        out.append((gd.render(toks, rng), "document",
                    dict(no_location=False, allow_type_system=ts, experimental_fragment_variables=fv), "derivation"))
    for _ in range(ctx.n(60, 400)):
        out.append((gd.render(gd.gen_value(rng, rng.random() < 0.4), rng), "value", cp.FLAG_COMBOS[0], "derivation"))
        out.append((gd.render(gd.gen_type(rng), rng), "type", cp.FLAG_COMBOS[0], "derivation"))
    fl = dict(no_location=False, allow_type_system=True, experimental_fragment_variables=True)
    for name in cp.FIXTURES:
        p = cp.REPO / "tests" / "fixtures" / name
        if p.exists() and (p.stat().st_size < 20000 or ctx.tier == "thorough"):
            out.append((p.read_text(), "document", fl, "fixture:" + name))
    from common import CORPUS
    import json
    d = CORPUS / "C02"
    if d.exists():
        for f in sorted(d.glob("spans_*.json")):
            for e in json.loads(f.read_text()):
                out.insert(0, (e["text"], e.get("entry", "document"), e.get("flags") or fl, "corpus"))
    return out


def run(ctx):
    cases = inputs(ctx)
    reqs, keep = [], []
    for text, entry, flags, origin in cases:
        if ctx.out_of_time():
            ctx.notes.append("C02_spans: cut (time)")
            break
        r = cp.real_parse(text, entry, flags)
        ctx.stat("entry=%s" % entry)
        if r[0] != "ok":
            ctx.stat("rejected")
            if r[0].startswith("internal:"):
                ctx.fail("%s:%s" % (r[0], entry), "the parser raises a non-syntax exception",
                         {"part": PART, "text": text, "entry": entry, "flags": flags})
            continue
        check_tree(ctx, text, entry, flags, r[1], origin)
        check_noloc(ctx, text, entry, flags, r[1])
        if len(ctx.samples) < 3:
            ctx.sample({"text": text[:200], "entry": entry, "root_loc": list(r[1].loc)})
        if cp.model_available(ctx):
            lt = cp.lex(text)
            if lt is not None:
                reqs.append(dict(op="parse", entry=entry, toks=lt, spec=True, **cp.flags_json(flags)))
                keep.append((text, entry, flags, origin, r[1]))
    if reqs:
        for (text, entry, flags, origin, node), a in zip(keep, ctx.driver.ask(reqs)):
            ctx.count()
            c = cp.Case([], entry, flags, origin, text)
            if "ok" not in a:
                ctx.fail("accept-mismatch:impl-accepts:%s:span-stream" % entry, "model rejects an accepted text",
                         cp.detail(c, model=a), kind="correspondence")
            elif a["ok"] != cp.canon(node.to_dict()):
                ctx.fail("corr:ast-differs:%s:%s" % (entry, cp.first_diff(cp.canon(node.to_dict()), a["ok"])),
                         "model AST (shape, values, spans) and Node.to_dict() differ", cp.detail(c, model=a["ok"]),
                         kind="correspondence")
            elif a.get("spec") is not True:
                ctx.fail("corr:spec-check-failed:%s" % entry,
                         "compiled model output violates WF / yield / span specification", cp.detail(c, model=a.get("spec")),
                         kind="correspondence")
    corr_wrapped(ctx)


def corr_wrapped(ctx):
    """the wrapped texts of the context oracle through the Lean lexer + parser (driver op parse_text): the instances of
    span_reparse_selection / _directive / _argument / _description computed by the compiled model = what parse() returns"""
    if not (_WRAPPED and cp.model_available(ctx)):
        return
    from corr import C01_lex as L
    reqs = [dict(op="parse_text", entry="document", text=L.cps(w), **cp.flags_json(fl)) for w, fl, _ in _WRAPPED]
    for (w, fl, kind), a in zip(_WRAPPED, ctx.driver.ask(reqs)):
        ctx.count()
        ctx.stat("context-model=%s" % kind)
        r = cp.real_parse(w, "document", fl)
        if r[0] != "ok":
            continue
        if "ok" not in a:
            ctx.fail("corr:context-reparse:model-rejects:%s" % kind, "the Lean lexer+parser rejects a wrapped text parse() accepts",
                     {"part": PART, "text": w, "entry": "document", "flags": fl, "model": str(a)[:300]}, kind="correspondence")
        elif a["ok"] != cp.canon(r[1].to_dict()):
            ctx.fail("corr:context-reparse:ast-differs:%s:%s" % (kind, cp.first_diff(cp.canon(r[1].to_dict()), a["ok"])),
                     "the Lean lexer+parser and parse() return different trees for a wrapped text",
                     {"part": PART, "text": w, "entry": "document", "flags": fl}, kind="correspondence")
    del _WRAPPED[:]
    _WRAPPED_SEEN.clear()


def replay(ctx, data):
    d = data.get("input") or {}
    if d.get("part") not in (None, PART):
        return True
    text, entry, flags = d["text"], d.get("entry", "document"), d.get("flags") or cp.FLAG_COMBOS[0]
    flags = dict(flags, no_location=False)
    r = cp.real_parse(text, entry, flags)
    if r[0] != "ok":
        return not r[0].startswith("internal:")
    sub = type(ctx)(ctx.prop, ctx.tier, ctx.seed)
    ok = check_tree(sub, text, entry, flags, r[1], "replay") and check_noloc(sub, text, entry, flags, r[1])
    return ok and not sub.found

# -*- coding: utf-8 -*-
"""
C18 — DYNAMIC fallback for the traversal table: when the static extractor does not recognise the shape of a
`_visit_*` body / dispatcher, the same table is OBSERVED by running the real visitor.

For every concrete node class (list from lang/ast.py) one maximal instance (every child attribute populated, taken
from parsed documents) is visited with a recording visitor: the order in which its direct children are entered gives
the ordered list of traversed attributes; a visit with the attribute set to None shows whether a single child is
guarded; a visitor replacing one child per attribute shows whether the result is assigned back. The table has one
synthetic method per node class (`_dyn_<Kind>`) and one dispatcher by class (`_dyn_by_kind`).

Enumeration assumption (recorded in TRUSTED): the traversal of a node depends only on its class, on which
attributes are None / empty, and children are dispatched by their own class — what one maximal instance per class
and the probes can show.
"""
import copy

from corr import C18_docs as D
from corr import C18_oracle as O

MAXIMAL = [
    ("query Q($v: Int = 1 @d, $w: [T!]) @e { x: a(p: $v, q: [1, {k: 2}]) @f { b ...F @g ... on T @h { c } } }\n"
     "fragment F($v: [Int] = [1] @d) on T @e { a }", {"experimental_fragment_variables": True}),
    ('schema @d { query: Q }\nextend schema @d { mutation: M }\n"d" scalar S @d\nextend scalar S @d\n'
     '"d" type T implements I & J @d { "fd" f("ad" x: [Int!] = [1] @e): Int @f }\nextend type T implements K @d { g: Int }\n'
     '"d" interface I @d { f: Int }\nextend interface I @d { g: Int }\n"d" union U @d = A | B\nextend union U @d = C\n'
     '"d" enum E @d { "vd" A @e }\nextend enum E @d { B }\n"d" input N @d { "xd" x: Int = 1 @e }\nextend input N @d { y: Int }\n'
     '"d" directive @z("ad" a: Int = 1 @e) on FIELD | QUERY', {"allow_type_system": True}),
    ('{ a(i: 1, f: 1.5, s: "x", b: true, n: null, e: E, l: [1], o: {k: 1}, v: $v) }', {}),
]


def _all_nodes(root):
    out = [root]
    for _, _, c in O.children(root):
        out += _all_nodes(c)
    return out


def _populated(n):
    _ast = O.A()
    k = 0
    for a in O.attrs_of(n):
        v = getattr(n, a, None)
        if isinstance(v, _ast.Node) or (isinstance(v, list) and v):
            k += 1
    return k


def maximal_instances():
    pool = list(MAXIMAL)
    pool += [(t, {}) for t in D.SMALL_EXECUTABLE] + [(t, {"allow_type_system": True}) for t in D.SMALL_TYPE_SYSTEM]
    best = {}
    for text, kw in pool:
        for n in _all_nodes(O.parse_doc(text, kw)):
            k = type(n).__name__
            if k not in best or _populated(n) > _populated(best[k]):
                best[k] = n
    return best


def _child_at(n, a, i):
    v = getattr(n, a)
    return v if i is None else v[i]


def dynamic_table(slots, reason=""):
    _v, _ast = O.V(), O.A()
    inst = maximal_instances()
    kinds = [k for k, _ in slots if k != "Name"]
    missing = [k for k in kinds if k not in inst]
    if missing:
        raise RuntimeError("dynamic extraction: no instance of %s" % missing)
    methods, visit = [], []
    for k in kinds:
        n = copy.deepcopy(inst[k])
        trace = []
        try:
            res = O.make_recorder(_v.ASTVisitor, 0, trace).visit(n)
        except TypeError:
            continue           # `visit` does not handle this class
        visit.append((k, "_dyn_" + k))
        direct = {id(c): (a, i) for a, i, c in O.children(n)}
        order = []
        for e in trace:
            if e[1] == "enter" and id(e[2]) in direct and direct[id(e[2])][0] not in order:
                order.append(direct[id(e[2])][0])
        steps = []
        for a in order:
            is_list = isinstance(getattr(n, a), list)
            guard = "always"
            if not is_list:
                m = copy.deepcopy(inst[k])
                setattr(m, a, None)
                t2 = []
                try:
                    O.make_recorder(_v.ASTVisitor, 0, t2).visit(m)
                    guard = "always" if any(e[2] is None for e in t2) else "notNone"
                except Exception:  # noqa: the unguarded call on None raises
                    guard = "always"
            # replacement probe
            m = copy.deepcopy(inst[k])
            i = 0 if is_list else None
            c = _child_at(m, a, i)
            r = copy.deepcopy(c)
            O.make_recorder(_v.ASTVisitor, 0, [], {id(c): ("replace", r)}).visit(m)
            holder = getattr(m, a)
            placed = any(x is r for x in holder) if isinstance(holder, list) else holder is r
            steps.append(dict(kinds=None, attr=a, shape="list" if is_list else "single", guard=guard, assign=bool(placed),
                              target="_dyn_by_kind"))
        methods.append(("_dyn_" + k, steps))
    handled = [k for k, _ in visit]
    dispatchers = [("_dyn_by_kind", [(k, "_dyn_" + k) for k in handled], None)]
    # DispatchingVisitor registries, observed
    log = []

    class DS(_v.DispatchingVisitor):
        pass
    for name in dir(_v.DispatchingVisitor):
        if name.startswith("enter_"):
            setattr(DS, name, (lambda nm: lambda self, node: (log.append(nm), node)[1])(name))
        elif name.startswith("leave_"):
            setattr(DS, name, (lambda nm: lambda self, node: log.append(nm))(name))
    ereg, lreg = [], []
    base = _v.DispatchingVisitor()
    for k in handled:
        n = copy.deepcopy(inst[k])
        for reg, call in ((ereg, "enter"), (lreg, "leave")):
            del log[:]
            try:
                getattr(DS(), call)(n)
            except TypeError:
                continue
            if len(log) == 1:
                reg.append((k, log[0]))
        if base.enter(n) is not n or base.leave(n) is not None:
            raise RuntimeError("a default DispatchingVisitor handler is no longer a no-op (%s)" % k)
    return dict(methods=methods, dispatchers=dispatchers, visit=visit, slots=slots, enter_registry=ereg, leave_registry=lreg,
                mode="dynamic", reason=reason)

# -*- coding: utf-8 -*-
"""
C01 (grammar part) — the token-level parser of py_gql.lang.parser against the Lean model
`PyGqlModel/Parse*.lean` (proved sound + complete w.r.t. the yield specification `Spec/Grammar.lean`).

The REAL lexer produces the tokens of a text; the same tokens go to the Lean parser; compared are
accept/reject and, on accept, the whole `to_dict()` tree including `loc`.  Never messages / positions
of rejected inputs.

Streams (all under the 8 flag combinations and the three entry points):
  * grammar-directed derivations (gen/document.py), rendered with random ignored runs;
  * token-level mutants (delete / duplicate / swap / replace) and every token-prefix of derivations and of
    the fixtures in /repo/tests/fixtures;
  * bounded-exhaustive token strings (length <= 4 quick / <= 5 thorough) over ~14 token classes,
    enumerated on both sides (Lean op `parse_enum`).

Direct oracle on the real code (model-independent):
  * a derivation of the grammar is accepted;
  * every rejection is a GraphQLSyntaxError with 0 <= position <= len(text); any other exception class is
    `internal:<Class>`;
  * acceptance depends on token CLASSES only (the content of String/BlockString/Integer/Float tokens never
    matters): replacing the content of such a token must not change accept/reject;
  * accept/reject equals the Lean model's (which is proved equal to the grammar): a disagreement is the
    failing input.
"""
import itertools
import json

from common import REPO
from gen import document as gd

PROPERTY = "C01"
PART = "C01_parse"
RULE = ("parse: token lists from grammar derivations / token mutants and prefixes of derivations and fixtures / "
        "all token strings of length <= 4 (5) over 14 classes, x entry point x 8 flag combinations; distinct = "
        "distinct (entry, flags, token class+value string); non-trivial = accepted with >= 3 tokens, or rejected "
        "after at least one token was consumed")
ASSUMPTIONS = [
    "token lists given to the Lean parser are the real lexer's output for the text (lexer model is LANG-1's part; composed later)",
    "CPython recursion limit is outside the model: one named probe (deep nesting) reports it",
]
TRUSTED = [
    "Generated/ParserTables.lean is re-extracted from parser.py on every run (keyword sets, DIRECTIVE_LOCATIONS)",
    "Python canonicaliser of Node.to_dict() (strings -> code point arrays) in corr/C01_parse.py",
]

FLAG_COMBOS = [dict(no_location=nl, allow_type_system=ts, experimental_fragment_variables=fv)
               for nl in (False, True) for ts in (False, True) for fv in (False, True)]
FIXTURES = ["kitchen-sink.graphql", "schema-kitchen-sink.graphql", "github-schema.graphql",
            "introspection-schema.graphql", "star_wars.graphql"]


# ---------------------------------------------------------------------------------------------
# extraction: keyword sets and DIRECTIVE_LOCATIONS

def _lean_text(s):
    return "[" + ", ".join(str(ord(c)) for c in s) + "]"


def extract(ctx):
    import ast
    src = (REPO / "src/py_gql/lang/parser.py").read_text()
    tree = ast.parse(src)
    env = {}

    def ev(node):
        if isinstance(node, (ast.Tuple, ast.List)):
            return [ev(e) for e in node.elts]
        if isinstance(node, ast.Constant) and isinstance(node.value, str):
            return node.value
        if isinstance(node, ast.Name) and node.id in env:
            return env[node.id]
        if isinstance(node, ast.BinOp) and isinstance(node.op, ast.Add):
            return ev(node.left) + ev(node.right)
        if isinstance(node, ast.Call) and getattr(node.func, "id", None) == "frozenset" and len(node.args) == 1:
            return ev(node.args[0])
        raise ValueError("parser.py: unexpected table expression at line %d" % node.lineno)

    wanted = ["RUNTIME_DIRECTIVE_LOCATIONS", "SCHEMA_DIRECTIVE_LOCATONS", "DIRECTIVE_LOCATIONS", "_DIRECTIVE_LOCATIONS",
              "EXECUTABLE_DEFINITIONS_KEYWORDS", "SCHEMA_DEFINITIONS_KEYWORDS", "OPERATION_TYPES_KEYWORDS"]
    for n in tree.body:
        if isinstance(n, ast.Assign) and len(n.targets) == 1 and getattr(n.targets[0], "id", None) in wanted:
            env[n.targets[0].id] = ev(n.value)
    for w in wanted:
        if w not in env or not all(isinstance(x, str) for x in env[w]):
            raise ValueError("parser.py: table %s not found / not a list of strings" % w)
    # the tuple used inline by parse_operation_type
    op_inline = None
    for n in ast.walk(tree):
        if isinstance(n, ast.FunctionDef) and n.name == "parse_operation_type":
            for c in ast.walk(n):
                if isinstance(c, ast.Compare) and isinstance(c.ops[0], ast.In) and isinstance(c.comparators[0], ast.Tuple):
                    op_inline = ev(c.comparators[0])
    if op_inline is None:
        raise ValueError("parser.py: parse_operation_type no longer tests membership in a literal tuple")

    def table(name, items, doc):
        body = ",\n".join("  %s /- %s -/" % (_lean_text(s), s) for s in items)
        return "/-- %s -/\ndef %s : List Text := [\n%s\n]\n" % (doc, name, body)

    out = ["/- GENERATED by harness/corr/C01_parse.py from src/py_gql/lang/parser.py — do not edit -/",
           "import PyGqlModel.Token", "namespace PyGql.Generated.ParserTables", "open PyGql", "",
           table("directiveLocations", sorted(set(env["_DIRECTIVE_LOCATIONS"]), key=env["DIRECTIVE_LOCATIONS"].index),
                 "`_DIRECTIVE_LOCATIONS` (membership test of `parse_directive_location`)"),
           table("executableDefinitionsKeywords", env["EXECUTABLE_DEFINITIONS_KEYWORDS"], "`EXECUTABLE_DEFINITIONS_KEYWORDS`"),
           table("schemaDefinitionsKeywords", env["SCHEMA_DEFINITIONS_KEYWORDS"], "`SCHEMA_DEFINITIONS_KEYWORDS`"),
           table("operationTypesKeywords", env["OPERATION_TYPES_KEYWORDS"], "`OPERATION_TYPES_KEYWORDS`"),
           table("operationTypeTuple", op_inline, "the literal tuple tested by `parse_operation_type`"),
           "end PyGql.Generated.ParserTables", ""]
    return {"PyGqlModel/Generated/ParserTables.lean": "\n".join(out)}


# ---------------------------------------------------------------------------------------------
# real side

def cps(s):
    return [ord(c) for c in s]


def canon(x):
    """Node.to_dict() value -> the JSON the Lean encoder produces (strings as code point arrays)"""
    if isinstance(x, dict):
        return {k: (v if k == "__kind__" else canon(v)) for k, v in x.items()}
    if isinstance(x, (list, tuple)):
        return [canon(v) for v in x]
    if isinstance(x, str):
        return cps(x)
    return x


def lex(text):
    """real tokens (SOF..EOF) as JSON for the Lean side, or None if the lexer rejects"""
    from py_gql.lang.lexer import Lexer
    from py_gql.exc import GraphQLSyntaxError
    try:
        return [{"k": type(t).__name__, "s": t.start, "e": t.end, "v": cps(t.value)} for t in Lexer(text)]
    except GraphQLSyntaxError:
        return None


def real_parse(text, entry, flags):
    """('ok', node) | ('syntax', position) | ('internal:<Class>', repr)"""
    from py_gql.lang import parser as P
    from py_gql.exc import GraphQLSyntaxError
    fn = {"document": P.parse, "value": P.parse_value, "type": P.parse_type}[entry]
    try:
        return "ok", fn(text, **flags)
    except GraphQLSyntaxError as e:
        return "syntax", e.position, type(e).__name__
    except Exception as e:  # noqa
        return "internal:" + type(e).__name__, repr(e)[:200]


def flags_json(flags):
    return {"nl": flags["no_location"], "ts": flags["allow_type_system"], "fv": flags["experimental_fragment_variables"]}


def class_string(toks):
    """stable description of a (cls, lexeme) token list: names by value, literals by class (strings: decoded-ish)"""
    out = []
    for c, l in toks:
        if c in gd.PUNCT:
            out.append(gd.PUNCT[c])
        elif c == "Name":
            out.append(l)
        elif c == "String":
            out.append('S%s' % l)
        elif c == "BlockString":
            out.append('B%s' % l.replace("\n", "\\n"))
        else:
            out.append(c[0] + "#")
    return " ".join(out)


def fl_key(flags):
    return "".join("1" if flags[k] else "0" for k in ("no_location", "allow_type_system", "experimental_fragment_variables"))


# ---------------------------------------------------------------------------------------------
# one case = (toks as (cls, lexeme) list, entry, flags)

class Case:
    __slots__ = ("toks", "entry", "flags", "text", "origin", "expect", "label")

    def __init__(self, toks, entry, flags, origin, text=None, expect=None, label=None):
        self.toks, self.entry, self.flags, self.origin = toks, entry, flags, origin
        self.label = label      # with expect=False: why the text is known to be OUTSIDE the grammar
        self.text = gd.render(toks) if text is None else text
        self.expect = expect      # True: known derivation of the grammar under these flags


_MODEL = {}


def model_available(ctx):
    """the driver is built AND implements the parser ops"""
    if "ok" not in _MODEL:
        ok = False
        if ctx.model_ok and ctx.driver.available():
            try:
                a = ctx.driver.ask([{"op": "parse", "entry": "type", "nl": False, "ts": False, "fv": False,
                                     "toks": lex("a")}])[0]
                ok = "ok" in a
            except Exception:
                ok = False
        _MODEL["ok"] = ok
        if not ok:
            ctx.notes.append("C01_parse: Lean parser ops unavailable — direct oracle only")
    return _MODEL["ok"]


def evaluate(ctx, cases, want_model=True):
    """run real + model on the cases; returns list of (case, real_outcome, model_answer|None)"""
    reals, reqs, idx = [], [], []
    for i, c in enumerate(cases):
        r = real_parse(c.text, c.entry, c.flags)
        reals.append(r)
        if want_model and model_available(ctx):
            lt = lex(c.text)
            if lt is not None:
                reqs.append(dict(op="parse", entry=c.entry, toks=lt, **flags_json(c.flags)))
                idx.append(i)
    answers = [None] * len(cases)
    if reqs:
        for i, a in zip(idx, ctx.driver.ask(reqs)):
            answers[i] = a
    return list(zip(cases, reals, answers))


def outcome_pair(real, ans):
    """(impl accepts?, model accepts?) ; model None if unavailable"""
    return real[0] == "ok", (None if ans is None else ("ok" in ans))


def check_case(ctx, c, real, ans, shrink=True):
    """all comparisons for one evaluated case; returns True if everything agrees"""
    ctx.count()
    kind = real[0]
    ctx.stat("entry=%s" % c.entry)
    ctx.stat("origin=%s" % c.origin)
    ctx.stat("outcome=%s" % kind.split(":")[0])
    ok = True
    if kind.startswith("internal:"):
        sig = "%s:%s" % (kind, probe_shape(c))
        ctx.fail(sig, "the parser raises %s instead of GraphQLSyntaxError" % kind.split(":")[1], detail(c, real=real[1]))
        return False
    if kind == "syntax":
        pos = real[1]
        if not (isinstance(pos, int) and 0 <= pos <= len(c.text)):
            ctx.fail("syntax-error-position-out-of-range", "GraphQLSyntaxError.position outside the text",
                     detail(c, position=pos))
            ok = False
        if c.expect and not (ans is not None and "ok" in ans):
            # (when the model accepts, the accept-mismatch below reports it with a shrunk signature)
            ctx.fail("derivation-rejected:%s:%s" % (c.entry, fl_key(c.flags)),
                     "a text derived from the grammar is rejected", detail(c, position=pos))
            ok = False
    if c.expect is False:
        # direct oracle, model-independent: this text is OUTSIDE the grammar by construction
        if kind == "ok":
            ctx.fail("outside-grammar-accepted:%s" % ":".join((c.label or c.origin).split(":")[:2]),
                     "a text that is outside the grammar by construction is accepted (%s)" % (c.label or c.origin),
                     detail(c, why=c.label))
            ok = False
        if ans is not None and "ok" in ans:
            ctx.fail("corr:model-accepts-outside-grammar:%s" % (c.label or c.origin),
                     "the Lean parser accepts a text that is outside the grammar by construction",
                     detail(c, why=c.label), kind="correspondence")
            ok = False
        if not ok:
            return False       # (reported above with a stable signature; no second report as accept-mismatch)
    if ans is not None:
        ia, ma = outcome_pair(real, ans)
        if ia != ma:
            cc = c
            if shrink:
                cc = shrink_mismatch(ctx, c, ia)
            sig = "accept-mismatch:impl-%s:%s:%s" % ("accepts" if ia else "rejects", cc.entry, class_string(cc.toks))
            ctx.fail(sig, "the parser %s a token sequence that the grammar (Lean model, proved = yield specification) %s"
                     % (("accepts", "does not derive") if ia else ("rejects", "derives")),
                     detail(cc, impl="accept" if ia else "reject", model=ans if not ia else ans.get("err")))
            ok = False
        elif not ia:
            ok = check_error(ctx, c, real, ans["err"]) and ok
        if ia == ma and ia:
            want = canon(real[1].to_dict())
            if ans["ok"] != want:
                ctx.fail("corr:ast-differs:%s:%s" % (c.entry, first_diff(want, ans["ok"])),
                         "model AST and Node.to_dict() differ", detail(c, impl=want, model=ans["ok"]),
                         kind="correspondence")
                ok = False
            if ans.get("spec") not in (None, True):
                ctx.fail("corr:spec-check-failed:%s" % c.entry,
                         "compiled model output violates WF / yield / span spec (theorem vs compiled code)",
                         detail(c, model=ans), kind="correspondence")
                ok = False
    if kind == "ok":
        if len(c.toks) >= 3:
            ctx.nontrivial((c.entry, fl_key(c.flags), class_string(c.toks)))
    elif kind == "syntax" and real[1] > 0:
        ctx.nontrivial((c.entry, fl_key(c.flags), class_string(c.toks)))
    return ok


def shrink_mismatch(ctx, c, impl_accepts, rounds=120):
    """delta debugging with ONE driver call per round: all chunk deletions of the current size are tried at once"""
    toks = list(c.toks)

    def holding(cands):
        keep = []
        for cand in cands:
            k = Case(cand, c.entry, c.flags, c.origin)
            if (real_parse(k.text, k.entry, k.flags)[0] == "ok") == impl_accepts:
                lt = lex(k.text)
                if lt is not None:
                    keep.append((cand, dict(op="parse", entry=c.entry, toks=lt, **flags_json(c.flags))))
        if not keep:
            return None
        for (cand, _), a in zip(keep, ctx.driver.ask([r for _, r in keep])):
            if ("ok" in a) != impl_accepts:
                return cand
        return None

    progress = True
    while progress and rounds > 0:
        progress = False
        n = len(toks)
        sizes = sorted({max(1, n // d) for d in (2, 3, 4, 6, 8, 12, 16, 24, 32)} | set(range(1, min(n, 10))), reverse=True)
        for size in sizes:
            if rounds <= 0 or size >= len(toks) + 1:
                continue
            rounds -= 1
            cands = [toks[:i] + toks[i + size:] for i in range(0, len(toks) - size + 1)]
            got = holding(cands)
            if got is not None:
                toks = got
                progress = True
                break
    names = [i for i, (cl, l) in enumerate(toks) if cl == "Name" and l != "a"]
    for i in names:
        got = holding([toks[:i] + [("Name", "a")] + toks[i + 1:]])
        if got is not None:
            toks = got
    return Case(toks, c.entry, c.flags, c.origin)


def check_error(ctx, c, real, err):
    """both reject: the model's error position and class (UnexpectedEOF / UnexpectedToken) are the real parser's"""
    pos, cls = real[1], (real[2] if len(real) > 2 else "?")
    if err.get("msg") == "fuel":
        # the model's loops take fuel (token count + 1); `fail "fuel"` is an artefact of the model, never an error of the code.
        # Unreachability is proved for the lexer (lex_fuel_sufficient) but only STATED for the parser
        # (Props/C01_lazy.lean: ParseFuelSufficientStatement): if it ever surfaces, the model is wrong - reported.
        ctx.fail("corr:model-fuel-exhausted:%s" % c.entry, "the parser model ran out of fuel (model artefact)",
                 detail(c, model=err), kind="correspondence")
        return False
    ctx.extra["parser_model_rejections_without_fuel_artefact"] = ctx.extra.get("parser_model_rejections_without_fuel_artefact", 0) + 1
    if cls not in ("UnexpectedEOF", "UnexpectedToken"):
        ctx.stat("error-class=%s(not compared)" % cls)      # a lexer error: not produced by the token-level parser
        return True
    ctx.stat("error-class=%s" % cls)
    mcls = "UnexpectedEOF" if err.get("eof") else "UnexpectedToken"
    if err.get("pos") != pos or mcls != cls:
        what = ("position %s" % ("<" if err.get("pos") < pos else ">") if err.get("pos") != pos else "class")
        ctx.fail("corr:syntax-error-differs:%s:%s:impl=%s" % (c.entry, what, cls),
                 "model and parser reject with a different error position / class",
                 detail(c, impl=[pos, cls], model=[err.get("pos"), mcls]), kind="correspondence")
        return False
    return True


def _mismatch(ctx, k, impl_accepts):
    r = real_parse(k.text, k.entry, k.flags)
    if (r[0] == "ok") != impl_accepts:
        return False
    lt = lex(k.text)
    if lt is None:
        return False
    a = ctx.driver.ask([dict(op="parse", entry=k.entry, toks=lt, **flags_json(k.flags))])[0]
    return ("ok" in a) != impl_accepts


def shrink_case(ctx, c, pred, budget=400):
    """delta debugging on the token list (chunks, then single tokens), then name simplification, while `pred` holds"""
    toks = list(c.toks)
    n = [0]

    def holds(cand):
        if n[0] >= budget:
            return False
        n[0] += 1
        try:
            return bool(pred(Case(cand, c.entry, c.flags, c.origin)))
        except Exception:
            return False

    size = max(1, len(toks) // 2)
    while size >= 1 and n[0] < budget:
        i = 0
        progressed = False
        while i < len(toks) and n[0] < budget:
            cand = toks[:i] + toks[i + size:]
            if holds(cand):
                toks = cand
                progressed = True
            else:
                i += size
        if size == 1 and not progressed:
            break
        size = size // 2 if size > 1 else (1 if progressed else 0)
    for i, (cl, l) in enumerate(toks):
        if cl == "Name" and l != "a":
            cand = toks[:i] + [("Name", "a")] + toks[i + 1:]
            if holds(cand):
                toks = cand
    return Case(toks, c.entry, c.flags, c.origin)


def probe_shape(c):
    return "%s:%d-tokens" % (c.entry, min(len(c.toks), 50))


def detail(c, **kw):
    d = {"part": PART, "text": c.text, "entry": c.entry, "flags": c.flags, "origin": c.origin}
    d.update(kw)
    return d


def first_diff(a, b, path=""):
    if type(a) != type(b):
        return path or "/"
    if isinstance(a, dict):
        for k in sorted(set(a) | set(b)):
            if k not in a or k not in b:
                return "%s/%s" % (path, k)
            d = first_diff(a[k], b[k], "%s/%s" % (path, a.get("__kind__", "") + "." + k if "__kind__" in a else k))
            if d:
                return d
        return ""
    if isinstance(a, list):
        if len(a) != len(b):
            return path + "/len"
        for x, y in zip(a, b):
            d = first_diff(x, y, path + "[]")
            if d:
                return d
        return ""
    return "" if a == b else path


# ---------------------------------------------------------------------------------------------
# streams

def derivation_cases(ctx, n):
    rng = ctx.rng
    out = []
    for i in range(n):
        r = rng.random()
        if r < 0.15:
            const = rng.random() < 0.4
            toks = gd.gen_value(rng, const)
            fl = rng.choice(FLAG_COMBOS)
            out.append(Case(toks, "value", fl, "derivation", gd.render(toks, rng), True))
        elif r < 0.25:
            toks = gd.gen_type(rng)
            fl = rng.choice(FLAG_COMBOS)
            out.append(Case(toks, "type", fl, "derivation", gd.render(toks, rng), True))
        else:
            ts = rng.random() < 0.6
            fv = rng.random() < 0.5
            toks = gd.gen_document(rng, size=rng.randint(1, 4), executable=(not ts) or rng.random() < 0.7,
                                   type_system=ts, fragment_variables=fv, max_depth=rng.randint(1, 3))
            text = gd.render(toks, rng)
            # the derivation is in the language of exactly the flag sets that enable what it uses
            for fl in rng.sample(FLAG_COMBOS, 3):
                uses_ts = ts
                expect = (fl["allow_type_system"] or not uses_ts) and (fl["experimental_fragment_variables"] == fv or not _has_frag(toks))
                out.append(Case(toks, "document", fl, "derivation", text, True if expect and _flag_exact(toks, fl, ts, fv) else None))
    return out


def _has_frag(toks):
    return any(t == ("Name", "fragment") for t in toks)


def _flag_exact(toks, fl, ts, fv):
    """is the derivation certainly inside the language of flag set `fl`?"""
    if ts and not fl["allow_type_system"]:
        return False
    if fv and not fl["experimental_fragment_variables"]:
        # fragment variables may or may not have been generated: only certain when the flag matches
        return False
    return True


def mutants(rng, toks, k):
    """k token-level mutants of a token list"""
    out = []
    pool = [gd.T(c) for c in gd.PUNCT] + [gd.N(n) for n in ("a", "on", "query", "fragment", "type", "extend", "implements",
                                                          "schema", "true", "null", "QUERY", "input", "enum")] + \
           [("Integer", "1"), ("Float", "1.5"), ("String", '"s"'), ("String", '"on"'), ("BlockString", '"""b"""'),
            ("String", '"implements"')]
    n = len(toks)
    for _ in range(k):
        if n == 0:
            break
        m = rng.randrange(5)
        i = rng.randrange(n)
        if m == 0:
            out.append(toks[:i] + toks[i + 1:])
        elif m == 1:
            out.append(toks[:i] + [toks[i]] + toks[i:])
        elif m == 2 and n > 1:
            j = rng.randrange(n)
            t = list(toks)
            t[i], t[j] = t[j], t[i]
            out.append(t)
        elif m == 3:
            out.append(toks[:i] + [rng.choice(pool)] + toks[i + 1:])
        else:
            out.append(toks[:i] + [rng.choice(pool)] + toks[i:])
    return out


def fixture_tokens(name, limit=None):
    p = REPO / "tests" / "fixtures" / name
    if not p.exists():
        return None
    text = p.read_text()
    try:
        toks = gd.tokens_of_text(text)
    except Exception:
        return None
    return toks[:limit] if limit else toks


EXEC_ALPHABET = [gd.T("CurlyOpen"), gd.T("CurlyClose"), gd.T("ParenOpen"), gd.T("ParenClose"), gd.T("Colon"),
                 gd.T("Dollar"), gd.T("At"), gd.T("Ellip"), gd.N("a"), gd.N("on"), gd.N("query"), gd.N("fragment"),
                 ("Integer", "1"), ("String", '"on"')]
TS_ALPHABET = [gd.T("CurlyOpen"), gd.T("CurlyClose"), gd.T("Colon"), gd.T("At"), gd.T("Equals"), gd.T("Pipe"),
               gd.T("Ampersand"), gd.N("a"), gd.N("type"), gd.N("extend"), gd.N("implements"), gd.N("schema"),
               gd.N("query"), ("String", '"implements"')]
VALUE_ALPHABET = [gd.T("CurlyOpen"), gd.T("CurlyClose"), gd.T("BracketOpen"), gd.T("BracketClose"), gd.T("Colon"),
                  gd.T("Dollar"), gd.T("ExclamationMark"), gd.N("a"), gd.N("true"), gd.N("null"), ("Integer", "1"),
                  ("Float", "1.5"), ("String", '"s"'), ("BlockString", '"""b"""')]


def alphabet_json(alpha):
    out = []
    for c, l in alpha:
        t = lex(l)[1]
        out.append(t)
    return out


def exhaustive(ctx, alpha, entry, flags, length, label):
    """all token strings of exactly `length` over `alpha`: both sides enumerate in the same order"""
    ans = None
    if model_available(ctx):
        ans = ctx.driver.ask([dict(op="parse_enum", entry=entry, alphabet=alphabet_json(alpha), len=length,
                                   **flags_json(flags))])[0]
        accepted = {i: a for i, a in ans["accepted"]}
        errs = iter(ans.get("errs") or [])
        if ans["n"] != len(alpha) ** length:
            ctx.fail("corr:parse-enum-count", "Lean enumeration has the wrong size", {"part": PART, "n": ans["n"]},
                     kind="correspondence")
            return
    lex_w = [l for _, l in alpha]
    for i, combo in enumerate(itertools.product(range(len(alpha)), repeat=length)):
        if (i & 1023) == 0 and ctx.out_of_time():
            ctx.notes.append("exhaustive stream %s len %d cut at %d (time)" % (label, length, i))
            break
        text = " ".join(lex_w[j] for j in combo)
        real = real_parse(text, entry, flags)
        a = None
        if ans is not None:
            if i in accepted:
                a = {"ok": accepted[i]}
            else:
                ep = next(errs, None)
                a = {"err": {"pos": ep[0], "eof": bool(ep[1])} if ep is not None else {}}
        if real[0] == "syntax" and a is not None and "err" in a and 0 <= real[1] <= len(text) \
                and a["err"].get("pos") == real[1] and a["err"].get("eof") == (real[2] == "UnexpectedEOF"):
            # the overwhelmingly common case, inlined for speed
            ctx.evaluations += 1
            if real[1] > 0:
                ctx.nontrivial((entry, fl_key(flags), text))
            continue
        c = Case([alpha[j] for j in combo], entry, flags, "exhaustive:" + label, text)
        check_case(ctx, c, real, a)
    ctx.stat("exhaustive:%s:len%d" % (label, length), len(alpha) ** length)


def string_content_invariance(ctx, cases):
    """acceptance never depends on the content of a String/BlockString token (direct oracle, no model)"""
    rng = ctx.rng
    extra = []
    for c in cases:
        # keyword Names re-written as strings with the same content: a string where a keyword is expected
        idx = [i for i, t in enumerate(c.toks) if t[0] == "Name" and t[1] in ("on", "implements", "fragment", "extend", "type", "query")]
        if idx:
            i = rng.choice(idx)
            q = ("String", '"%s"' % c.toks[i][1]) if rng.random() < 0.7 else ("BlockString", '"""%s"""' % c.toks[i][1])
            extra.append(Case(c.toks[:i] + [q] + c.toks[i + 1:], c.entry, c.flags, "keyword-as-string"))
    for c in list(cases) + extra:
        idx = [i for i, t in enumerate(c.toks) if t[0] in ("String", "BlockString")]
        if not idx:
            continue
        i = rng.choice(idx)
        for repl in ('"on"', '"implements"', '"zz"'):
            new = ("String", repl) if c.toks[i][0] == "String" else ("BlockString", '""' + repl + '""')
            if new == c.toks[i]:
                continue
            k = Case(c.toks[:i] + [new] + c.toks[i + 1:], c.entry, c.flags, "string-content")
            a, b = real_parse(c.text, c.entry, c.flags), real_parse(k.text, k.entry, k.flags)
            ctx.count()
            if a[0].startswith("internal") or b[0].startswith("internal"):
                continue
            if (a[0] == "ok") != (b[0] == "ok"):
                acc = k if b[0] == "ok" else c
                acc = shrink_case(ctx, acc, lambda z: _content_sensitive(z) is not None, budget=3000)
                j = _content_sensitive(acc)
                where = "%s after %s" % (class_string(acc.toks[j:j + 1]), class_string(acc.toks[max(0, j - 1):j]) or "<start>") if j is not None else "?"
                ctx.fail("string-content-changes-acceptance:%s" % where,
                         "accept/reject depends on the CONTENT of a string token (string in keyword position)",
                         detail(acc, other=_rewrite_string(acc, j).text if j is not None else k.text))


def _rewrite_string(z, i):
    t = z.toks[i]
    new = ("String", '"zz"') if t[0] == "String" else ("BlockString", '"""zz"""')
    return Case(z.toks[:i] + [new] + z.toks[i + 1:], z.entry, z.flags, z.origin)


def _content_sensitive(z):
    """index of a string token of z whose content can be re-written so that acceptance flips (else None)"""
    r0 = real_parse(z.text, z.entry, z.flags)[0] == "ok"
    for i, t in enumerate(z.toks):
        if t[0] in ("String", "BlockString"):
            new = ("String", '"zz"') if t[0] == "String" else ("BlockString", '"""zz"""')
            k = Case(z.toks[:i] + [new] + z.toks[i + 1:], z.entry, z.flags, z.origin)
            if (real_parse(k.text, k.entry, k.flags)[0] == "ok") != r0:
                return i
    return None


def const_position_cases(ctx):
    """Value[Const] positions: a variable (bare, or nested in a list / object literal) in a default value, in a
    directive on a variable definition, or in ANY type-system directive is outside the grammar — for all flag
    combinations; the same text with a constant is a derivation when the flags enable what it uses."""
    cases = []
    seen_controls = set()
    for label, variant, text, needs_ts, control in gd.const_variable_mutants():
        fragvar = label.startswith("fragment-variable")
        for fl in FLAG_COMBOS:
            cases.append(Case(gd.tokens_of_text(text), "document", fl, "const-variable", text, False,
                              "const-variable:%s:%s" % (label, variant)))
            key = (control, fl_key(fl))
            if key not in seen_controls:
                seen_controls.add(key)
                derivable = (fl["allow_type_system"] or not needs_ts) and \
                            (fl["experimental_fragment_variables"] or not fragvar)
                cases.append(Case(gd.tokens_of_text(control), "document", fl, "const-control", control,
                                  True if derivable else None))
    rng = ctx.rng
    for _ in range(ctx.n(60, 400)):
        fv = rng.random() < 0.5
        toks = gd.gen_const_violation(rng, type_system=rng.random() < 0.7, fragment_variables=fv, size=rng.randint(1, 3))
        if toks is None:
            continue
        text = gd.render(toks, rng)
        for fl in rng.sample(FLAG_COMBOS, 2):
            cases.append(Case(toks, "document", fl, "const-variable-generated", text, False,
                              "const-variable:generated"))
    return cases


def const_position_bytes(ctx):
    """the same mutants submitted as UTF-8 bytes (direct oracle only)"""
    for label, variant, text, needs_ts, control in gd.const_variable_mutants():
        for fl in (FLAG_COMBOS[0], FLAG_COMBOS[3], FLAG_COMBOS[6]):
            r = real_parse(text.encode("utf-8"), "document", fl)
            ctx.count()
            ctx.stat("origin=const-variable-bytes")
            if r[0] == "ok":
                c = Case([], "document", fl, "const-variable-bytes", text, False, "const-variable:%s:%s" % (label, variant))
                ctx.fail("outside-grammar-accepted:const-variable:%s" % label,
                         "a variable in a Const position is accepted (bytes input)", detail(c, bytes=True))
            elif r[0].startswith("internal:"):
                ctx.fail("%s:const-variable-bytes" % r[0], "non-syntax exception on bytes input",
                         {"part": PART, "text": text, "entry": "document", "flags": fl, "bytes": True})


def deep_nesting_probe(ctx):
    """the single named probe of the interpreter's recursion budget (P1)"""
    for label, text, entry in (("selection-sets", "{a" * 1200 + "}" * 1200, "document"),
                               ("list-values", "[" * 1500 + "]" * 1500, "value"),
                               ("list-types", "[" * 1500 + "a" + "]" * 1500, "type")):
        r = real_parse(text, entry, FLAG_COMBOS[0])
        ctx.count()
        ctx.stat("deep-nesting:%s=%s" % (label, r[0]))
        if r[0].startswith("internal:"):
            ctx.fail("%s:deep-nesting:%s" % (r[0], label),
                     "nesting deeper than the interpreter's recursion budget raises %s" % r[0].split(":")[1],
                     {"part": PART, "probe": label, "entry": entry, "text_len": len(text), "depth": 1200 if entry == "document" else 1500})


PROBES = {"selection-sets": ("{a" * 1200 + "}" * 1200, "document"), "list-values": ("[" * 1500 + "]" * 1500, "value"),
          "list-types": ("[" * 1500 + "a" + "]" * 1500, "type")}


def corpus_cases():
    from common import CORPUS
    out = []
    d = CORPUS / "C01"
    if d.exists():
        for f in sorted(d.glob("parse_*.json")):
            for e in json.loads(f.read_text()):
                for fl in (e.get("flags") and [e["flags"]]) or FLAG_COMBOS:
                    out.append(Case(gd.tokens_of_text(e["text"]), e.get("entry", "document"), fl, "corpus", e["text"],
                                    e.get("accept") if e.get("accept") else None))
    return out


def run(ctx):
    rng = ctx.rng
    # 0. corpus
    cases = corpus_cases()
    for c, real, ans in evaluate(ctx, cases):
        check_case(ctx, c, real, ans)
    # 0b. Const positions (variables where Value[Const] is required), text and bytes
    for c, real, ans in evaluate(ctx, const_position_cases(ctx)):
        check_case(ctx, c, real, ans, shrink=False)
    const_position_bytes(ctx)
    # 1. derivations
    der = derivation_cases(ctx, ctx.n(500, 4000))
    for c, real, ans in evaluate(ctx, der):
        check_case(ctx, c, real, ans)
        if real[0] == "ok" and len(ctx.samples) < 3:
            ctx.sample({"text": c.text, "entry": c.entry, "flags": fl_key(c.flags), "outcome": "accepted"})
    string_content_invariance(ctx, [c for c in der[: ctx.n(300, 2000)]])
    # 2. mutants and prefixes (derivations + fixtures)
    muts = []
    for c in rng.sample(der, min(len(der), ctx.n(150, 1200))):
        for m in mutants(rng, c.toks, 4):
            muts.append(Case(m, c.entry, c.flags, "mutant"))
        if len(c.toks) <= 40:
            for k in range(len(c.toks)):
                muts.append(Case(c.toks[:k], c.entry, c.flags, "prefix"))
    for name in FIXTURES:
        ft = fixture_tokens(name)
        if not ft:
            continue
        fl = dict(no_location=False, allow_type_system=True, experimental_fragment_variables=True)
        if len(ft) < 2500:
            muts.append(Case(ft, "document", fl, "fixture:" + name, (REPO / "tests/fixtures" / name).read_text()))
            muts.append(Case(ft, "document", dict(fl, allow_type_system=False), "fixture:" + name))
            step = 1 if ctx.tier == "thorough" else 3
            for k in range(0, len(ft), step):
                muts.append(Case(ft[:k], "document", fl, "fixture-prefix:" + name))
            for m in mutants(rng, ft, ctx.n(40, 400)):
                muts.append(Case(m, "document", fl, "fixture-mutant:" + name))
        else:
            # the big schema: whole file once (thorough), windows of definitions otherwise
            if ctx.tier == "thorough":
                muts.append(Case(ft, "document", fl, "fixture:" + name, (REPO / "tests/fixtures" / name).read_text()))
            for _ in range(ctx.n(6, 40)):
                a = rng.randrange(len(ft) - 400)
                w = ft[a:a + rng.randint(50, 400)]
                muts.append(Case(w, "document", fl, "fixture-window:" + name))
    for i in range(0, len(muts), 2000):
        if ctx.out_of_time():
            ctx.notes.append("mutant stream cut (time)")
            break
        for c, real, ans in evaluate(ctx, muts[i:i + 2000]):
            check_case(ctx, c, real, ans)
    string_content_invariance(ctx, [c for c in muts if c.origin in ("mutant", "exhaustive")][: ctx.n(300, 2000)])
    # 3. bounded-exhaustive
    top = 4 if ctx.tier == "quick" else 5
    ex_fl = dict(no_location=False, allow_type_system=False, experimental_fragment_variables=False)
    ts_fl = dict(no_location=False, allow_type_system=True, experimental_fragment_variables=True)
    for length in range(0, top + 1):
        if ctx.time_left() < 3:
            ctx.notes.append("exhaustive streams cut at length %d (time)" % length)
            break
        exhaustive(ctx, EXEC_ALPHABET, "document", ex_fl, length, "exec")
        if length <= top - 1 or ctx.tier == "thorough":
            exhaustive(ctx, TS_ALPHABET, "document", ts_fl, length, "type-system")
        if length <= top - 1:
            exhaustive(ctx, VALUE_ALPHABET, "value", ex_fl, length, "value")
            exhaustive(ctx, VALUE_ALPHABET, "type", ex_fl, length, "type")
    # 4. named probe
    deep_nesting_probe(ctx)
    ctx.extra["parse_flag_combinations"] = len(FLAG_COMBOS)


def replay(ctx, data):
    d = data.get("input") or {}
    if d.get("part") not in (None, PART):
        return True
    if "probe" in d:
        text, entry = PROBES[d["probe"]]
        return not real_parse(text, entry, FLAG_COMBOS[0])[0].startswith("internal:")
    text, entry, flags = d["text"], d.get("entry", "document"), d.get("flags") or FLAG_COMBOS[0]
    real = real_parse(text.encode("utf-8") if d.get("bytes") else text, entry, flags)
    if real[0].startswith("internal:"):
        return False
    if d.get("why") and real[0] == "ok":      # a text that is outside the grammar by construction
        return False
    if real[0] == "syntax" and not (0 <= real[1] <= len(text)):
        return False
    if "other" in d:
        o = real_parse(d["other"], entry, flags)
        return (o[0] == "ok") == (real[0] == "ok")
    if ctx.driver.available():
        lt = lex(text)
        if lt is not None:
            a = ctx.driver.ask([dict(op="parse", entry=entry, toks=lt, **flags_json(flags))])[0]
            if ("ok" in a) != (real[0] == "ok"):
                return False
            if "ok" in a and a["ok"] != canon(real[1].to_dict()):
                return False
    return True
